"""C26 — affine expression algebra preserves values.

Cases are *build programs* (trees of operator applications and raw `AffineBinaryOpExpr` nodes over
d0..d2, s0..s1 and integer constants).  Every case is
  (a) executed on the real classes of /repo (`xdsl.ir.affine`, `xdsl.parser.affine_parser`),
  (b) judged by a direct oracle: the value of the built / simplified / composed / replaced /
      printed-and-reparsed expression equals the reference value at every point of a box
      (the reference for building is an independent evaluator of the program; for the other
      operations it is `eval` of the original expression, at the substituted point where applicable),
  (c) sent to the Lean model `affine` and compared line by line (structural result as a canonical
      Polish s-expression, exception class on a raise, integer values of `eval`).
"""
from __future__ import annotations

import itertools
from typing import Any, Callable

from vp import core

META = {
    "title": "Affine expression algebra preserves values",
    "category": "proof",
    "design_ref": "DESIGN.md §5 C26",
    "lean_modules": ["XdslProofs.C26", "XdslProofs.C26Parse"],
    "text": (
        "Lean theorems over the model XdslModel/Affine.lean (Python floor division/modulo = Int.fdiv/"
        "Int.fmod): every smart constructor (__add__, __mul__, __floordiv__, ceil_div, __mod__, __neg__, "
        "__sub__, AffineExpr.binary) returns an expression whose value at every assignment is the "
        "arithmetic result of the operand values (floor/ceil/mod characterised independently for "
        "positive constant divisors); the flattener invariant flat_denotes (row · (dims, syms, locals, 1) "
        "= eval e) and simplify_eval (whenever simplify returns, the value is unchanged at every point) "
        "plus simplify_total (it returns on every pure-affine expression with constant right "
        "multiplicands, positive divisors and in-range positions) and build_inScope / build_simplify_eval "
        "(everything built with the listed operations is such an expression); replace_eval / compose_eval / "
        "map_compose_eval (substitution lemma); parse (print e) = rebuild e on tokens with "
        "rebuild_eval, and the character-level lexer round trip. Tied to /repo by running random and "
        "exhaustive-small build programs through the real classes and the Lean driver and diffing the "
        "structural results, exception classes and eval values; the direct oracle evaluates original "
        "vs transformed real expressions on all points of a box."
    ),
    "technique": "Lean 4 structural-induction proofs + exhaustive/random differential correspondence with the real classes + direct evaluation oracle on a box",
    "level_note": (
        "Trusted: Lean kernel; hand-written model XdslModel/Affine.lean (tied by correspondence only; the "
        "flattener's explicit stack is modelled as the equivalent post-order recursion, rows as "
        "(coefficients, constant)); Python int arithmetic = Int.fdiv/Int.fmod; the MLIR lexer is modelled "
        "only on the alphabet {space ( ) + - * digits letters _}. Excluded by the statement: non-positive "
        "or non-constant divisors, multiplication of two non-constants (semi-affine; the code raises "
        "NotImplementedError), `int - expr` (__rsub__ computes expr - int; subtraction with an int on "
        "the left is not one of the listed operations; noted only), `int // expr`. Those are exercised "
        "in a separate stream for exception-class correspondence only, without oracle. A raise is not a "
        "value, so raising calls are skipped by the oracle (NotImplementedError of simplify on "
        "`const * expr` built with the raw constructor is counted, not judged)."
    ),
    "rule": (
        "random streams: build programs of depth ≤ 6 over d0..d2, s0..s1, constants in [-8,8], divisors "
        "in [1,8] (smart operators add/sub/neg/mul-by-constant/floordiv/ceildiv/mod, Python-int operands "
        "mixed in; a second stream uses the raw AffineBinaryOpExpr constructor; a third builds sums of div/mod terms over scaled copies of one linear form to hit gcd cancellation and local reuse in the flattener); per program: build, "
        "simplify(3,2), replace_dims_and_symbols with random replacement expressions, compose with a "
        "random 3-result map, AffineMap.compose, str + re-parse, eval at sample points; exhaustive "
        "stream: every program of depth ≤ 2 over a small alphabet. Non-trivial = the program contains a "
        "floordiv/ceildiv/mod over a non-constant operand or a multiplication/subtraction of a "
        "non-leaf, i.e. some on-the-fly simplification or flattening step is exercised. Distinct = "
        "distinct (operation, program text)."
    ),
    "trusted_base": [
        "correspondence harness harness/props/c26.py (differential, bounded-exhaustive + random)",
        "hand-written Lean model XdslModel/Affine.lean of affine_expr.py / affine_map.py / affine_parser.py (expression part)",
    ],
    "budget": {"quick": 75, "thorough": 1000},
}

ND, NS = 3, 2
CODE = {"add": "+", "mul": "*", "mod": "%", "fdiv": "/", "cdiv": "^"}
DIVS = ("fdiv", "cdiv", "mod")

# ---------------------------------------------------------------------------------------------
# programs
# ---------------------------------------------------------------------------------------------
# ('c', v) AffineConstantExpr   ('i', v) Python int operand   ('d', p)   ('s', p)
# ('raw', kind, l, r) AffineBinaryOpExpr(kind, l, r)   ('op', kind, l, r) operator application
# ('sub', l, r)   ('neg', a)

Prog = tuple


def enc(p: Prog) -> str:
    t = p[0]
    if t in ("c", "i"):
        return f"c{p[1]}"
    if t in ("d", "s"):
        return f"{t}{p[1]}"
    if t == "raw":
        return f"{CODE[p[1]]} {enc(p[2])} {enc(p[3])}"
    if t == "op":
        return f"{p[1]} {enc(p[2])} {enc(p[3])}"
    if t == "sub":
        return f"sub {enc(p[1])} {enc(p[2])}"
    if t == "neg":
        return f"neg {enc(p[1])}"
    raise core.InfraError(f"bad program {p!r}")


def children(p: Prog) -> list[Prog]:
    t = p[0]
    if t in ("raw", "op"):
        return [p[2], p[3]]
    if t == "sub":
        return [p[1], p[2]]
    if t == "neg":
        return [p[1]]
    return []


def with_children(p: Prog, cs: list[Prog]) -> Prog:
    t = p[0]
    if t in ("raw", "op"):
        return (t, p[1], cs[0], cs[1])
    if t == "sub":
        return ("sub", cs[0], cs[1])
    if t == "neg":
        return ("neg", cs[0])
    return p


def psize(p: Prog) -> int:
    return 1 + sum(psize(c) for c in children(p))


def pvars(p: Prog, acc: set | None = None) -> set:
    acc = set() if acc is None else acc
    if p[0] in ("d", "s"):
        acc.add((p[0], p[1]))
    for c in children(p):
        pvars(c, acc)
    return acc


def nontrivial(p: Prog) -> bool:
    t = p[0]
    if t in ("raw", "op") and p[1] in DIVS and pvars(p[2]):
        return True
    if t in ("raw", "op") and p[1] == "mul" and (children(p[2]) or children(p[3])):
        return True
    if t == "sub" and children(p[2]):
        return True
    return any(nontrivial(c) for c in children(p))


def kinds():
    from xdsl.ir.affine.affine_expr import AffineBinaryOpKind as K

    return {"add": K.Add, "mul": K.Mul, "mod": K.Mod, "fdiv": K.FloorDiv, "cdiv": K.CeilDiv}


def build_real(p: Prog) -> Any:
    """run the program on the real classes (operands left to right)"""
    from xdsl.ir.affine import AffineExpr
    from xdsl.ir.affine.affine_expr import AffineBinaryOpExpr

    t = p[0]
    if t == "c":
        return AffineExpr.constant(p[1])
    if t == "i":
        return p[1]
    if t == "d":
        return AffineExpr.dimension(p[1])
    if t == "s":
        return AffineExpr.symbol(p[1])
    if t == "raw":
        return AffineBinaryOpExpr(kinds()[p[1]], build_real(p[2]), build_real(p[3]))
    if t == "op":
        a, b = build_real(p[2]), build_real(p[3])
        k = p[1]
        if k == "add":
            return a + b
        if k == "mul":
            return a * b
        if k == "fdiv":
            return a // b
        if k == "cdiv":
            return a.ceil_div(b)
        if k == "mod":
            return a % b
    if t == "sub":
        return build_real(p[1]) - build_real(p[2])
    if t == "neg":
        return -build_real(p[1])
    raise core.InfraError(f"bad program {p!r}")


def show_real(e: Any) -> str:
    from xdsl.ir.affine.affine_expr import (AffineBinaryOpExpr, AffineBinaryOpKind as K, AffineConstantExpr,
                                            AffineDimExpr, AffineSymExpr)

    if isinstance(e, AffineConstantExpr):
        return f"c{e.value}"
    if isinstance(e, AffineDimExpr):
        return f"d{e.position}"
    if isinstance(e, AffineSymExpr):
        return f"s{e.position}"
    if isinstance(e, AffineBinaryOpExpr):
        code = {K.Add: "+", K.Mul: "*", K.Mod: "%", K.FloorDiv: "/", K.CeilDiv: "^"}[e.kind]
        return f"{code} {show_real(e.lhs)} {show_real(e.rhs)}"
    raise core.InfraError(f"not an affine expression: {e!r}")


def ref_eval(p: Prog, d, s) -> int:
    """independent reference value of a build program (mathematical floor / ceiling / remainder)"""
    t = p[0]
    if t in ("c", "i"):
        return p[1]
    if t == "d":
        return d[p[1]]
    if t == "s":
        return s[p[1]]
    if t in ("raw", "op"):
        a, b = ref_eval(p[2], d, s), ref_eval(p[3], d, s)
        k = p[1]
        if k == "add":
            return a + b
        if k == "mul":
            return a * b
        if b <= 0:
            raise ZeroDivisionError("outside the statement")
        q = a // b  # floor for b > 0
        if k == "fdiv":
            return q
        if k == "mod":
            return a - b * q
        return q if a - b * q == 0 else q + 1
    if t == "sub":
        return ref_eval(p[1], d, s) - ref_eval(p[2], d, s)
    return -ref_eval(p[1], d, s)


def obs(f: Callable[[], str]) -> str:
    try:
        return f()
    except Exception as e:  # noqa: BLE001
        return "raise " + core.exc_name(e)


# ---------------------------------------------------------------------------------------------
# generators
# ---------------------------------------------------------------------------------------------

def gen_leaf(rng) -> Prog:
    r = rng.random()
    if r < 0.5:
        return ("d", rng.randrange(ND))
    if r < 0.8:
        return ("s", rng.randrange(NS))
    return ("c", rng.randint(-8, 8))


def gen_const(rng, lo, hi, allow_int=True) -> Prog:
    return ("i" if allow_int and rng.random() < 0.4 else "c", rng.randint(lo, hi))


def gen_prog(rng, depth: int, raw: float = 0.0) -> Prog:
    """mostly-valid program inside the statement: constant multipliers, positive constant divisors"""
    if depth == 0 or rng.random() < 0.12:
        return gen_leaf(rng)
    is_raw = rng.random() < raw
    k = rng.choice(["add", "add", "sub", "mul", "mul", "fdiv", "cdiv", "mod", "mod", "neg"])
    a = gen_prog(rng, depth - 1, raw)
    if k == "add":
        b = gen_prog(rng, depth - 1, raw)
        if is_raw:
            return ("raw", "add", a, b)
        if rng.random() < 0.15:
            c = gen_const(rng, -8, 8)
            return ("op", "add", a, c) if rng.random() < 0.6 or a[0] == "i" else ("op", "add", c, a)
        return ("op", "add", a, b)
    if k == "sub":
        b = gen_prog(rng, depth - 1, raw) if rng.random() < 0.8 else gen_const(rng, -8, 8)
        return ("sub", a, b)
    if k == "neg":
        return ("neg", a)
    if k == "mul":
        if is_raw:
            c = ("c", rng.randint(-8, 8))
            return ("raw", "mul", a, c) if rng.random() < 0.8 else ("raw", "mul", c, a)
        c = gen_const(rng, -8, 8)
        if rng.random() < 0.1:  # constant-valued sub-program as multiplier
            c = ("op", "add", ("c", rng.randint(-3, 3)), ("c", rng.randint(-3, 3)))
        return ("op", "mul", a, c) if rng.random() < 0.6 else ("op", "mul", c, a)
    c = ("c", rng.randint(1, 8)) if is_raw else gen_const(rng, 1, 8)
    return ("raw" if is_raw else "op", k, a, c)


def fix_ints(p: Prog, int_ok: bool = False) -> Prog:
    """A Python int may only stand where the API takes one: as the right operand of an operator or of
    `-`, or as the left operand of `+` / `*` next to an AffineExpr.  Other ints become constants."""
    t = p[0]
    if t == "i":
        return p if int_ok else ("c", p[1])
    cs = children(p)
    if not cs:
        return p
    if t in ("raw", "neg"):
        return with_children(p, [fix_ints(c) for c in cs])
    l, r = cs
    r2 = fix_ints(r, True)
    if t == "sub":
        l2 = fix_ints(l)
    else:
        l2 = fix_ints(l, p[1] in ("add", "mul") and r2[0] != "i")
    return with_children(p, [l2, r2])


def gen_outside(rng, depth: int) -> Prog:
    """programs outside the statement: any operand anywhere, divisors in [-3, 3], positions up to 4"""
    if depth == 0 or rng.random() < 0.2:
        r = rng.random()
        if r < 0.4:
            return ("d", rng.randrange(ND + 2))
        if r < 0.6:
            return ("s", rng.randrange(NS + 2))
        return ("c", rng.randint(-3, 3))
    k = rng.choice(["add", "mul", "fdiv", "cdiv", "mod", "sub", "neg"])
    if k == "neg":
        return ("neg", gen_outside(rng, depth - 1))
    if k == "sub":
        return ("sub", gen_outside(rng, depth - 1), gen_outside(rng, depth - 1))
    return ("raw" if rng.random() < 0.4 else "op", k, gen_outside(rng, depth - 1), gen_outside(rng, depth - 1))


def exhaustive_programs(level: int) -> list[Prog]:
    """every program of depth ≤ 2 over a small alphabet (operators applied the way the statement
    allows: constant multipliers, positive constant divisors)."""
    if level == 0:
        leaves = [("d", 0), ("s", 0), ("c", 3)]
        mults = [("c", -1), ("c", 2)]
        divs = [("c", 2), ("c", 3)]
    else:
        leaves = [("d", 0), ("d", 1), ("s", 0), ("c", 0), ("c", 1), ("c", -2), ("c", 3)]
        mults = [("c", -1), ("c", 0), ("c", 1), ("c", 2), ("i", 3)]
        divs = [("c", 1), ("c", 2), ("c", 3), ("i", 4)]

    def grow(sub: list[Prog]) -> list[Prog]:
        out: list[Prog] = []
        for a in sub:
            out.append(("neg", a))
            for b in sub:
                out.append(("op", "add", a, b))
                out.append(("sub", a, b))
            for c in mults:
                out.append(("op", "mul", a, c))
                if c[0] == "c" or a[0] != "i":
                    out.append(("op", "mul", c, a))
            for c in divs:
                for k in DIVS:
                    out.append(("op", k, a, c))
        return out

    t1 = leaves + grow(leaves)
    t2 = grow(t1)
    return t1 + t2


# ---------------------------------------------------------------------------------------------
# points
# ---------------------------------------------------------------------------------------------

_BOX_CACHE: dict = {}


def box_points(rng, used: set, budget: int, nrandom: int, nsyms: int = NS) -> list[tuple[tuple, tuple]]:
    """all assignments of the used variables in the largest box [-L, L]^|used| (L ≤ 6) with at most
    `budget` points (unused variables are given arbitrary fixed values), plus random points of
    [-6,6]^n and a few of larger magnitude."""
    names = [("d", i) for i in range(ND)] + [("s", i) for i in range(nsyms)]
    us = tuple(n for n in names if n in used)
    key = (us, budget, nsyms)
    pts = _BOX_CACHE.get(key)
    if pts is None:
        L = 6
        while L > 1 and (2 * L + 1) ** len(us) > budget:
            L -= 1
        pts = []
        if (2 * L + 1) ** len(us) <= max(budget, 243):
            fill = [rng.randint(-6, 6) for _ in names]
            for vals in itertools.product(range(-L, L + 1), repeat=len(us)):
                m = dict(zip(us, vals))
                full = [m.get(n, fill[i]) for i, n in enumerate(names)]
                pts.append((tuple(full[:ND]), tuple(full[ND:])))
        _BOX_CACHE[key] = pts
    pts = list(pts)
    for j in range(nrandom):
        hi = 6 if j % 4 else 100
        full = [rng.randint(-hi, hi) for _ in names]
        pts.append((tuple(full[:ND]), tuple(full[ND:])))
    return pts


# ---------------------------------------------------------------------------------------------
# shrinking
# ---------------------------------------------------------------------------------------------

def pweight(p: Prog) -> int:
    w = abs(p[1]) if p[0] in ("c", "i", "d", "s") else 0
    return w + sum(pweight(c) for c in children(p))


def shrink_progs(progs: list[Prog], still_fails: Callable[[list[Prog]], bool], max_steps: int = 600) -> list[Prog]:
    """greedy: replace a subtree by one of its children, by a small leaf, or a constant by a smaller
    one, while the failure persists"""

    def variants(p: Prog):
        cs = children(p)
        for c in cs:
            yield c
        if cs:
            yield ("d", 0)
            yield ("c", 1)
        elif p[0] in ("c", "i") and abs(p[1]) > 1:
            yield (p[0], p[1] // 2 if p[1] > 0 else -((-p[1]) // 2))
            yield (p[0], p[1] - 1 if p[1] > 0 else p[1] + 1)
        elif p[0] in ("d", "s") and p[1] > 0:
            yield (p[0], 0)
        for i, c in enumerate(cs):
            for v in variants(c):
                n = list(cs)
                n[i] = v
                yield with_children(p, n)

    def measure(ps):
        return (sum(psize(p) for p in ps), sum(pweight(p) for p in ps))

    cur = list(progs)
    steps = 0
    improved = True
    while improved and steps < max_steps:
        improved = False
        for i in range(len(cur)):
            for v in variants(cur[i]):
                cand = cur[:i] + [fix_ints(v)] + cur[i + 1:]
                if measure(cand) >= measure(cur):
                    continue
                steps += 1
                try:
                    bad = still_fails(cand)
                except Exception:  # noqa: BLE001
                    bad = False
                if bad:
                    cur = cand
                    improved = True
                    break
                if steps >= max_steps:
                    break
            if improved or steps >= max_steps:
                break
    return cur


# ---------------------------------------------------------------------------------------------
# operations: each returns (protocol line, implementation observation, first violating point or None)
# ---------------------------------------------------------------------------------------------

def first_diff(f_new: Callable, f_ref: Callable, pts) -> Any:
    """first point where the transformed value differs from the reference value.  Points where the
    reference itself is undefined (ZeroDivisionError / IndexError) are outside the statement."""
    for d, s in pts:
        try:
            want = f_ref(d, s)
        except (ZeroDivisionError, IndexError):
            continue
        try:
            got = f_new(d, s)
        except Exception as e:  # noqa: BLE001
            return {"dims": list(d), "syms": list(s), "expected": want, "got": "raise " + core.exc_name(e)}
        if got != want:
            return {"dims": list(d), "syms": list(s), "expected": want, "got": got}
    return None


def op_build(progs, pts):
    (p,) = progs
    line = "build " + enc(p)
    try:
        e = build_real(p)
    except Exception as ex:  # noqa: BLE001
        return line, "raise " + core.exc_name(ex), None
    bad = first_diff(lambda d, s: e.eval(d, s), lambda d, s: ref_eval(p, d, s), pts) if pts else None
    return line, "ok " + show_real(e), bad


def op_simplify(progs, pts, nd=ND, ns=NS):
    (p,) = progs
    line = f"simplify {nd} {ns} " + enc(p)
    try:
        e = build_real(p)
        r = e.simplify(nd, ns)
    except Exception as ex:  # noqa: BLE001
        return line, "raise " + core.exc_name(ex), None
    bad = first_diff(lambda d, s: r.eval(d, s), lambda d, s: e.eval(d, s), pts) if pts else None
    return line, "ok " + show_real(r), bad


def op_replace(progs, pts, n=None, m=None):
    """progs = n dim replacements, m symbol replacements, the expression"""
    *reps, p = progs
    n = len(reps) if n is None else n
    m = len(reps) - n if m is None else m
    line = f"replace {n} {m} " + " ".join(enc(q) for q in progs)
    try:
        es = [build_real(q) for q in progs]
        e, nd_, ns_ = es[-1], es[:n], es[n:n + m]
        r = e.replace_dims_and_symbols(nd_, ns_)
    except Exception as ex:  # noqa: BLE001
        return line, "raise " + core.exc_name(ex), None

    def ref(d, s):
        d2 = [nd_[i].eval(d, s) if i < len(nd_) else d[i] for i in range(len(d))]
        s2 = [ns_[i].eval(d, s) if i < len(ns_) else s[i] for i in range(len(s))]
        return e.eval(d2, s2)

    bad = first_diff(lambda d, s: r.eval(d, s), ref, pts) if pts else None
    return line, "ok " + show_real(r), bad


def op_compose(progs, pts):
    """progs = k map results, the expression; `expr.compose(AffineMap(ND, NS, results))`"""
    from xdsl.ir.affine import AffineMap

    *res, p = progs
    k = len(res)
    line = f"compose {k} " + " ".join(enc(q) for q in progs)
    try:
        es = [build_real(q) for q in progs]
        e = es[-1]
        mp = AffineMap(ND, NS, tuple(es[:k]))
        r = e.compose(mp)
    except Exception as ex:  # noqa: BLE001
        return line, "raise " + core.exc_name(ex), None

    def ref(d, s):
        inner = mp.eval(d, s)
        return e.eval(list(inner) + list(d[len(inner):]), s)

    bad = first_diff(lambda d, s: r.eval(d, s), ref, pts) if pts else None
    return line, "ok " + show_real(r), bad


def op_mapcompose(progs, pts, shape):
    """shape = (nd1, ns1, k1, nd2, ns2, k2); progs = k1 results of self, k2 results of other"""
    from xdsl.ir.affine import AffineMap

    nd1, ns1, k1, nd2, ns2, k2 = shape
    line = (f"mapcompose {nd1} {ns1} {k1} " + " ".join(enc(q) for q in progs[:k1])
            + f" {nd2} {ns2} {k2} " + " ".join(enc(q) for q in progs[k1:]))
    line = " ".join(line.split())
    try:
        es = [build_real(q) for q in progs]
        m1 = AffineMap(nd1, ns1, tuple(es[:k1]))
        m2 = AffineMap(nd2, ns2, tuple(es[k1:]))
        r = m1.compose(m2)
    except Exception as ex:  # noqa: BLE001
        return line, "raise " + core.exc_name(ex), None
    out = f"map {r.num_dims} {r.num_symbols} {len(r.results)}" + "".join(" | " + show_real(x) for x in r.results)

    def new(d, s):
        return r.eval(d[:nd2], s[:ns1 + ns2])

    def ref(d, s):
        return m1.eval(m2.eval(d[:nd2], s[ns1:ns1 + ns2]), s[:ns1])

    bad = first_diff(new, ref, pts) if pts else None
    return line, out, bad


def parse_real(text: str, nd: int, ns: int):
    from xdsl.parser.affine_parser import AffineParser
    from xdsl.parser.generic_parser import ParserState
    from xdsl.utils.lexer import Input
    from xdsl.utils.mlir_lexer import MLIRLexer, MLIRTokenKind

    p = AffineParser(ParserState(MLIRLexer(Input(text, "<c26>"))))
    dims = [f"d{i}" for i in range(nd)]
    syms = [f"s{i}" for i in range(ns)]
    e = p._parse_affine_expr(p._get_parse_optional_bare_id(dims, syms))
    rest = 0
    while p._current_token.kind != MLIRTokenKind.EOF:
        p._consume_token()
        rest += 1
    return e, rest


def parse_map_real(text: str):
    from xdsl.parser.affine_parser import AffineParser
    from xdsl.parser.generic_parser import ParserState
    from xdsl.utils.lexer import Input
    from xdsl.utils.mlir_lexer import MLIRLexer

    return AffineParser(ParserState(MLIRLexer(Input(text, "<c26>")))).parse_affine_map()


def op_str(progs, pts):
    (p,) = progs
    line = "str " + enc(p)
    try:
        e = build_real(p)
        t = str(e)
    except Exception as ex:  # noqa: BLE001
        return line, "raise " + core.exc_name(ex), None
    return line, "str " + t, None


def op_print_parse(progs, pts):
    """print with `AffineMap.__str__`, re-parse with `parse_affine_map` (the public round trip);
    the protocol line is the expression-level parse of `str(expr)`"""
    from xdsl.ir.affine import AffineMap

    (p,) = progs
    try:
        e = build_real(p)
    except Exception as ex:  # noqa: BLE001
        return "build " + enc(p), "raise " + core.exc_name(ex), None
    text = str(e)
    line = f"parse {ND} {NS} {text}"
    try:
        r, rest = parse_real(text, ND, NS)
    except Exception as ex:  # noqa: BLE001
        return line, "raise " + core.exc_name(ex), None
    bad = None
    if pts:
        mp = parse_map_real(str(AffineMap(ND, NS, (e,))))
        if mp.results[0] != r or len(mp.results) != 1:
            raise core.InfraError(f"parse_affine_map and _parse_affine_expr disagree on {text!r}")
        bad = first_diff(lambda d, s: mp.eval(d, s)[0], lambda d, s: e.eval(d, s), pts)
        if bad is None and rest != 0:
            bad = {"unconsumed_tokens": rest}
    return line, f"ok {show_real(r)} rest {rest}", bad


def op_eval(progs, pt):
    (p,) = progs
    d, s = pt
    line = f"eval {len(d)} {len(s)} " + " ".join(map(str, list(d) + list(s))) + " " + enc(p)
    line = " ".join(line.split())
    try:
        e = build_real(p)
        v = e.eval(d, s)
    except Exception as ex:  # noqa: BLE001
        return line, "raise " + core.exc_name(ex), None
    return line, f"int {v}", None


def op_mapeval(progs, pts, shape=None, args=None):
    """`AffineMap(nd, ns, results).eval(dims, syms)` incl. its argument-count assertions"""
    from xdsl.ir.affine import AffineMap

    nd, ns = shape
    d, sy = args
    line = (f"mapeval {nd} {ns} {len(progs)} " + " ".join(enc(q) for q in progs)
            + f" {len(d)} {len(sy)} " + " ".join(map(str, list(d) + list(sy))))
    line = " ".join(line.split())
    try:
        es = [build_real(q) for q in progs]
        vs = AffineMap(nd, ns, tuple(es)).eval(d, sy)
    except Exception as ex:  # noqa: BLE001
        return line, "raise " + core.exc_name(ex), None
    return line, "ints" + "".join(f" {v}" for v in vs), None


def op_pure(progs, pts):
    (p,) = progs
    line = "pure " + enc(p)
    try:
        e = build_real(p)
        b = e.is_pure_affine()
    except Exception as ex:  # noqa: BLE001
        return line, "raise " + core.exc_name(ex), None
    return line, "bool " + ("true" if b else "false"), None


# -- MLIR-style (minimally parenthesised) text of a raw tree and its reference value -----------

PREC = {"add": 10, "sub": 10, "mul": 20, "fdiv": 20, "cdiv": 20, "mod": 20}
TOK = {"add": "+", "sub": "-", "mul": "*", "fdiv": "floordiv", "cdiv": "ceildiv", "mod": "mod"}


def pretty(p: Prog, rng, ctx_prec: int = 0, right: bool = False) -> str:
    """infix text with only the parentheses precedence and left-associativity require (plus random
    redundant ones and random spacing around symbolic operators)"""
    t = p[0]
    if t in ("c", "i"):
        txt = str(p[1])
        return f"({txt})" if p[1] < 0 and ctx_prec > 0 and rng.random() < 0.3 else txt
    if t in ("d", "s"):
        return f"{t}{p[1]}"
    if t == "neg":
        return "-" + pretty(p[1], rng, 30)
    k = p[1] if t in ("raw", "op") else "sub"
    l, r = (p[2], p[3]) if t in ("raw", "op") else (p[1], p[2])
    pr = PREC[k]
    sp = " " if k in DIVS or rng.random() < 0.7 else ""
    txt = pretty(l, rng, pr, False) + sp + TOK[k] + sp + pretty(r, rng, pr, True)
    if pr < ctx_prec or (pr == ctx_prec and right) or rng.random() < 0.1:
        return "(" + txt + ")"
    return txt


def op_parse_pretty(progs, pts, rng=None, text=None):
    (p,) = progs
    if text is None:
        text = pretty(p, rng)
    line = f"parse {ND} {NS} {text}"
    try:
        r, rest = parse_real(text, ND, NS)
    except Exception as ex:  # noqa: BLE001
        return line, "raise " + core.exc_name(ex), None
    bad = first_diff(lambda d, s: r.eval(d, s), lambda d, s: ref_eval(p, d, s), pts) if pts else None
    if bad is None and pts and rest != 0:
        bad = {"unconsumed_tokens": rest}
    return line, f"ok {show_real(r)} rest {rest}", bad


OPS: dict[str, tuple[str, Callable]] = {
    # name: (call site for a failing oracle, function)
    "build": ("xdsl.ir.affine.affine_expr.AffineExpr.binary", op_build),
    "simplify": ("xdsl.ir.affine.affine_expr.AffineExpr.simplify", op_simplify),
    "replace": ("xdsl.ir.affine.affine_expr.AffineExpr.replace_dims_and_symbols", op_replace),
    "compose": ("xdsl.ir.affine.affine_expr.AffineExpr.compose", op_compose),
    "mapcompose": ("xdsl.ir.affine.affine_map.AffineMap.compose", op_mapcompose),
    "print_parse": ("xdsl.parser.affine_parser.AffineParser.parse_affine_map", op_print_parse),
    "parse_pretty": ("xdsl.parser.affine_parser.AffineParser._parse_affine_expr", op_parse_pretty),
}

SIGNATURES = {
    "build": "constructed expression evaluates differently from the arithmetic meaning of the operators",
    "simplify": "simplified expression evaluates differently from the original",
    "replace": "replaced expression evaluates differently from the original at the substituted point",
    "compose": "composed expression evaluates differently from expression-after-map",
    "mapcompose": "composed map evaluates differently from self-after-other",
    "print_parse": "printed and re-parsed expression evaluates differently from the original",
    "parse_pretty": "parsed expression evaluates differently from the standard reading of the text",
}


class Batch:
    """collects protocol lines and implementation observations; judges; compares with the model"""

    def __init__(self, ctx: core.Ctx):
        self.ctx = ctx
        self.lines: list[str] = []
        self.impl: list[str] = []
        self.meta: list[dict] = []

    def run(self, op: str, progs: list[Prog], pts, judge: bool = True, **kw) -> str:
        ctx = self.ctx
        site, fn = OPS[op] if op in OPS else ("", {"str": op_str, "eval": op_eval, "pure": op_pure, "mapeval": op_mapeval}[op])
        line, out, bad = fn(progs, pts if judge or op == "eval" else None, **kw)
        self.lines.append(line)
        self.impl.append(out)
        self.meta.append({"op": op, "progs": [list_prog(p) for p in progs], **{k: v for k, v in kw.items() if k != "rng"}})
        ctx.ev()
        ctx.count("op." + op)
        ctx.count("outcome." + ("raise" if out.startswith("raise") else "ok"))
        if judge and op in OPS and any(nontrivial(p) for p in progs):
            ctx.nt((op, line))
        if out.startswith("raise"):
            ctx.count("raise." + op + "." + out.split()[1])
        if bad is not None and judge:
            self.report(op, site, progs, pts, bad, kw)
        return out

    def report(self, op, site, progs, pts, bad, kw):
        fn = OPS[op][1]
        kw2 = dict(kw)
        if op == "parse_pretty":
            # keep the text fixed only when not shrinking programs: re-render deterministically
            import random as _r
            kw2 = {"rng": _r.Random(0)}

        def still(c):
            return fn(c, pts, **kw2)[2] is not None

        small = shrink_progs(list(progs), still) if still(list(progs)) else list(progs)
        line, out, bad2 = fn(small, pts, **kw2)
        bad2 = bad2 if bad2 is not None else bad
        if op == "build":
            site = build_site(small[0])
        self.ctx.fail(site, SIGNATURES[op],
                      {"op": op, "progs": [list_prog(p) for p in small], "line": line,
                       **({"text": line.split(" ", 3)[3]} if op == "parse_pretty" else {}),
                       **{k: v for k, v in kw.items() if k != "rng"}, "point": bad2},
                      f"`{line}` gives `{out}`; at dims={bad2.get('dims')} syms={bad2.get('syms')} the value is "
                      f"{bad2.get('got')} but the reference value is {bad2.get('expected')}"
                      if "dims" in bad2 else f"`{line}` gives `{out}`: {bad2}",
                      out, bad2)

    def compare(self, model_name: str = "affine") -> None:
        model = self.ctx.model(model_name, self.lines)
        i = core.diff_streams(self.impl, model)
        if i is not None:
            self.ctx.mismatch(f"correspondence:C26/{model_name}", {**self.meta[i], "line": self.lines[i]},
                              self.impl[i], model[i])


def build_site(p: Prog) -> str:
    t = p[0]
    base = "xdsl.ir.affine.affine_expr.AffineExpr."
    if t == "op":
        return base + {"add": "__add__", "mul": "__mul__", "fdiv": "__floordiv__", "cdiv": "ceil_div", "mod": "__mod__"}[p[1]]
    if t == "sub":
        return base + "__sub__"
    if t == "neg":
        return base + "__neg__"
    return base + "eval"


def list_prog(p: Prog) -> list:
    return [list_prog(x) if isinstance(x, tuple) else x for x in p]


def tuple_prog(p) -> Prog:
    return tuple(tuple_prog(x) if isinstance(x, list) else x for x in p)


# ---------------------------------------------------------------------------------------------
# streams
# ---------------------------------------------------------------------------------------------

def full_treatment(b: Batch, rng, p: Prog, budget: int, nrandom: int, heavy: bool) -> None:
    ctx = b.ctx
    used = pvars(p)
    pts = box_points(rng, used, budget, nrandom)
    key = enc(p)
    if nontrivial(p):
        ctx.nt(("build", key))
    out = b.run("build", [p], pts)
    if out.startswith("raise"):
        return
    b.run("simplify", [p], pts)
    b.run("print_parse", [p], pts)
    b.run("str", [p], None, judge=False)
    for pt in pts[-2:]:
        b.run("eval", [p], pt, judge=False)
    if not heavy:
        return
    # replace: random replacement lists (possibly shorter than the number of dims / symbols)
    n, m = rng.randint(0, ND), rng.randint(0, NS)
    reps = [fix_ints(gen_prog(rng, rng.randint(0, 2))) for _ in range(n + m)]
    allv = set(used)
    for q in reps:
        allv |= pvars(q)
    pts2 = box_points(rng, allv, budget, nrandom)
    b.run("replace", reps + [p], pts2, n=n, m=m)
    b.run("replace", [p], pts, n=0, m=0)
    res = [fix_ints(gen_prog(rng, rng.randint(0, 3))) for _ in range(ND)]
    allv = set()
    for q in res:
        allv |= pvars(q)
    allv |= {v for v in used if v[0] == "s"}
    b.run("compose", res + [p], box_points(rng, allv, budget, nrandom))


def stream_random(ctx: core.Ctx, b: Batch, n: int, budget: int, nrandom: int, raw: float) -> None:
    rng = ctx.rng
    for i in range(n):
        if ctx.time_left() < 10:
            ctx.count("stopped_early.random")
            break
        p = fix_ints(gen_prog(rng, rng.randint(1, 6), raw))
        ctx.count("random.raw" if raw else "random.smart")
        ctx.count(f"size.{min(psize(p) // 8 * 8, 40):02d}+")
        full_treatment(b, rng, p, budget, nrandom, heavy=True)
        if i < 2:
            ctx.sample({"program": enc(p), "impl": b.impl[-6:]})


def gen_flat_prog(rng) -> Prog:
    """sums of floordiv/ceildiv/mod terms over scaled copies of one linear form, so that the
    flattener's gcd cancellation and its reuse of an existing local identifier are exercised"""
    vs = [("d", 0), ("d", 1), ("d", 2), ("s", 0), ("s", 1)]
    base: Prog = rng.choice(vs)
    if rng.random() < 0.5:
        base = ("op", "add", ("op", "mul", base, ("c", rng.choice([-2, -1, 2, 3]))), rng.choice(vs))
    if rng.random() < 0.3:
        base = ("op", "add", base, ("c", rng.randint(-3, 3)))
    m = rng.randint(2, 6)
    terms: list[Prog] = []
    for _ in range(rng.randint(2, 4)):
        k = rng.choice([1, 1, 2, 3, 4])
        mm = m if rng.random() < 0.75 else rng.randint(2, 6)
        num: Prog = base if k == 1 else ("op", "mul", base, ("c", k))
        r = rng.random()
        if r < 0.25:
            num = ("op", "add", num, ("c", k * rng.randint(-2, 2)))
        elif r < 0.35:
            num = ("op", "add", num, ("c", rng.randint(-3, 3)))
        t: Prog = ("op", rng.choice(DIVS), num, ("c", k * mm))
        if rng.random() < 0.3:
            t = ("op", "mul", t, ("c", rng.choice([-2, -1, 2, mm, k * mm])))
        if rng.random() < 0.15:
            t = ("op", rng.choice(DIVS), t, ("c", rng.randint(2, 4)))
        terms.append(t)
    p = terms[0]
    for t in terms[1:]:
        p = ("op", "add", p, t) if rng.random() < 0.6 else ("sub", p, t)
    if rng.random() < 0.2:
        p = ("op", rng.choice(DIVS), p, ("c", rng.randint(2, 6)))
    return p


def stream_flatten(ctx: core.Ctx, b: Batch, n: int, budget: int, nrandom: int) -> None:
    rng = ctx.rng
    for _ in range(n):
        if ctx.time_left() < 10:
            ctx.count("stopped_early.flatten")
            break
        p = gen_flat_prog(rng)
        ctx.count("random.flatten")
        pts = box_points(rng, pvars(p), budget, nrandom)
        out = b.run("build", [p], pts)
        if not out.startswith("raise"):
            b.run("simplify", [p], pts)


def stream_mapcompose(ctx: core.Ctx, b: Batch, n: int, budget: int, nrandom: int) -> None:
    rng = ctx.rng
    for _ in range(n):
        if ctx.time_left() < 10:
            break
        ns1, ns2 = rng.randint(0, 2), rng.randint(0, 2)
        k2 = rng.randint(1, 3)  # = nd1
        k1 = rng.randint(1, 3)

        def restrict(p: Prog, nd: int, ns: int) -> Prog:
            if p[0] == "d":
                return ("d", p[1] % nd) if nd else ("c", p[1])
            if p[0] == "s":
                return ("s", p[1] % ns) if ns else ("c", p[1] + 1)
            return with_children(p, [restrict(c, nd, ns) for c in children(p)])

        r1 = [fix_ints(restrict(gen_prog(rng, rng.randint(0, 4)), k2, ns1)) for _ in range(k1)]
        r2 = [fix_ints(restrict(gen_prog(rng, rng.randint(0, 3)), ND, ns2)) for _ in range(k2)]
        used = {("d", i) for i in range(ND)} | {("s", i) for i in range(ns1 + ns2)}
        pts = box_points(rng, used, budget, nrandom, nsyms=4)
        b.run("mapcompose", r1 + r2, pts, shape=(k2, ns1, k1, ND, ns2, k2))
        ctx.nt(("mapcompose", b.lines[-1]))


def stream_pretty(ctx: core.Ctx, b: Batch, n: int, budget: int, nrandom: int) -> None:
    rng = ctx.rng
    for _ in range(n):
        if ctx.time_left() < 10:
            break
        p = fix_ints(gen_prog(rng, rng.randint(1, 5)))
        p = to_const_leaves(p)
        pts = box_points(rng, pvars(p), budget, nrandom)
        b.run("parse_pretty", [p], pts, rng=rng)
        b.meta[-1]["text"] = b.lines[-1].split(" ", 3)[3]
        if nontrivial(p):
            ctx.nt(("parse", b.lines[-1]))


def to_const_leaves(p: Prog) -> Prog:
    if p[0] == "i":
        return ("c", p[1])
    return with_children(p, [to_const_leaves(c) for c in children(p)])


def stream_exhaustive(ctx: core.Ctx, b: Batch, level: int, budget: int) -> None:
    rng = ctx.rng
    progs = exhaustive_programs(level)
    ctx.count("exhaustive.programs", len(progs))
    done = 0
    for p in progs:
        if ctx.time_left() < 8:
            ctx.count("stopped_early.exhaustive")
            ctx.extra["exhaustive_truncated_after"] = done
            return
        full_treatment(b, rng, p, budget, 2, heavy=False)
        done += 1
    ctx.extra["exhaustive_programs"] = done


def stream_outside(ctx: core.Ctx, b: Batch, n: int) -> None:
    """outside the statement: no oracle, exception-class / structural correspondence only"""
    rng = ctx.rng
    for _ in range(n):
        p = gen_outside(rng, rng.randint(1, 4))
        ctx.count("outside.programs")
        out = b.run("build", [p], None, judge=False)
        b.run("pure", [p], None, judge=False)
        if out.startswith("raise"):
            continue
        b.run("simplify", [p], None, judge=False, nd=rng.randint(2, ND + 1), ns=rng.randint(1, NS + 1))
        b.run("str", [p], None, judge=False)
        b.run("print_parse", [p], None, judge=False)
        pt = (tuple(rng.randint(-3, 3) for _ in range(rng.randint(2, ND + 2))),
              tuple(rng.randint(-3, 3) for _ in range(rng.randint(1, NS + 2))))
        b.run("eval", [p], pt, judge=False)
        k = rng.randint(0, 3)
        res = [gen_outside(rng, rng.randint(0, 2)) for _ in range(k)]
        b.run("compose", res + [p], None, judge=False)
        # AffineMap.compose with (mis)matching dimension counts, AffineMap.eval with (mis)matching arity
        k1, k2 = rng.randint(0, 2), rng.randint(0, 3)
        nd1 = k2 if rng.random() < 0.7 else rng.randint(0, 3)
        r1 = [gen_outside(rng, rng.randint(0, 2)) for _ in range(k1)]
        r2 = [gen_outside(rng, rng.randint(0, 2)) for _ in range(k2)]
        b.run("mapcompose", r1 + r2, None, judge=False,
              shape=(nd1, rng.randint(0, 2), k1, rng.randint(0, 3), rng.randint(0, 2), k2))
        na, nb = rng.randint(2, 4), rng.randint(1, 3)
        b.run("mapeval", res, None, judge=False, shape=(rng.choice([na, 3]), rng.choice([nb, 2])),
              args=(tuple(rng.randint(-3, 3) for _ in range(na)), tuple(rng.randint(-3, 3) for _ in range(nb))))
    # malformed / unusual text for the parser
    toks = ["d0", "d1", "d2", "d3", "s0", "s1", "s2", "(", ")", "+", "-", "*", "mod", "floordiv", "ceildiv",
            "0", "1", "2", "3", "7", "12", "y", "mod2", "d0d1", "_", " "]
    for _ in range(n):
        text = " ".join(rng.choice(toks) for _ in range(rng.randint(1, 9)))
        if rng.random() < 0.3:
            text = text.replace(" ", "")
        text = " ".join(text.split()) if rng.random() < 0.5 else text.strip()
        if "  " in text or not text:
            continue
        line = f"parse {ND} {NS} {text}"
        try:
            r, rest = parse_real(text, ND, NS)
            out = f"ok {show_real(r)} rest {rest}"
        except Exception as ex:  # noqa: BLE001
            out = "raise " + core.exc_name(ex)
        b.lines.append(line)
        b.impl.append(out)
        b.meta.append({"op": "parse_text", "text": text})
        ctx.ev()
        ctx.count("op.parse_text")
        ctx.count("outcome." + ("raise" if out.startswith("raise") else "ok"))


def run(ctx: core.Ctx) -> None:
    import time

    ctx.lean()
    # the generation budget starts after the Lean build + audit (whose duration depends on machine load)
    ctx.budget_s += time.time() - ctx.t0
    ctx.extra["lean_phase_s"] = round(time.time() - ctx.t0, 1)
    b = Batch(ctx)
    quick = ctx.tier == "quick"
    # corpus of shapes that exercise each simplification rule (always run first)
    rng = ctx.rng
    for p in CORPUS:
        full_treatment(b, rng, p, 200, 8, heavy=True)
    if quick:
        stream_random(ctx, b, 250, 130, 10, raw=0.0)
        stream_random(ctx, b, 100, 130, 10, raw=0.5)
        stream_flatten(ctx, b, 400, 130, 10)
        stream_mapcompose(ctx, b, 60, 100, 10)
        stream_pretty(ctx, b, 200, 100, 8)
        stream_outside(ctx, b, 120)
        stream_exhaustive(ctx, b, 0, 64)
    else:
        stream_random(ctx, b, 6000, 700, 60, raw=0.0)
        stream_random(ctx, b, 2500, 700, 60, raw=0.5)
        stream_flatten(ctx, b, 8000, 700, 60)
        stream_mapcompose(ctx, b, 1500, 400, 60)
        stream_pretty(ctx, b, 5000, 400, 30)
        stream_outside(ctx, b, 3000)
        stream_exhaustive(ctx, b, 1, 200)
    ctx.count("protocol.lines", len(b.lines))
    b.compare()
    ctx.exhaustive = "exhaustive_truncated_after" not in ctx.extra
    ctx.extra["exhaustive_scope"] = (
        "every build program of depth ≤ 2 over the small alphabet of exhaustive_programs(level) "
        "(level 0 in quick, 1 in thorough), each built, simplified, printed and re-parsed and evaluated "
        "on the full box of its variables; random beyond")


CORPUS: list[Prog] = [
    # the three examples of the flattener's docstring
    ("sub", ("sub", ("op", "add", ("op", "add", ("d", 0), ("op", "mul", ("c", 3), ("d", 1))), ("d", 0)),
             ("op", "mul", ("c", 2), ("d", 1))), ("d", 0)),
    ("op", "mod", ("op", "add", ("sub", ("d", 0), ("op", "mod", ("d", 0), ("c", 4))), ("c", 4)), ("c", 4)),
    ("op", "add", ("op", "fdiv", ("op", "add", ("op", "add", ("op", "mul", ("c", 3), ("d", 0)),
                                                ("op", "mul", ("c", 2), ("d", 1))), ("d", 0)), ("c", 2)), ("d", 1)),
    # gcd cancelling in div / mod, reuse of a local, ceildiv
    ("op", "fdiv", ("op", "add", ("op", "mul", ("d", 0), ("c", 4)), ("c", 6)), ("c", 8)),
    ("op", "cdiv", ("op", "add", ("op", "mul", ("d", 0), ("c", 4)), ("c", 6)), ("c", 8)),
    ("op", "mod", ("op", "add", ("op", "mul", ("d", 0), ("c", 4)), ("c", 6)), ("c", 8)),
    ("op", "add", ("op", "mod", ("d", 0), ("c", 4)), ("op", "fdiv", ("d", 0), ("c", 4))),
    ("op", "add", ("op", "mod", ("op", "mul", ("d", 0), ("c", 2)), ("c", 8)), ("op", "fdiv", ("d", 0), ("c", 4))),
    ("op", "add", ("op", "fdiv", ("d", 0), ("c", 4)), ("op", "mod", ("op", "mul", ("d", 0), ("c", 2)), ("c", 8))),
    ("sub", ("op", "cdiv", ("d", 1), ("c", 3)), ("op", "cdiv", ("op", "mul", ("d", 1), ("c", 2)), ("c", 6))),
    ("sub", ("op", "cdiv", ("s", 0), ("c", 3)), ("op", "fdiv", ("s", 0), ("c", 3))),
    ("op", "fdiv", ("op", "fdiv", ("d", 1), ("c", 2)), ("c", 3)),
    ("op", "mod", ("op", "cdiv", ("op", "add", ("d", 0), ("s", 1)), ("c", 2)), ("c", 3)),
    # (expr + c) + c, (expr * c) * c, (a + b) * c, negation of sums
    ("op", "add", ("op", "add", ("d", 0), ("c", 3)), ("i", -3)),
    ("op", "mul", ("op", "mul", ("d", 0), ("c", 3)), ("c", -2)),
    ("op", "mul", ("i", 2), ("op", "add", ("op", "add", ("d", 0), ("c", 3)), ("s", 0))),
    ("neg", ("op", "add", ("op", "mul", ("d", 0), ("c", 0)), ("c", 5))),
    ("raw", "add", ("c", 1), ("raw", "add", ("c", 2), ("c", 3))),
    ("op", "add", ("raw", "add", ("c", 1), ("c", 2)), ("c", 3)),
    ("op", "mul", ("raw", "mul", ("c", 2), ("c", 3)), ("c", 4)),
    ("raw", "mul", ("c", 2), ("d", 0)),
    ("raw", "mod", ("raw", "fdiv", ("c", 7), ("c", 2)), ("c", 3)),
]


# ---------------------------------------------------------------------------------------------
# replay
# ---------------------------------------------------------------------------------------------

def replay(ctx: core.Ctx, body: dict) -> int:
    import random as _r

    case = body["case"]
    op = case["op"]
    rng = _r.Random(0)
    if op == "parse_text":
        text = case["text"]
        line = f"parse {ND} {NS} {text}"
        impl = obs(lambda: (lambda r: f"ok {show_real(r[0])} rest {r[1]}")(parse_real(text, ND, NS)))
        model = ctx.model("affine", [line])[0]
        print("line          :", line)
        print("implementation:", impl)
        print("lean model    :", model)
        return 1 if impl != model else 0
    progs = [tuple_prog(p) for p in case["progs"]]
    used = set()
    for p in progs:
        used |= pvars(p)
    if op == "mapcompose":
        used = {("d", i) for i in range(ND)} | {("s", i) for i in range(4)}
    pts = box_points(rng, used, 700, 60, nsyms=4 if op == "mapcompose" else NS)
    if "point" in case and isinstance(case["point"], dict) and "dims" in case["point"]:
        pts.insert(0, (tuple(case["point"]["dims"]), tuple(case["point"]["syms"])))
    kw = {k: v for k, v in case.items() if k in ("n", "m", "nd", "ns")}
    if op == "mapcompose":
        kw["shape"] = tuple(case["shape"])
    if op == "parse_pretty":
        kw["rng"] = rng
        if "text" in case:
            kw = {"text": case["text"]}
    fn = OPS[op][1] if op in OPS else {"str": op_str, "eval": op_eval, "pure": op_pure, "mapeval": op_mapeval}[op]
    if op == "mapeval":
        kw = {"shape": tuple(case["shape"]), "args": tuple(tuple(a) for a in case["args"])}
    if op == "eval":
        line, impl, bad = fn(progs, pts[0])
    else:
        line, impl, bad = fn(progs, pts, **kw)
    model = ctx.model("affine", [line])[0]
    print("line            :", line)
    print("implementation  :", impl)
    print("lean model      :", model)
    print("oracle (first point where the value differs from the reference):", bad)
    failed = bad is not None
    print("property", "FAILS" if failed else "holds", "on this case;",
          "model and implementation", "agree" if impl == model else "DISAGREE")
    return 1 if failed or impl != model else 0
