"""C14, CSE leg: the table of known operations of `cse` is a Python dict keyed by `OperationInfo`.

What decides whether two operations are merged is `OperationInfo.__hash__`/`__eq__` (name, attribute
and property dictionaries, result types, operands, regions).  The blocks generated here are built
around *near-duplicates*: for an operation already in the block a twin is added that differs from it
in exactly ONE of these components (or in none: an exact repetition), and where the component is an
attribute value the twin's value is chosen, whenever one exists in the type's range, so that its
Python hash COLLIDES with the original's (CPython: hash(-1) == hash(-2); hash(v) == hash(v + k*M)
for M = sys.hash_info.modulus = 2**61 - 1 and equal signs) -- a comparison that is too coarse in one
component, or that leans on the hash, then merges two different operations.

Per block:
 (a) direct oracle of the property: source and result of the real pass are executed by the Lean
     reference semantics (`sem`) on boundary/random inputs; every operation's result is returned, so
     a wrong merge changes a returned value; a raise / unverifiable result is a failure too;
 (b) correspondence with the Lean CSE model, both with the collision-free table (`cse`) and with the
     hashed table fed with the hashes observed on the real operations (`cseh`);
 (c) twin scf.if operations (same condition, bodies equal / differing in one constant or operation):
     the region comparison `is_structurally_equivalent`, oracle (a) only;
 (d) entry points and invocation histories: `cse` is public as a pass and as the function
     `cse(Operation | Block | Region[, rewriter])` (control-flow-hoist and the stencil canonicalisation
     call it on single blocks with their PatternRewriter).  The property speaks about every run, so
     every block / scf.if program is also put, on a fresh clone each, through EVERY entry point, one
     after the other in the same process (and once twice in a row on the same object): each result
     must verify, must be CLOSED (every operand is defined inside the module the run was given --
     nothing may come from an earlier run's program), and must either print exactly as the result of
     the pass (which (a) and (b) have checked) or pass (a) itself.  A failure is reported with the
     history of runs that leads to it, reduced in fresh processes to the shortest suffix that still
     fails there.
"""
from __future__ import annotations

import struct
import sys
from typing import Any

from vp import core, proggen
from props import c14_tv

M = sys.hash_info.modulus

INT_TYPES = ["i1", "i8", "i32", "i64", "index"]
WIDER = {"i1": ["i8", "i32", "i64"], "i8": ["i32", "i64"], "i32": ["i64"]}
NARROWER = {"i64": ["i32", "i8", "i1"], "i32": ["i8", "i1"], "i8": ["i1"]}
BIN_OPS = ["addi", "addi", "muli", "subi", "xori", "andi", "divui"]
PREDS = ["eq", "ne", "slt", "sle", "ult", "uge"]
FLOATS = [0.0, -0.0, 1.0, 2.0 ** 61, 0.5, 2.0 ** 60, -1.0, -(2.0 ** 61), 3.0]


def width(t: str) -> int:
    return proggen.width(t)


def int_pool(t: str) -> list[int]:
    w = width(t)
    lo, hi = -(1 << (w - 1)), (1 << (w - 1)) - 1
    vals = [0, 1, 5, -1, -2, lo, hi, 7]
    if w > 61:
        vals += [M, M + 1, 2 * M, -M, -1 - M, 7 + 3 * M]
    return [v for v in vals if lo <= v <= hi]


def hash_twins(v: int, t: str) -> list[int]:
    """the other values of the type whose Python hash equals hash(v) (the hash of an IntegerAttr is a
    function of the hash of its int)"""
    return proggen.hash_twins(v, width(t))


def ftext(t: str, x: float) -> str:
    bits = struct.unpack("<I", struct.pack("<f", x))[0] if t == "f32" else struct.unpack("<Q", struct.pack("<d", x))[0]
    return f"0x{bits:0{8 if t == 'f32' else 16}X}"


_attr_hash_cache: dict[tuple[str, Any], int] = {}


def float_twins(x: float, t: str) -> list[float]:
    """float constants of the pool whose real attribute hash collides with that of x (none if the
    implementation hashes floats by bit pattern)"""
    from xdsl.dialects.builtin import Float32Type, Float64Type, FloatAttr

    ty = Float32Type() if t == "f32" else Float64Type()

    def h(y: float) -> int:
        k = (t, ftext(t, y))
        if k not in _attr_hash_cache:
            _attr_hash_cache[k] = hash(FloatAttr(y, ty))
        return _attr_hash_cache[k]

    return [y for y in FLOATS if ftext(t, y) != ftext(t, x) and h(y) == h(x)]


class Op:
    """one generated operation: text pieces + the generator's own identity key"""

    def __init__(self, kind: str, name: str, detail: str, operands: list[str], ty: str, res: str, value: Any = None):
        self.kind, self.name, self.detail, self.operands, self.ty, self.res, self.value = kind, name, detail, operands, ty, res, value

    def key(self) -> str:
        return f"{self.name}:{self.detail}:{self.ty}>{self.res}"

    def text(self, v: str) -> str:
        if self.kind == "const":
            if self.res == "i1":
                return f"{v} = arith.constant {'true' if self.value else 'false'}"
            if self.res in ("f32", "f64"):
                return f"{v} = arith.constant {ftext(self.res, self.value)} : {self.res}"
            return f"{v} = arith.constant {self.value} : {self.res}"
        if self.kind == "cmpi":
            return f"{v} = arith.cmpi {self.detail}, {self.operands[0]}, {self.operands[1]} : {self.ty}"
        if self.kind == "cast":
            return f"{v} = arith.{self.name} {self.operands[0]} : {self.ty} to {self.res}"
        return f"{v} = arith.{self.name} {self.operands[0]}, {self.operands[1]} : {self.ty}"


def const_op(t: str, value: Any) -> Op:
    d = ftext(t, value) if t in ("f32", "f64") else str(int(value))
    return Op("const", "constant", d, [], t, t, value)


class BlockGen:
    def __init__(self, rng: Any, t: str):
        self.rng, self.t = rng, t
        self.ft = rng.choice(["f32", "f64"])
        self.nargs = rng.randint(1, 3)
        self.args = [f"%a{i}" for i in range(self.nargs)]
        self.pool: dict[str, list[str]] = {t: list(self.args)}
        self.ops: list[tuple[str, Op]] = []
        self.twins = 0
        self.collider_twins = 0

    def add(self, op: Op) -> str:
        v = f"%v{len(self.ops)}"
        self.ops.append((v, op))
        self.pool.setdefault(op.res, []).append(v)
        return v

    def pick(self, t: str) -> str:
        return self.rng.choice(self.pool[t][-5:])

    def fresh(self) -> Op:
        r, t = self.rng, self.t
        x = r.random()
        if x < 0.22:
            return const_op(t, r.choice([0, 1]) if t == "i1" else r.choice(int_pool(t)))
        if x < 0.30:
            return const_op(self.ft, r.choice(FLOATS))
        if x < 0.42:
            p = r.choice(PREDS)
            return Op("cmpi", "cmpi", p, [self.pick(t), self.pick(t)], t, "i1")
        if x < 0.52 and t != "index" and (WIDER.get(t) or NARROWER.get(t)):
            if WIDER.get(t) and (not NARROWER.get(t) or r.random() < 0.6):
                return Op("cast", r.choice(["extsi", "extui"]), "", [self.pick(t)], t, r.choice(WIDER[t]))
            return Op("cast", "trunci", "", [self.pick(t)], t, r.choice(NARROWER[t]))
        if x < 0.52 and t == "index":
            return Op("cast", "index_cast", "", [self.pick(t)], t, r.choice(["i32", "i64"]))
        return Op("bin", r.choice(BIN_OPS), "", [self.pick(t), self.pick(t)], t, t)

    def twin(self) -> Op | None:
        """a copy of an earlier operation changed in exactly one component of its identity (or none)"""
        r = self.rng
        _, o = r.choice(self.ops)
        if r.random() < 0.2:
            return Op(o.kind, o.name, o.detail, list(o.operands), o.ty, o.res, o.value)
        if o.kind == "const":
            if o.res == "i1":
                return const_op("i1", 1 - o.value)
            if o.res in ("f32", "f64"):
                tw = float_twins(o.value, o.res)
                self.collider_twins += bool(tw)
                return const_op(o.res, r.choice(tw or [y for y in FLOATS if ftext(o.res, y) != ftext(o.res, o.value)]))
            tw = hash_twins(o.value, o.res)
            self.collider_twins += bool(tw)
            w = width(o.res)
            return const_op(o.res, r.choice(tw) if tw else proggen.ProgGen.wrap(o.value + r.choice([1, -1]), w))
        if o.kind == "cmpi":
            return Op("cmpi", "cmpi", r.choice([p for p in PREDS if p != o.detail]), list(o.operands), o.ty, "i1")
        if o.kind == "cast":
            alts = [x for x in (WIDER.get(o.ty, []) if o.name.startswith("ext") else NARROWER.get(o.ty, []) if o.name == "trunci" else ["i32", "i64"]) if x != o.res]
            if o.name.startswith("ext") and (not alts or r.random() < 0.5):
                return Op("cast", "extui" if o.name == "extsi" else "extsi", "", list(o.operands), o.ty, o.res)
            if not alts:
                return None
            return Op("cast", o.name, "", list(o.operands), o.ty, r.choice(alts))
        x = r.random()
        if x < 0.4:
            return Op("bin", r.choice([n for n in BIN_OPS if n != o.name]), "", list(o.operands), o.ty, o.res)
        if x < 0.6 and o.operands[0] != o.operands[1]:
            return Op("bin", o.name, "", o.operands[::-1], o.ty, o.res)
        others = [v for v in self.pool[o.ty] if v != o.operands[1]]
        if not others:
            return None
        return Op("bin", o.name, "", [o.operands[0], r.choice(others)], o.ty, o.res)

    def build(self) -> None:
        for _ in range(self.rng.randint(3, 10)):
            o = None
            if self.ops and self.rng.random() < 0.4:
                o = self.twin()
                self.twins += o is not None
            self.add(o or self.fresh())

    def text(self) -> str:
        tys = [o.res for _, o in self.ops]
        return ("builtin.module {\nfunc.func @main(" + ", ".join(f"{n}: {self.t}" for n in self.args) + ") -> (" + ", ".join(tys) + ") {\n  "
                + "\n  ".join(o.text(v) for v, o in self.ops) + "\n  func.return " + ", ".join(v for v, _ in self.ops) + " : " + ", ".join(tys) + "\n}\n}\n")


def observed_hash(op: Any) -> int:
    """`OperationInfo.__hash__` of the real operation without the operands"""
    return hash((op.name, sum(hash(i) for i in op.attributes.items()), sum(hash(i) for i in op.properties.items()), hash(op.result_types)))


def if_twin_program(rng: Any) -> tuple[str, list[str]]:
    """two scf.if on the same condition whose then-bodies are equal or differ in one constant
    (hash-colliding where the type has such values) or in the operation"""
    t = rng.choice(["i8", "i32", "i64", "index"])
    a = rng.choice(int_pool(t))
    mode = rng.choice(["same", "const", "const", "op"])
    b = a
    opa = opb = rng.choice(["addi", "muli", "xori"])
    if mode == "const":
        tw = hash_twins(a, t)
        b = rng.choice(tw) if tw else proggen.ProgGen.wrap(a + 1, width(t))
    elif mode == "op":
        opb = rng.choice([n for n in ["addi", "muli", "xori", "subi"] if n != opa])

    def one(r: str, k: int, op: str) -> str:
        return (f"  {r} = scf.if %c -> ({t}) {{\n    %k{r[1:]} = arith.constant {k} : {t}\n    %s{r[1:]} = arith.{op} %x, %k{r[1:]} : {t}\n"
                f"    scf.yield %s{r[1:]} : {t}\n  }} else {{\n    scf.yield %x : {t}\n  }}\n")

    text = (f"builtin.module {{\nfunc.func @main(%c: i1, %x: {t}) -> ({t}, {t}) {{\n" + one("%r0", a, opa) + one("%r1", b, opb)
            + f"  func.return %r0, %r1 : {t}, {t}\n}}\n}}\n")
    return text, ["i1", t]


# ------------------------------------------------------------------------------------------------
# (d) entry points and invocation histories
# ------------------------------------------------------------------------------------------------

ENTRIES = ["pass", "module-op", "func-op", "region", "block", "block+rewriter", "block+pattern-rewriter"]
ENTRY_SITE = "xdsl.transforms.common_subexpression_elimination.cse"


def _func(m: Any) -> Any:
    return next(o for o in m.body.block.ops if o.name == "func.func")


def apply_entry(entry: str, m: Any) -> None:
    """real cse, in place, on the first function of the module through one public entry point"""
    from xdsl.pattern_rewriter import PatternRewriter
    from xdsl.rewriter import Rewriter
    from xdsl.transforms.common_subexpression_elimination import cse

    if entry == "pass":
        c14_tv.get_pass("cse")().apply(c14_tv.xctx(), m)
    elif entry == "module-op":
        cse(m)
    elif entry == "func-op":
        cse(_func(m))
    elif entry == "region":
        cse(_func(m).body)
    elif entry == "block":
        cse(_func(m).body.block)
    elif entry == "block+rewriter":
        cse(_func(m).body.block, Rewriter())
    elif entry == "block+pattern-rewriter":
        cse(_func(m).body.block, PatternRewriter(_func(m)))
    else:
        raise core.InfraError("unknown cse entry point " + entry)


def foreign_operand(m: Any) -> str | None:
    """None if the module is closed; else a description of the first operand whose definition
    (operation or block) does not lie inside the module"""
    for op in m.walk():
        for i, v in enumerate(op.operands):
            node = v.owner
            while node is not None and node is not m:
                node = node.parent_node
            if node is None:
                o = v.owner
                return f"operand {i} of {op.name} is defined by {getattr(o, 'name', 'a block')} outside the module"
    return None


def run_entry(entry: str, m: Any, times: int = 1) -> tuple[str, str]:
    """('ok', '') | ('raise', ExcName) | ('invalid', ExcName) | ('foreign', description); `m` is changed in place"""
    for _ in range(times):
        try:
            apply_entry(entry, m)
        except core.InfraError:
            raise
        except Exception as e:  # noqa: BLE001
            return ("raise", core.exc_name(e))
        fo = foreign_operand(m)
        if fo is not None:
            return ("foreign", fo)
        try:
            m.verify()
        except Exception as e:  # noqa: BLE001
            return ("invalid", core.exc_name(e))
    return ("ok", "")


def sem_compare(ctx: core.Ctx, m0: Any, m1: Any, arg_types: list[str], vecs: list[list[Any]]) -> tuple[int, str, str] | None:
    """(index of the input, before, after) where source defined and target differs; None if none"""
    s0, s1 = c14_tv.ser(m0, False), c14_tv.ser(m1, False)
    outs = ctx.model("sem", c14_tv.run_lines(s0, arg_types, vecs) + c14_tv.run_lines(s1, arg_types, vecs))
    n = len(vecs) + 1
    if outs[0] != "ok" or outs[n] != "ok":
        raise core.InfraError("MiniIR serialisation rejected by the Lean parser")
    a, b = outs[1:n], outs[n + 1:]
    i = c14_tv.compare_outputs(a, b)
    return None if i is None else (i, a[i], b[i])


def replay_history(ctx: core.Ctx, case: dict[str, Any], quiet: bool = False) -> int:
    """run the recorded sequence of cse invocations (each on a fresh parse of its program) in this
    process; 1 if some run raises / leaves invalid or non-closed IR / changes the result"""
    say = (lambda *a: None) if quiet else print
    bad = 0
    steps = case["cse_history"]
    for k, st in enumerate(steps):
        m = c14_tv.parse(st["program"])
        before = m.clone()
        kind, detail = run_entry(st["entry"], m, int(st.get("times", 1)))
        say(f"run {k + 1}/{len(steps)}: cse through entry point '{st['entry']}'" + (f" x{st['times']}" if st.get("times", 1) != 1 else "") + " on")
        say(st["program"])
        if kind != "ok":
            say(f"  outcome: {kind}: {detail}")
            bad = 1
            continue
        vecs = [[c14_tv.parse_arg(t, s) for t, s in zip(st["arg_types"], vec)] for vec in st.get("args", [])]
        d = sem_compare(ctx, before, m, st["arg_types"], vecs) if vecs else None
        if d is not None:
            say(f"  outcome: result changed on args {st['args'][d[0]]}\n    before: {d[1]}\n    after : {d[2]}")
            bad = 1
        else:
            say("  outcome: valid, closed, results preserved")
    return bad


def _fails_in_fresh_process(steps: list[dict[str, Any]]) -> bool:
    import json
    import os
    import subprocess
    import tempfile

    with tempfile.NamedTemporaryFile("w", suffix=".json", delete=False) as f:
        json.dump({"case": {"cse_history": steps}}, f)
    try:
        r = subprocess.run([sys.executable, str(core.VERIF / "harness" / "run_check.py"), "C14", "--replay", f.name],
                           capture_output=True, text=True, timeout=300, env=dict(os.environ))
        return r.returncode == 1
    except subprocess.TimeoutExpired:
        return False
    finally:
        os.unlink(f.name)


def _top_ops(m: Any) -> list[Any]:
    return [o for o in _func(m).body.block.ops if o.name != "func.return"]


def needed_by(text: str, i: int) -> set[int]:
    """indices of the top-level operations of the function that operation i (transitively) uses, and i"""
    ops = _top_ops(c14_tv.parse(text))
    pos = {id(o): k for k, o in enumerate(ops)}
    need: set[int] = set()
    todo = [i]
    while todo:
        k = todo.pop()
        if k in need:
            continue
        need.add(k)
        for o in ops[k].walk():
            for v in o.operands:
                if id(v.owner) in pos:
                    todo.append(pos[id(v.owner)])
    return need


def restrict(text: str, keep: set[int]) -> str | None:
    """the program with only the top-level operations `keep` of its function (all their results
    returned); None if that is not a valid program"""
    from xdsl.dialects import func
    from xdsl.dialects.builtin import FunctionType

    try:
        m = c14_tv.parse(text)
        f = _func(m)
        blk = f.body.block
        ops = _top_ops(m)
        kept = [o for k, o in enumerate(ops) if k in keep]
        vals = [r for o in kept for r in o.results]
        ret = blk.last_op
        blk.erase_op(ret)
        blk.add_op(func.ReturnOp(*vals))
        for k in reversed(range(len(ops))):
            if k not in keep:
                blk.erase_op(ops[k])
        f.properties["function_type"] = FunctionType.from_lists(list(f.function_type.inputs.data), [v.type for v in vals])
        m.verify()
        out = str(m)
        c14_tv.parse(out)
        return out
    except Exception:  # noqa: BLE001
        return None


class History:
    """the cse invocations of this process, in order; failures are reported with the shortest suffix
    of it that fails in a fresh process"""

    def __init__(self, ctx: core.Ctx):
        self.ctx = ctx
        self.steps: list[dict[str, Any]] = []
        self.reported: dict[str, int] = {}

    def record(self, text: str, entry: str, arg_types: list[str], vecs: list[list[Any]], times: int = 1) -> int:
        st: dict[str, Any] = {"program": text, "entry": entry, "arg_types": arg_types, "args": [[repr(v) for v in vec] for vec in vecs]}
        if times != 1:
            st["times"] = times
        self.steps.append(st)
        return len(self.steps) - 1

    def reduce(self, steps: list[dict[str, Any]]) -> list[dict[str, Any]]:
        """smaller programs in the steps (a prefix of the operations, then only what the last
        operation of it uses), every reduction confirmed in a fresh process; bounded: 16 trials, 45 s"""
        import time

        trials = 0
        deadline = time.time() + 45

        def attempt(idx: int, base: str, keep: set[int]) -> bool:
            nonlocal trials, steps
            if trials >= 16 or time.time() > deadline:
                return False
            t = restrict(base, keep)
            if t is None or t == steps[idx]["program"]:
                return False
            trials += 1
            cand = [dict(st, program=t) if j == idx else st for j, st in enumerate(steps)]
            if _fails_in_fresh_process(cand):
                steps = cand
                return True
            return False

        for idx in reversed(range(len(steps))):
            base = steps[idx]["program"]
            try:
                n = len(_top_ops(c14_tv.parse(base)))
            except Exception:  # noqa: BLE001
                continue
            lo, hi = 1, n
            while lo < hi:
                mid = (lo + hi) // 2
                if attempt(idx, base, set(range(mid))):
                    hi = mid
                else:
                    lo = mid + 1
            try:
                attempt(idx, base, needed_by(base, hi - 1))
            except Exception:  # noqa: BLE001
                pass
        return steps

    def fail(self, k: int, kind: str, detail: str, src: str = "") -> None:
        ctx = self.ctx
        klass = {"raise": f"raises {detail}", "invalid": f"leaves IR that does not verify ({detail})",
                 "foreign": "leaves a use of a value defined outside the program", "differs": "changes the result"}[kind]
        ctx.count("cse.entry_failures." + kind)
        self.reported[kind] = self.reported.get(kind, 0) + 1
        if self.reported[kind] > 1:
            return  # one reduced report per class; the histogram has the rest
        last = self.steps[k]
        alone = [last]
        found: list[dict[str, Any]] | None = None
        if _fails_in_fresh_process(alone):
            found = alone
        else:
            for j in range(k - 1, max(-1, k - 7), -1):
                if _fails_in_fresh_process([self.steps[j], last]):
                    found = [self.steps[j], last]
                    break
            if found is None:
                for n in (12, 60, k + 1):
                    cand = self.steps[max(0, k + 1 - n):k + 1]
                    if _fails_in_fresh_process(cand):
                        found = cand
                        break
        if found is not None and len(found) <= 3:
            found = self.reduce(found)
        if found is None:
            # seen in this process, not reproducible from the recorded runs in a fresh one: counted, and
            # reported as it stands (the whole history) so that it is not lost
            ctx.count("cse.entry_failures.not_reproduced_in_fresh_process")
            found = self.steps[:k + 1]
        entry = last["entry"]
        how = "on its own" if len(found) == 1 else f"after {len(found) - 1} earlier run(s) of cse in the same process"
        ctx.fail(ENTRY_SITE, f"cse through '{entry}' {klass} ({'single run' if len(found) == 1 else 'depends on earlier runs'})",
                 {"cse_history": found},
                 f"cse entered through '{entry}' {klass} {how}: {detail}", detail or kind, src or "no exception; verified, closed IR with the results of the source")


def run(ctx: core.Ctx) -> None:
    from xdsl.traits import is_side_effect_free

    nblocks = 90 if ctx.tier == "quick" else 1200
    nifs = 24 if ctx.tier == "quick" else 300
    ig = proggen.ProgGen(ctx.rng)
    model_lines: list[str] = []
    model_expect: list[tuple[str, str]] = []
    sem_jobs: list[tuple[dict[str, Any], Any, Any, list[list[Any]]]] = []  # (p, module before, module after, inputs)
    hist = History(ctx)

    def through_entries(text: str, before: Any, ref: str, arg_types: list[str], vecs: list[list[Any]], turn: int) -> None:
        """(d): the program through every other entry point, each on a fresh clone, in this process
        one after the other (order rotating with `turn`; one entry is run twice on the same object)"""
        rest = ENTRIES[1:]
        rest = rest[turn % len(rest):] + rest[:turn % len(rest)]
        for entry in rest:
            mm = before.clone()
            times = 2 if entry == rest[-1] else 1
            k = hist.record(text, entry, arg_types, vecs, times)
            kind, detail = run_entry(entry, mm, times)
            ctx.ev()
            ctx.count("cse.entry." + entry)
            if kind != "ok":
                hist.fail(k, kind, detail)
            elif str(mm) != ref:
                # not what the pass made of it: this result has to stand oracle (a) itself
                ctx.count("cse.entry_results_differing_from_the_result_of_the_pass")
                sem_jobs.append(({"text": text, "arg_types": arg_types, "toplevel": False, "history": k}, before, mm, vecs))

    for bno in range(nblocks):
        g = BlockGen(ctx.rng, ctx.rng.choice(INT_TYPES))
        g.build()
        text = g.text()
        try:
            m = c14_tv.parse(text)
        except Exception as e:  # noqa: BLE001
            ctx.count("cse.generator_rejected." + core.exc_name(e))
            continue
        nargs = g.nargs
        order = [v for v, _ in g.ops]
        key_of = {v: o for v, o in g.ops}
        num = {n: i for i, n in enumerate(g.args)}
        for i, v in enumerate(order):
            num[v] = nargs + i
        main = next(iter(m.body.ops))
        ops_before = [o for o in main.body.block.ops if o.name != "func.return"]
        hashes = [observed_hash(o) for o in ops_before]
        # the CSE model is about operations the pass may merge at all: an operation that the real
        # `is_side_effect_free` does not vouch for (here: an arith op declared without `Pure`, such
        # as arith.extsi) is never entered into the table -- it gets a key of its own
        mkey = {v: key_of[v].key() + ("" if is_side_effect_free(o) else f"#{num[v]}") for v, o in zip(order, ops_before)}
        ctx.count("cse.operations_not_declared_side_effect_free", sum("#" in k for k in mkey.values()))
        by_hash: dict[int, set[str]] = {}
        for hv, v in zip(hashes, order):
            by_hash.setdefault(hv, set()).add(key_of[v].key())
        colliding = any(len(s) > 1 for s in by_hash.values())
        before = m.clone()
        ident = {id(o): nargs + i for i, o in enumerate(ops_before)}
        arg_types = [g.t] * nargs
        vecs = c14_tv.boundary_inputs(ig, ctx.rng, arg_types, 2)
        hist.record(text, "pass", arg_types, vecs)
        try:
            c14_tv.get_pass("cse")().apply(c14_tv.xctx(), m)
            m.verify()
        except Exception as e:  # noqa: BLE001
            ctx.fail(c14_tv.CALL_SITE["cse"], f"cse raises {core.exc_name(e)} on a straight-line block",
                     {"pass": "cse", "program": text, "arg_types": [g.t] * nargs, "toplevel": False, "args": []}, "cse raised", core.exc_name(e), None)
            continue
        ctx.ev()
        ctx.count("cse.twin_operations", g.twins)
        ctx.count("cse.twins_with_colliding_attribute_hash", g.collider_twins)
        valnum: dict[int, int] = {id(a): i for i, a in enumerate(main.body.block.args)}
        remaining = []
        for o in main.body.block.ops:
            if o.name == "func.return":
                continue
            d = ident[id(o)]
            valnum[id(o.results[0])] = d
            remaining.append(f"{d}={mkey[order[d - nargs]]}(" + ",".join(str(valnum[id(x)]) for x in o.operands) + ")")
        impl = "ok " + " ".join(remaining)
        if len(remaining) < len(order):
            ctx.nt(("cse", text))
            ctx.count("cse.blocks_with_elimination")
        if colliding:
            ctx.nt(("cse-collision", text))
            ctx.count("cse.blocks_with_distinct_operations_of_equal_hash")
        plain = f"cse {len(order)} " + " ".join(f"{num[v]} {mkey[v]} {len(key_of[v].operands)} " + " ".join(str(num[a]) for a in key_of[v].operands) for v in order)
        hashed = f"cseh {len(order)} " + " ".join(f"{num[v]} {mkey[v]} {hv} {len(key_of[v].operands)} " + " ".join(str(num[a]) for a in key_of[v].operands) for v, hv in zip(order, hashes))
        for line in (plain, hashed):
            model_lines.append(" ".join(line.split()))
            model_expect.append((text, impl))
        sem_jobs.append(({"text": text, "arg_types": arg_types, "toplevel": False}, before, m, vecs))
        through_entries(text, before, str(m), arg_types, vecs, bno)

    for ino in range(nifs):
        text, arg_types = if_twin_program(ctx.rng)
        try:
            m = c14_tv.parse(text)
        except Exception as e:  # noqa: BLE001
            ctx.count("cse.generator_rejected." + core.exc_name(e))
            continue
        xs = [v[0] for v in ig.inputs([arg_types[1]], 2)]
        vecs = [[c, x] for c in (0, -1) for x in xs]
        hist.record(text, "pass", arg_types, vecs)
        st, res = c14_tv.apply_pass("cse", m)
        ctx.ev()
        p = {"text": text, "arg_types": arg_types, "toplevel": False}
        if st != "ok":
            c14_tv.report(ctx, m, p, "cse", vecs, c14_tv.Outcome(st, res))
            continue
        ctx.count("cse.if_twins")
        if str(res).count("scf.if") < 2:
            ctx.nt(("cse-if", text))
            ctx.count("cse.if_twins_merged")
        sem_jobs.append((p, m, res, vecs))
        through_entries(text, m, str(res), arg_types, vecs, ino)

    # (a) the property itself, on the reference semantics: one driver call for all blocks
    lines: list[str] = []
    index: list[tuple[int, int]] = []
    for j, (p, m0, m1, vecs) in enumerate(sem_jobs):
        try:
            s0, s1 = c14_tv.ser(m0, False), c14_tv.ser(m1, False)
        except Exception as e:  # noqa: BLE001
            ctx.count("cse.unsupported_by_serialiser." + core.exc_name(e))
            continue
        index.append((j, len(lines)))
        lines += c14_tv.run_lines(s0, p["arg_types"], vecs) + c14_tv.run_lines(s1, p["arg_types"], vecs)
    outs = ctx.model("sem", lines) if lines else []
    reported = 0
    nfail0 = len(ctx.failures)
    unreduced: tuple[dict[str, Any], list[Any], str, str] | None = None
    for j, start in index:
        p, m0, m1, vecs = sem_jobs[j]
        n = len(vecs)
        if outs[start] != "ok" or outs[start + 1 + n] != "ok":
            raise core.InfraError("MiniIR serialisation rejected by the Lean parser: " + p["text"][:300])
        a, b = outs[start + 1:start + 1 + n], outs[start + 2 + n:start + 2 + 2 * n]
        ctx.programs += 1
        ctx.count("cse.blocks_run_on_reference_semantics")
        ctx.disagreements_checked += sum(1 for x in a if x.startswith("ok "))
        i = c14_tv.compare_outputs(a, b)
        if i is None:
            continue
        if "history" in p:
            hist.fail(p["history"], "differs", f"on arguments {[repr(v) for v in vecs[i]]} the result is {b[i]}", a[i])
            continue
        ctx.count("cse.blocks_with_changed_result")
        if unreduced is None or len(p["text"]) < len(unreduced[0]["text"]):
            unreduced = (p, vecs[i], a[i], b[i])
        # reduction costs driver calls: the first two failing blocks are reduced and reported
        if reported < 2 and ctx.time_left() > 20:
            reported += 1
            c14_tv.report(ctx, m0, p, "cse", vecs, c14_tv.Outcome("differs", "", i, a[i], b[i]))
    if unreduced is not None and len(ctx.failures) == nfail0:
        # no time to reduce (or the reduction ran out of budget): the smallest failing block as generated
        p, vec, src, dst = unreduced
        ctx.fail(c14_tv.CALL_SITE["cse"], "cse changes the result: (not reduced)",
                 {"pass": "cse", "program": p["text"], "arg_types": p["arg_types"], "toplevel": False, "args": [[repr(v) for v in vec]]},
                 "after cse the block returns a different value than before on an input where the source is defined", dst, src)

    # (b) correspondence with the Lean CSE model (collision-free table and hashed table)
    mouts = ctx.model("cse", model_lines)
    for line, out, (text, impl) in zip(model_lines, mouts, model_expect):
        if out != impl:
            ctx.mismatch("correspondence:C14/cse", {"program": text, "line": line}, impl, out, "real cse and the Lean CSE model keep different operations")
    ctx.count("cse.blocks_compared", len(model_lines) // 2)
