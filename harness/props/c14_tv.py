"""C14, leg (A): translation validation of whole pass runs against the Lean reference semantics.

generate program -> clone -> real pass -> MiniIR before/after -> `sem` driver on the same inputs ->
results + effect logs must be equal whenever the source run is defined (`ok`).
A pass that raises on a valid program, or leaves IR that does not verify, is a failure as well.
"""
from __future__ import annotations

import math
import struct
from typing import Any, Callable

from vp import core, miniir, proggen

PASSES = ["canonicalize", "constant-fold-interp", "cse", "test-constant-folding", "test-specialised-constant-folding"]

CALL_SITE = {
    "canonicalize": "xdsl.transforms.canonicalize.CanonicalizePass.apply",
    "constant-fold-interp": "xdsl.transforms.constant_fold_interp.ConstantFoldInterpPattern.match_and_rewrite",
    "cse": "xdsl.transforms.common_subexpression_elimination.CSEDriver.simplify",
    "test-constant-folding": "xdsl.transforms.test_constant_folding.TestConstantFoldingIntegerAdditionPattern.match_and_rewrite",
    "test-specialised-constant-folding": "xdsl.transforms.test_constant_folding.TestSpecialisedConstantFoldingPass.apply",
}

FUEL = 200000
SHRINK_FUEL = 60000


def gen_config(fastmath: bool = False) -> proggen.Config:
    """`fastmath`: programs with `(c1 op x) op c2` chains carrying fastmath<reassoc>; for those a
    changed float result after `canonicalize` is licensed by the flag and not compared (the rewrite
    itself is checked rule-by-rule, see c14_rules)"""
    c = proggen.Config()
    c.int_types = ["i1", "i3", "i8", "i16", "i32", "i64", "index"]
    c.int_ops = list(proggen.INT_OPS_ALL)
    c.float_ops = list(proggen.FLOAT_OPS_ALL)
    c.casts = ["index_cast", "extsi", "extui", "trunci"]
    c.select = True
    c.reuse_prob = 0.7
    c.i1_arith = True
    c.safe_shifts = True
    c.negf = True
    c.const_pairs = True
    c.fastmath_reassoc = fastmath
    c.cmpi_same = True
    c.select_const = True
    c.cf_extras = True
    c.observe_all = True
    c.float_extremes = True
    c.twin_consts = True
    return c


# ------------------------------------------------------------------------------------------------
# real passes
# ------------------------------------------------------------------------------------------------

_CTX: Any = None


def xctx() -> Any:
    global _CTX
    if _CTX is None:
        from xdsl.context import Context
        from xdsl.dialects import arith, builtin, cf, func, scf
        from xdsl.dialects.test import Test

        c = Context()
        for d in (builtin.Builtin, arith.Arith, func.Func, cf.Cf, scf.Scf, Test):
            c.load_dialect(d)
        _CTX = c
    return _CTX


def parse(text: str) -> Any:
    from xdsl.parser import Parser

    m = Parser(xctx(), text).parse_module()
    m.verify()
    return m


def get_pass(name: str) -> Any:
    from xdsl.transforms import get_all_passes

    return get_all_passes()[name]()


def apply_pass(name: str, module: Any) -> tuple[str, Any]:
    """('ok', new module) | ('raise', ExcName) | ('invalid', message); `module` is left untouched"""
    m = module.clone()
    try:
        get_pass(name)().apply(xctx(), m)
    except Exception as e:  # noqa: BLE001
        return ("raise", core.exc_name(e))
    try:
        m.verify()
    except Exception as e:  # noqa: BLE001
        return ("invalid", core.exc_name(e))
    return ("ok", m)


# ------------------------------------------------------------------------------------------------
# module-level streams for the two test passes (they only visit the top-level block)
# ------------------------------------------------------------------------------------------------

def toplevel_program(rng: Any) -> dict[str, Any]:
    """constants and addi (plus a few other ops) directly in the module body, observed by one
    `test.op`; `wrap_toplevel` turns the module into a function returning the observed values"""
    t = rng.choice(["i1", "i3", "i8", "i16", "i32", "i64", "index"])
    w = proggen.width(t)
    lo, hi = -(1 << (w - 1)), (1 << (w - 1)) - 1
    vals: list[str] = []
    consts: list[str] = []
    lines: list[str] = []

    def const() -> str:
        v = rng.choice([lo, hi, -1, 0, 1, rng.randint(lo, hi), rng.randint(max(lo, -50), min(hi, 50))])
        n = f"%c{len(lines)}"
        lines.append(f"  {n} = arith.constant {v} : {t}")
        consts.append(n)
        return n

    other = rng.random() < 0.35
    for _ in range(rng.randint(1, 6)):
        r = rng.random()
        n = f"%v{len(lines)}"
        if other and r < 0.3:
            a = rng.choice(vals + consts) if vals + consts else const()
            b = const()
            lines.append(f"  {n} = arith.{rng.choice(['muli', 'subi', 'xori'])} {a}, {b} : {t}")
            vals.append(n)
            continue
        pool = (consts + vals) if other else (consts + [v for v in vals])
        a = rng.choice(pool) if pool and rng.random() < 0.7 else const()
        b = rng.choice(pool) if pool and rng.random() < 0.4 else const()
        lines.append(f"  {n} = arith.addi {a}, {b} : {t}")
        vals.append(n)
    obs = vals[-3:]
    lines.append(f'  "test.op"({", ".join(obs)}) : ({", ".join(t for _ in obs)}) -> ()')
    return {"text": "builtin.module {\n" + "\n".join(lines) + "\n}\n", "arg_types": [], "ret_types": [t] * len(obs), "toplevel": True}


def ser_toplevel(module: Any) -> str:
    """module body `ops…; "test.op"(vs)` serialised as  func @main() -> tys { ops…; return vs }
    (purely syntactic; no clone: the specialised pass builds operations that cannot be cloned)"""
    sz = miniir.Serializer()
    blk = module.body.block
    ops = list(blk.ops)
    last = ops[-1]
    if last.name != "test.op":
        raise miniir.Unsupported("top-level stream without observer")
    body = " ".join(sz.op(o) for o in ops[:-1])
    ret = f'(op "func.return" (res ) (ins {" ".join(str(sz.v(x)) for x in last.operands)}) (attrs ) (succs ) (regions ))'
    s = f'(module (func "main" (region (block 0 (args ) {body} {ret}))))'
    if "\n" in s:
        raise miniir.Unsupported("newline in serialisation")
    return s


# ------------------------------------------------------------------------------------------------
# evaluation on the reference semantics
# ------------------------------------------------------------------------------------------------

def ser(module: Any, toplevel: bool) -> str:
    return ser_toplevel(module) if toplevel else miniir.serialize(module)


def run_lines(sexp: str, arg_types: list[str], vecs: list[list[Any]], fuel: int = FUEL) -> list[str]:
    out = ["prog " + sexp]
    for vec in vecs:
        out.append(f"run {fuel} main " + " ".join(miniir.arg_text(t, v) for t, v in zip(arg_types, vec)))
    return out


def compare_outputs(src: list[str], dst: list[str]) -> int | None:
    """index of the first input on which the source is defined and the target differs"""
    for i, (a, b) in enumerate(zip(src, dst)):
        if a.startswith("ok ") and a != b:
            return i
    return None


class Outcome:
    """what one pass did to one program on a list of inputs"""

    def __init__(self, kind: str, detail: str = "", idx: int | None = None, src: str = "", dst: str = ""):
        self.kind = kind          # same | raise | invalid | differs | unsupported
        self.detail = detail
        self.idx = idx
        self.src = src
        self.dst = dst

    def klass(self) -> tuple[str, str]:
        return (self.kind, self.detail if self.kind in ("raise", "invalid") else "")


def evaluate(ctx: core.Ctx, module: Any, pname: str, arg_types: list[str], vecs: list[list[Any]], toplevel: bool,
             sem: bool = True, fuel: int = FUEL) -> Outcome:
    """run one pass on one program and compare on the reference semantics (one driver call)"""
    st, res = apply_pass(pname, module)
    if st != "ok":
        return Outcome(st, res)
    if not sem:
        return Outcome("same")
    try:
        s0, s1 = ser(module, toplevel), ser(res, toplevel)
    except Exception as e:  # noqa: BLE001
        return Outcome("unsupported", core.exc_name(e))
    lines = run_lines(s0, arg_types, vecs, fuel) + run_lines(s1, arg_types, vecs, fuel)
    outs = ctx.model("sem", lines)
    n = len(vecs) + 1
    if outs[0] != "ok" or outs[n] != "ok":
        return Outcome("unsupported", "bad-prog")
    a, b = outs[1:n], outs[n + 1:]
    i = compare_outputs(a, b)
    if i is None:
        return Outcome("same")
    return Outcome("differs", "", i, a[i], b[i])


# ------------------------------------------------------------------------------------------------
# shrinking (IR level)
# ------------------------------------------------------------------------------------------------

def _main(m: Any) -> Any:
    from xdsl.dialects import func

    for o in m.body.ops:
        if isinstance(o, func.FuncOp) and o.sym_name.data == "main":
            return o
    return None


def _candidates(m: Any, toplevel: bool) -> list[tuple[str, int, int]]:
    """edit descriptors over the walk order of the module"""
    out: list[tuple[str, int, int]] = []
    ops = list(m.walk())
    for i in reversed(range(len(ops))):
        o = ops[i]
        if o is m or o.parent is None:
            continue
        from xdsl.traits import IsTerminator

        if o.has_trait(IsTerminator):
            if o.name == "func.return" and len(o.operands) > 1:
                for k in range(len(o.operands)):
                    out.append(("keepret", i, k))
            if o.name == "cf.cond_br":
                out.append(("tobr", i, 0))
                out.append(("tobr", i, 1))
            if o.name == "cf.br":
                out.append(("merge", i, 0))
                for k in range(6):
                    out.append(("retarget", i, k))
            continue
        if o.name == "test.op":
            if len(o.operands) > 1:
                for k in range(len(o.operands)):
                    out.append(("keepobs", i, k))
            continue
        if all(not r.uses for r in o.results):
            out.append(("erase", i, 0))
        else:
            for k in range(len(o.operands) + 8):
                out.append(("fwd", i, k))
            if len(o.results) == 1 and o.name != "arith.constant":
                for k in range(3):
                    out.append(("const", i, k))
        if o.parent_op() is not None and o.parent_op().name not in ("func.func", "builtin.module"):
            out.append(("lift", i, 0))
    # observe an intermediate value directly (largest reductions first: tried before the edits above)
    obs: list[tuple[str, int, int]] = []
    if not toplevel:
        for i, o in enumerate(ops):
            if o.results and o.parent_op() is not None and o.parent_op().name == "func.func" and o.name != "arith.constant":
                for k in range(len(o.results)):
                    obs.append(("obs", i, k))
    return obs + out


def _drop_dead_blocks(region: Any) -> None:
    """erase blocks that have become unreachable (no predecessor, not the entry block)"""
    changed = True
    while changed:
        changed = False
        for b in list(region.blocks)[1:]:
            if not b.predecessors() or all(p is b for p in b.predecessors()):
                region.detach_block(b)
                b.erase(safe_erase=False)
                changed = True
                break


def _apply_edit(m: Any, edit: tuple[str, int, int]) -> bool:
    from xdsl.dialects import builtin, func
    from xdsl.ir import Block

    kind, i, k = edit
    ops = list(m.walk())
    if i >= len(ops):
        return False
    o = ops[i]
    if kind == "erase":
        if any(r.uses for r in o.results):
            return False
        o.detach()
        o.erase()
        return True
    if kind == "keepobs":
        v = o.operands[k]
        blk = o.parent
        new = type(o).create(operands=[v], result_types=[])
        blk.insert_op_before(new, o)
        o.detach(); o.erase()
        return True
    if kind == "keepret":
        f = o.parent_op()
        if not isinstance(f, func.FuncOp) or f.sym_name.data != "main":
            return False
        # every return of main must be rewritten consistently
        rets = [x for x in f.walk() if x.name == "func.return" and x.parent_op() is f]
        for r in rets:
            v = r.operands[k]
            blk = r.parent
            new = func.ReturnOp(v)
            blk.insert_op_before(new, r)
            r.detach(); r.erase()
        f.properties["function_type"] = builtin.FunctionType.from_lists(list(f.function_type.inputs.data), [f.function_type.outputs.data[k]])
        return True
    if kind == "lift":
        par = o.parent_op()
        if par is None or par.parent is None:
            return False
        for x in o.operands:
            # the operand must be defined outside `par`
            node = x.owner
            while node is not None:
                if node is par:
                    return False
                node = node.parent_op() if hasattr(node, "parent_op") else None
        o.detach()
        par.parent.insert_op_before(o, par)
        return True
    if kind == "obs":
        f = o.parent_op()
        if not isinstance(f, func.FuncOp) or f.sym_name.data != "main":
            return False
        rets = [x for x in f.walk() if x.name == "func.return" and x.parent_op() is f]
        if len(rets) != 1:
            return False
        r = rets[0]
        v = o.results[k]
        if len(r.operands) == 1 and r.operands[0] is v:
            return False
        new = func.ReturnOp(v)
        r.parent.insert_op_before(new, r)
        r.detach(); r.erase()
        f.properties["function_type"] = builtin.FunctionType.from_lists(list(f.function_type.inputs.data), [v.type])
        return True
    if kind == "tobr":
        from xdsl.dialects import cf

        new = cf.BranchOp(o.then_block, *o.then_arguments) if k == 0 else cf.BranchOp(o.else_block, *o.else_arguments)
        blk = o.parent
        blk.insert_op_before(new, o)
        o.detach(); o.erase()
        _drop_dead_blocks(blk.parent)
        return True
    if kind == "retarget":
        from xdsl.dialects import cf

        blk = o.parent
        targets = [b for b in blk.parent.blocks if not b.args and b is not o.successor and b is not blk.parent.blocks.first]
        if k >= len(targets):
            return False
        new = cf.BranchOp(targets[k])
        blk.insert_op_before(new, o)
        o.detach(); o.erase()
        _drop_dead_blocks(blk.parent)
        return True
    if kind == "merge":
        from xdsl.rewriter import InsertPoint, Rewriter

        succ, parent = o.successor, o.parent
        if succ is parent or len(succ.predecessors()) != 1 or succ is succ.parent.blocks.first:
            return False
        args = list(o.operands)
        o.detach(); o.erase()
        Rewriter.inline_block(succ, InsertPoint.at_end(parent), args)
        return True
    if kind == "const":
        from xdsl.dialects import arith

        r = o.results[0]
        t = r.type
        if isinstance(t, (builtin.IntegerType, builtin.IndexType)):
            v = [0, 1, -1][k]
            if isinstance(t, builtin.IntegerType) and t.width.data == 1 and k == 2:
                return False
            new = arith.ConstantOp(builtin.IntegerAttr(v, t))
        elif isinstance(t, (builtin.Float32Type, builtin.Float64Type)):
            new = arith.ConstantOp(builtin.FloatAttr([0.0, 1.0, -1.0][k], t))
        else:
            return False
        o.parent.insert_op_before(new, o)
        r.replace_all_uses_with(new.result)
        o.detach(); o.erase()
        return True
    if kind == "fwd":
        if len(o.results) != 1:
            return False
        r = o.results[0]
        cands: list[Any] = [x for x in o.operands if x.type == r.type]
        f = o
        while f is not None and not isinstance(f, func.FuncOp):
            f = f.parent_op()
        if f is not None and f.body.blocks:
            cands += [a for a in f.body.blocks.first.args if a.type == r.type]
        # dedupe, keep order
        seen: list[Any] = []
        for c in cands:
            if not any(c is s for s in seen):
                seen.append(c)
        if k >= len(seen):
            return False
        r.replace_all_uses_with(seen[k])
        o.detach(); o.erase()
        return True
    return False


def _strip_observers(m: Any) -> None:
    for o in list(m.walk()):
        if o.name == "func.call" and not o.results:
            o.detach(); o.erase()


def shrink(ctx: core.Ctx, module: Any, pname: str, arg_types: list[str], vecs: list[list[Any]], toplevel: bool,
           target: tuple[str, str], max_tests: int = 400) -> Any:
    """greedy IR-level reduction that keeps the failure class `target` of pass `pname`"""
    cur = module
    tests = 0

    def still_fails(cand: Any) -> bool:
        nonlocal tests
        tests += 1
        try:
            oc = evaluate(ctx, cand, pname, arg_types, vecs, toplevel, sem=(target[0] == "differs"), fuel=SHRINK_FUEL)
        except core.InfraError:
            return False
        return oc.klass() == target

    def attempt(base: Any, edit: tuple[str, int, int], strip: bool = False) -> Any:
        cand = base.clone()
        try:
            if not _apply_edit(cand, edit):
                return None
            if strip:
                _strip_observers(cand)
            cand.verify()
        except Exception:  # noqa: BLE001
            return None
        return cand if still_fails(cand) else None

    # phase A: make one wrong intermediate value the only observation (return it, drop the effect log)
    if not toplevel:
        for edit in [c for c in _candidates(cur, toplevel) if c[0] == "obs"]:
            if tests >= max_tests // 3 or ctx.time_left() < 15:
                break
            cand = attempt(cur, edit, strip=True)
            if cand is not None:
                cur = cand
                break
    # phase B: erase / forward / simplify control flow (re-targeting branches can create endless loops,
    # which only the reference run of a `differs` failure guards against)
    skip = ("obs",) if target[0] == "differs" else ("obs", "retarget")
    progress = True
    while progress and tests < max_tests and ctx.time_left() > 15:
        progress = False
        cands = [c for c in _candidates(cur, toplevel) if c[0] not in skip]
        pos = 0
        while pos < len(cands) and tests < max_tests and ctx.time_left() > 15:
            edit = cands[pos]
            pos += 1
            cand = attempt(cur, edit)
            if cand is None:
                continue
            cur = cand
            progress = True
            if edit[0] == "lift":
                break   # walk order changed: start over
            # walk indices below the edited operation are unchanged (candidates are listed from the
            # last operation to the first): keep going from here with a fresh candidate list
            cands = [c for c in _candidates(cur, toplevel) if c[0] not in skip and c[1] < edit[1]]
            pos = 0
    shrink.out_of_time = ctx.time_left() <= 15   # type: ignore[attr-defined]
    return cur


def _op_names(module: Any) -> list[str]:
    from xdsl.dialects import arith
    from xdsl.traits import IsTerminator

    names: list[str] = []
    for o in module.walk():
        if o.name in ("builtin.module", "func.func", "arith.constant", "test.op") or o.has_trait(IsTerminator):
            continue
        n = o.name
        if isinstance(o, arith.CmpiOp):
            n += "." + arith.CMPI_COMPARISON_OPERATIONS[o.predicate.value.data]
        tys = {str(v.type) for v in list(o.operands) + list(o.results)}
        if tys & {"f32", "f64"} and o.name.startswith("arith.") and not isinstance(o, arith.CmpfOp):
            n += "@" + "/".join(sorted(tys & {"f32", "f64"}))
        names.append(n)
    return names


def describe_ops(module: Any, after: Any = None) -> str:
    """stable summary of a (shrunk) failing program: the operations that the pass removed or replaced
    (multiset difference before - after); without an `after` (the pass raised), or when that
    difference is empty, the non-constant, non-terminator operations of the program"""
    from collections import Counter

    before = Counter(_op_names(module))
    if after is not None:
        gone = before - Counter(_op_names(after))
        if gone:
            return "+".join(sorted(gone))
    return "+".join(sorted(before)) if before else "(constants only)"


# ------------------------------------------------------------------------------------------------
# the stream
# ------------------------------------------------------------------------------------------------

def boundary_inputs(g: proggen.ProgGen, rng: Any, arg_tys: list[str], n: int) -> list[list[Any]]:
    vecs = g.inputs(arg_tys, n)
    # one all-boundary vector
    b: list[Any] = []
    for t in arg_tys:
        if t in ("f32", "f64"):
            b.append(rng.choice([0.0, -0.0, math.inf, -math.inf, math.nan, 1.0]))
        elif t == "index":
            b.append(rng.choice([0, 1, -1]))
        else:
            w = proggen.width(t)
            b.append(rng.choice([-(1 << (w - 1)), (1 << (w - 1)) - 1, -1, 0]))
    return vecs + [b]


def report(ctx: core.Ctx, module: Any, p: dict[str, Any], pname: str, vecs: list[list[Any]], oc: Outcome) -> None:
    toplevel = bool(p.get("toplevel"))
    if oc.kind == "differs":
        vecs = [vecs[oc.idx]] if oc.idx is not None else vecs
    small = shrink(ctx, module, pname, p["arg_types"], vecs, toplevel, oc.klass())
    if getattr(shrink, "out_of_time", False):
        # an unfinished reduction has an unstable signature (it could hide a listed known finding
        # behind unrelated operations): count it, do not report it
        ctx.count(f"pass.{pname}.failure_not_reduced_within_budget")
        return
    oc2 = evaluate(ctx, small, pname, p["arg_types"], vecs, toplevel)
    if oc2.klass() != oc.klass():
        small, oc2 = module, oc
    after = None
    if oc2.kind == "differs":
        st, res = apply_pass(pname, small)
        after = res if st == "ok" else None
    what = describe_ops(small, after)
    if oc2.kind == "raise":
        sig = f"{pname} raises {oc2.detail} on a valid program: {what}"
        desc = f"pass {pname} raised {oc2.detail} on a program that parses and verifies (a pass that cannot fold must leave the operation in place)"
    elif oc2.kind == "invalid":
        sig = f"{pname} leaves IR that does not verify ({oc2.detail}): {what}"
        desc = f"the module produced by {pname} fails verification with {oc2.detail}"
    else:
        sig = f"{pname} changes the result: {what}"
        desc = f"after {pname} the program returns a different value / effect log than before on an input where the source is defined"
    ctx.fail(CALL_SITE[pname], sig,
             {"pass": pname, "program": str(small), "arg_types": p["arg_types"], "toplevel": toplevel,
              "args": [[repr(v) for v in vec] for vec in vecs]},
             desc, oc2.dst or oc2.detail, oc2.src or "no exception; verified IR")


def run_stream(ctx: core.Ctx, nprog: int, ntop: int, reserve_s: float) -> None:
    g_plain = proggen.ProgGen(ctx.rng, gen_config(False))
    g_fm = proggen.ProgGen(ctx.rng, gen_config(True))
    # half of the stream has no unsigned cmpi predicates: the listed known finding of
    # constant-fold-interp (inherited from the interpreter) cannot occur there, so it cannot crowd out
    # (cap on shrunk failures per pass) a different failure of the same pass
    cfg_nou = gen_config(False)
    cfg_nou.cmpi_preds = ["eq", "ne", "slt", "sle", "sgt", "sge"]
    g_nou = proggen.ProgGen(ctx.rng, cfg_nou)
    batch: list[tuple[dict, Any, list[list[Any]], dict[str, tuple[str, Any]]]] = []
    rejected = 0
    plan = [False] * nprog + [True] * ntop
    shrunk: dict[tuple[str, tuple[str, str], bool], int] = {}

    def flush() -> None:
        nonlocal batch
        if not batch:
            return
        lines: list[str] = []
        index: list[tuple[int, str, int]] = []  # (batch idx, pass or "", start line)
        for bi, (p, m, vecs, results) in enumerate(batch):
            top = bool(p.get("toplevel"))
            try:
                s0 = ser(m, top)
            except Exception as e:  # noqa: BLE001
                ctx.count("programs.unsupported_by_serialiser." + core.exc_name(e))
                continue
            index.append((bi, "", len(lines)))
            lines += run_lines(s0, p["arg_types"], vecs)
            for pname, (st, res) in results.items():
                if st != "ok":
                    continue
                try:
                    s1 = ser(res, top)
                except Exception as e:  # noqa: BLE001
                    ctx.count(f"after.{pname}.unsupported_by_serialiser." + core.exc_name(e))
                    continue
                index.append((bi, pname, len(lines)))
                lines += run_lines(s1, p["arg_types"], vecs)
        outs = ctx.model("sem", lines) if lines else []
        src_out: dict[int, list[str]] = {}
        for bi, pname, start in index:
            p, m, vecs, results = batch[bi]
            n = len(vecs)
            if outs[start] != "ok":
                raise core.InfraError("MiniIR serialisation rejected by the Lean parser: " + p["text"][:300])
            o = outs[start + 1:start + 1 + n]
            if pname == "":
                src_out[bi] = o
                for x in o:
                    ctx.count("source.outcome." + x.split(" ")[0])
                continue
            if bi not in src_out:
                continue
            a = src_out[bi]
            for x, y in zip(a, o):
                if x.startswith("ok "):
                    ctx.disagreements_checked += 1
            i = compare_outputs(a, o)
            ctx.count(f"pass.{pname}.compared")
            if i is not None and p.get("fastmath") and pname == "canonicalize":
                ctx.count("pass.canonicalize.difference_licensed_by_fastmath")
            elif i is not None:
                oc = Outcome("differs", "", i, a[i], o[i])
                do_report(p, m, pname, vecs, oc)
        batch = []

    def do_report(p: dict, m: Any, pname: str, vecs: list[list[Any]], oc: Outcome) -> None:
        # shrinking costs driver calls: only the first few failures of each (pass, failure class) are
        # shrunk and reported; the rest are counted (the histogram shows them)
        key = (pname, oc.klass(), bool(p.get("no_unsigned_cmpi")))
        shrunk[key] = shrunk.get(key, 0) + 1
        if shrunk[key] > (5 if ctx.tier == "quick" else 20) or ctx.time_left() < reserve_s + 25:
            ctx.count(f"pass.{pname}.further_failures_not_shrunk")
            return
        report(ctx, m, p, pname, vecs, oc)

    for k, top in enumerate(plan):
        if ctx.time_left() < reserve_s:
            ctx.count("stream.stopped_by_budget")
            break
        r = ctx.rng.random()
        g = g_fm if (not top and r < 0.12) else (g_nou if r < 0.56 else g_plain)
        p = toplevel_program(ctx.rng) if top else g.program()
        p["fastmath"] = g is g_fm
        p["no_unsigned_cmpi"] = g is g_nou
        try:
            m = parse(p["text"])
        except Exception as e:  # noqa: BLE001
            rejected += 1
            ctx.count("programs.generator_rejected." + core.exc_name(e))
            continue
        ctx.programs += 1
        ctx.count("programs.toplevel" if top else "programs.func")
        vecs = [[]] if top else boundary_inputs(g, ctx.rng, p["arg_types"], 3 if ctx.tier == "quick" else 5)
        results: dict[str, tuple[str, Any]] = {}
        before = str(m)
        for pname in PASSES:
            if top and pname in ("cse",):
                continue
            st, res = apply_pass(pname, m)
            results[pname] = (st, res)
            ctx.ev()
            if st == "ok":
                changed = str(res) != before
                ctx.count(f"pass.{pname}." + ("rewrote" if changed else "unchanged"))
                if changed:
                    ctx.nt((pname, p["text"]))
            else:
                ctx.count(f"pass.{pname}.{st}.{res}")
                do_report(p, m, pname, vecs, Outcome(st, res))
        batch.append((p, m, vecs, results))
        if len(batch) >= 40:
            flush()
        if k < 2:
            ctx.sample({"program": p["text"], "arg_types": p["arg_types"]})
    flush()
    ctx.extra["program_stream"] = {"generated": ctx.programs, "rejected_by_parser": rejected, "passes": PASSES}


# ------------------------------------------------------------------------------------------------
# replay
# ------------------------------------------------------------------------------------------------

def parse_arg(t: str, s: str) -> Any:
    if t in ("f32", "f64"):
        return float(s)
    return int(s)


def replay_case(ctx: core.Ctx, case: dict[str, Any]) -> int:
    m = parse(case["program"])
    vecs = [[parse_arg(t, s) for t, s in zip(case["arg_types"], vec)] for vec in case["args"]] or [[]]
    oc = evaluate(ctx, m, case["pass"], case["arg_types"], vecs, bool(case.get("toplevel")))
    print(f"pass {case['pass']} on\n{case['program']}")
    if oc.kind == "same":
        print("outcome: results and effects are preserved (source defined => target equal)")
        return 0
    print(f"outcome: {oc.kind} {oc.detail}")
    if oc.kind == "differs":
        print(f"  args   : {case['args'][oc.idx or 0]}\n  before : {oc.src}\n  after  : {oc.dst}")
    return 1 if oc.kind in ("raise", "invalid", "differs") else 0
