"""C16, leg (B): correspondence of the Lean model `loops` (lean/XdslModel/Loops.lean) with the real
passes on generated loops with small constant parameters.

* scf-for-loop-unroll  : induction values of the emitted copies  vs `range` (= `pyRange`) / `trip`
* scf-for-loop-range-folding : emitted lb/ub/step (const-evaluated)  vs `fold`
* scf-for-loop-flatten : decision, emitted step / factor / rounded bound vs `flatten`
* convert-scf-to-cf    : the lowered CFG run on the real xDSL interpreter vs `cf` (`cfRun`)
A direct oracle (plain Python iteration of `lb, lb+step, … < ub`) judges unrolling, folding, the
CFG and (for constant bounds) flattening; flattening with bounds only known at run time is judged by
the translation validation of leg (A).
"""
from __future__ import annotations

import itertools
from typing import Any

from vp import core, miniir, proggen

EXT = "func.func private @ext_index(index) -> ()\n"


def module_text(consts: dict[str, int], body: str, sym: bool = False) -> str:
    cs = "".join(f"  %{k} = arith.constant {v} : index\n" for k, v in consts.items())
    return ("builtin.module {\nfunc.func @main(" + ("%sym: index" if sym else "") + ") -> () {\n" + cs + body
            + "  func.return\n}\n" + EXT + "}\n")


def cev(v: Any) -> int | None:
    """constant value of an SSA value built from arith.constant / addi / subi / muli / ceildivsi, else None"""
    from xdsl.dialects import arith

    o = v.owner
    if isinstance(o, arith.ConstantOp):
        return o.value.value.data
    if isinstance(o, (arith.AddiOp, arith.MuliOp, arith.SubiOp, arith.CeilDivSIOp)):
        a, b = cev(o.lhs), cev(o.rhs)
        if a is None or b is None:
            return None
        if isinstance(o, arith.CeilDivSIOp):
            return -((-a) // b) if b else None
        return a + b if isinstance(o, arith.AddiOp) else a - b if isinstance(o, arith.SubiOp) else a * b
    return None


def apply(text: str, pass_name: str) -> tuple[Any, str | None]:
    from props.c16 import Rejected, apply_passes

    m, xctx = proggen.parse_module_ctx(text)
    try:
        return apply_passes(m, xctx, (pass_name,)), None
    except Rejected as e:
        return None, str(e)


def for_ops(m: Any) -> list[Any]:
    from xdsl.dialects import scf

    return [o for o in m.walk() if isinstance(o, scf.ForOp)]


def ref_range(lb: int, ub: int, st: int) -> list[int]:
    out, i = [], lb
    while i < ub and len(out) < 10000:
        out.append(i)
        i += st
    return out


def ints(l: list[int]) -> str:
    return ",".join(str(x) for x in l)


# ------------------------------------------------------------------------------------------------

def unroll_case(lb: int, ub: int, st: int) -> tuple[str, str]:
    from xdsl.dialects import func

    text = module_text({"lb": lb, "ub": ub, "st": st},
                       "  scf.for %i = %lb to %ub step %st {\n    func.call @ext_index(%i) : (index) -> ()\n  }\n")
    m, exc = apply(text, "scf-for-loop-unroll")
    if m is None:
        return text, "raise " + str(exc)
    if for_ops(m):
        return text, "not-unrolled"
    vals = [cev(o.arguments[0]) for o in m.walk() if isinstance(o, func.CallOp)]
    return text, "ok " + ints([v for v in vals if v is not None])


FOLD_PY = {"add": lambda i, c: i + c, "radd": lambda i, c: c + i, "mul": lambda i, c: i * c, "rmul": lambda i, c: c * i,
           "sub": lambda i, c: i - c, "rsub": lambda i, c: c - i}


def fold_case(op: str, lb: int, ub: int, st: int, c: int | None, two_uses: bool = False) -> tuple[str, str, Any]:
    """`op` ∈ add/mul/sub with the induction variable on the left, radd/rmul/rsub with it on the right"""
    from xdsl.dialects import func

    consts = {"lb": lb, "ub": ub, "st": st}
    if c is not None:
        consts["c"] = c
    cn = "%c" if c is not None else "%sym"
    a, b = ("%i", cn) if not op.startswith("r") else (cn, "%i")
    extra = "    func.call @ext_index(%i) : (index) -> ()\n" if two_uses else ""
    text = module_text(consts, f"  scf.for %i = %lb to %ub step %st {{\n    %x = arith.{op.lstrip('r')}i {a}, {b} : index\n"
                               "    func.call @ext_index(%x) : (index) -> ()\n" + extra + "  }\n", sym=c is None)
    m, exc = apply(text, "scf-for-loop-range-folding")
    if m is None:
        return text, "raise " + str(exc), None
    f = for_ops(m)[0]
    call = next(o for o in f.body.walk() if isinstance(o, func.CallOp))
    if call.arguments[0] is not f.body.block.args[0] or two_uses:
        same = call.arguments[0] is not f.body.block.args[0] and (cev(f.lb), cev(f.ub), cev(f.step)) == (lb, ub, st)
        return text, "no" if same else "rewritten-unexpectedly", None
    b = (cev(f.lb), cev(f.ub), cev(f.step))
    if any(x is None for x in b):
        return text, "fold sym", None
    return text, f"fold {b[0]} {b[1]} {b[2]}", b


def ub_shape(v: Any, lb: Any, step: Any) -> str:
    """how the flattened loop's outer bound was obtained (`_whole_steps_ub`): `keep` = the outer loop's own
    bound, `const v` = a new constant, `arith` = lb + ceildivsi(ub - lb, step) * step as operations"""
    from xdsl.dialects import arith

    o = v.owner
    if isinstance(o, arith.ConstantOp):
        return "keep" if v.name_hint == "oub" else f"const {o.value.value.data}"
    if v.name_hint in ("oub", "sym"):
        return "keep"
    if (isinstance(o, arith.AddiOp) and o.lhs is lb and isinstance(m := o.rhs.owner, arith.MuliOp) and m.rhs is step
            and isinstance(c := m.lhs.owner, arith.CeilDivSIOp) and c.rhs is step
            and isinstance(d := c.lhs.owner, arith.SubiOp) and d.rhs is lb):
        return "arith"
    return "unknown-shape"


def flatten_case(used: bool, olb: int | None, oub: int | None, S: int, il: int, iu: int, s: int) -> tuple[str, str, Any]:
    """(program, implementation line, constant (lb, ub, step) of the flattened loop or None)"""
    from xdsl.dialects import arith

    consts = {"S": S, "il": il, "iu": iu, "s": s}
    if olb is not None:
        consts["olb"] = olb
    if oub is not None:
        consts["oub"] = oub
    ol = "%olb" if olb is not None else "%sym"
    ou = "%oub" if oub is not None else "%sym"
    inner = ("      %k = arith.addi %o, %i : index\n      func.call @ext_index(%k) : (index) -> ()\n" if used
             else "      func.call @ext_index(%S) : (index) -> ()\n")
    text = module_text(consts, f"  scf.for %o = {ol} to {ou} step %S {{\n    scf.for %i = %il to %iu step %s {{\n" + inner + "    }\n  }\n",
                       sym=olb is None or oub is None)
    m, exc = apply(text, "scf-for-loop-flatten")
    if m is None:
        return text, "raise " + str(exc), None
    fs = for_ops(m)
    if len(fs) == 2:
        return text, "no", None
    f = fs[0]
    b = (cev(f.lb), cev(f.ub), cev(f.step))
    b = None if any(x is None for x in b) else b
    if used:
        return text, f"fuse {cev(f.step)} {ub_shape(f.ub, f.lb, fs_step(m))}", b
    u = f.ub.owner
    if isinstance(u, arith.MuliOp):
        return text, f"prod {cev(u.rhs)} {ub_shape(u.lhs, f.lb, f.step)}", b
    return text, "flattened-unknown-shape", b


def fs_step(m: Any) -> Any:
    """the SSA value of the outer step constant `%S` of a flatten_case program"""
    from xdsl.dialects import arith

    return next(o.result for o in m.walk() if isinstance(o, arith.ConstantOp) and o.result.name_hint == "S")


def cf_case(lb: int, ub: int, st: int) -> tuple[str, str]:
    text = module_text({"lb": lb, "ub": ub, "st": st},
                       "  scf.for %i = %lb to %ub step %st {\n    func.call @ext_index(%i) : (index) -> ()\n  }\n")
    m, exc = apply(text, "convert-scf-to-cf")
    if m is None:
        return text, "raise " + str(exc)
    if for_ops(m):
        return text, "not-lowered"
    r = miniir.run_real(m, "main", [], cpu_budget_s=5.0)
    if not r.startswith("ok "):
        return text, r
    effs = r.split("effects [", 1)[1].rstrip("]").split()
    return text, "exit " + ints([int(e.split("i64:")[1].rstrip(")")) for e in effs])


def perm_case(k: int, pattern: tuple[int, ...], trips: int, args: list[int]) -> tuple[str, str, str]:
    """constant-trip loop carrying `k` values; slot j of the yield takes block argument `pattern[j]`
    (or the freshly computed value when `pattern[j] == k`).  Returns (program, results of the unrolled
    program on the real interpreter, results of a plain Python simulation of the loop)."""
    xs = [f"%x{j}" for j in range(k)]
    sig = ", ".join(f"%a{j}: index" for j in range(k))
    tys = ", ".join(["index"] * k)
    ys = ", ".join(xs[p] if p < k else "%n" for p in pattern)
    text = ("builtin.module {\nfunc.func @main(" + sig + ") -> (" + tys + ") {\n"
            f"  %lb = arith.constant 0 : index\n  %ub = arith.constant {trips} : index\n  %st = arith.constant 1 : index\n"
            f"  %r:{k} = scf.for %i = %lb to %ub step %st iter_args(" + ", ".join(f"{x} = %a{j}" for j, x in enumerate(xs)) + f") -> ({tys}) {{\n"
            "    %s = arith.addi %x0, %x1 : index\n    %n = arith.addi %s, %i : index\n"
            f"    scf.yield {ys} : {tys}\n  }}\n"
            "  func.return " + ", ".join(f"%r#{j}" for j in range(k)) + f" : {tys}\n}}\n}}\n")
    vals = list(args)
    for i in range(trips):
        n = vals[0] + vals[1] + i
        vals = [vals[p] if p < k else n for p in pattern]
    want = "ok [" + ",".join(f"i64:{v}" for v in vals) + "] effects []"
    m, exc = apply(text, "scf-for-loop-unroll")
    if m is None:
        return text, "raise " + str(exc), want
    try:
        m.verify()
    except Exception as e:  # noqa: BLE001
        return text, "invalid " + core.exc_name(e), want
    if for_ops(m):
        return text, "not-unrolled", want
    return text, miniir.run_real(m, "main", list(args), cpu_budget_s=5.0), want


def sym_case(ops: list[tuple[str, int, int]]) -> tuple[str, str]:
    """straight-line symref block: ("u", sym, value) / ("f", sym, 0); every fetched value is passed to
    an external call, so after the pass the call operands (constants) are what each fetch delivered"""
    from xdsl.dialects import func
    from xdsl.transforms.desymref import Desymrefier

    nsym = 1 + max(x for _, x, _ in ops)
    lines = [f'  symref.declare "s{x}"' for x in range(nsym)]
    n = 0
    for k, x, v in ops:
        n += 1
        if k == "u":
            lines += [f"  %c{n} = arith.constant {v} : i32", f"  symref.update @s{x} = %c{n} : i32"]
        else:
            lines += [f"  %f{n} = symref.fetch @s{x} : i32", f"  func.call @ext_i32(%f{n}) : (i32) -> ()"]
    text = ("builtin.module {\nfunc.func @main() -> () {\n" + "\n".join(lines) + "\n  func.return\n}\n"
            "func.func private @ext_i32(i32) -> ()\n}\n")
    m, _ = proggen.parse_module_ctx(text)
    main = next(iter(m.body.ops))
    try:
        Desymrefier().desymrefy(main)
        m.verify()
    except Exception as e:  # noqa: BLE001
        return text, "raise " + core.exc_name(e)
    vals = [cev(o.arguments[0]) for o in m.walk() if isinstance(o, func.CallOp)]
    if any(v is None for v in vals) or any(o.name.startswith("symref.") for o in m.walk()):
        return text, "symref-ops-left"
    return text, "ok " + ints(vals)  # type: ignore[arg-type]


# ------------------------------------------------------------------------------------------------

def pick(ctx: core.Ctx, cases: list[Any], quick_n: int) -> list[Any]:
    if ctx.tier != "quick" or len(cases) <= quick_n:
        return cases
    # keep a deterministic spine (every k-th) and fill randomly
    idx = sorted(ctx.rng.sample(range(len(cases)), quick_n))
    return [cases[i] for i in idx]


def symtree_lines(text: str) -> list[tuple[str, str]]:
    """(model line, implementation line) for every block of the program that holds a symref operation or an
    operation with regions: the symbols of the block itself (`get_symbols`), those of everything nested below
    it (`get_nested_symbols`), what the block may forward, and whether `prune_definitions` accepts the block.
    Tree tokens: `s<n>` = symref operation on symbol n, `(` … `)` = an operation with regions."""
    from xdsl.transforms import desymref as D

    m, _ = proggen.parse_module_ctx(text)
    names = sorted({D.get_symbol(o) for o in m.walk() if D.get_symbol(o) is not None})
    num = {n: i for i, n in enumerate(names)}

    def toks(block: Any) -> list[str]:
        out: list[str] = []
        for o in block.ops:
            sname = D.get_symbol(o)
            if sname is not None:
                out.append(f"s{num[sname]}")
            elif o.regions:
                out.append("(")
                for r in o.regions:
                    for b in r.blocks:
                        out += toks(b)
                out.append(")")
        return out

    def blocks_of(mod: Any) -> list[Any]:
        return [b for o in mod.walk() for r in o.regions for b in r.blocks]

    def show(xs: Any) -> str:
        return ",".join(map(str, sorted(num[x] for x in xs)))

    res = []
    for i, b in enumerate(blocks_of(m)):
        tk = toks(b)
        if not tk or isinstance(b.parent_op(), type(m)):
            continue
        declared = [num[D.get_symbol(o)] for o in b.ops if o.name == "symref.declare"]
        direct, nested = D.get_symbols(b), D.get_nested_symbols(b)
        try:
            D.Desymrefier().prune_definitions(blocks_of(m.clone())[i])
            decision = "accept"
        except Exception as e:  # noqa: BLE001
            decision = "raise " + core.exc_name(e)
        res.append((f"symtree {','.join(map(str, declared)) or '-'} " + " ".join(tk),
                    f"direct {show(direct)} nested {show(nested)} forward {show(direct - nested)} {decision}"))
    return res


def run_models(ctx: core.Ctx) -> None:
    lines: list[str] = []
    expect: list[tuple[str, Any, str, str]] = []      # (kind, params, program, implementation line)
    SITE_UNROLL = "xdsl.transforms.scf_for_loop_unroll.UnrollLoopPattern.match_and_rewrite"
    SITE_FOLD = "xdsl.transforms.scf_for_loop_range_folding.ScfForLoopRangeFolding.match_and_rewrite"
    SITE_CF = "xdsl.transforms.convert_scf_to_cf.ForLowering.match_and_rewrite"

    # -- unrolling / trip count: exhaustive small scope --------------------------------------------
    ucases = list(itertools.product(range(-2, 4), range(-3, 6), [-2, -1, 0, 1, 2, 3, 4]))
    for lb, ub, st in pick(ctx, ucases, 150):
        text, impl = unroll_case(lb, ub, st)
        ctx.ev(); ctx.count("model.unroll")
        lines.append(f"range {lb} {ub} {st}")
        expect.append(("unroll", (lb, ub, st), text, impl))
        if st > 0:
            if lb < ub:
                ctx.nt(("unroll", lb, ub, st))
            want = "ok " + ints(ref_range(lb, ub, st))
            if impl != want:
                ctx.fail(SITE_UNROLL, "unrolled copies do not enumerate lb, lb+step, … < ub",
                         {"program": text, "passes": ["scf-for-loop-unroll"]},
                         f"scf.for {lb} to {ub} step {st} was unrolled to induction values {impl}; expected {want}", impl, want)
            lines.append(f"trip {lb} {ub} {st}")
            expect.append(("trip", (lb, ub, st), text, str(len(ref_range(lb, ub, st))) if impl.startswith("ok") else impl))

    # -- unrolling of loops whose yield permutes / forwards loop-carried values across slots ---------
    pcases = [(2, pat, t) for pat in itertools.product(range(3), repeat=2) for t in (0, 1, 2, 3)]
    p3 = [(3, pat, t) for pat in itertools.product(range(4), repeat=3) for t in (2, 3)]
    pcases += p3 if ctx.tier != "quick" else [p3[i] for i in sorted(ctx.rng.sample(range(len(p3)), 30))]
    for k, pat, t in pcases:
        argv = [[1, 0, 5], [2, 5, -3], [7, -3, 4]][ctx.rng.randrange(3)][:k]
        text, impl, want = perm_case(k, pat, t, argv)
        ctx.ev(); ctx.count("model.unroll_perm")
        if t >= 2 and any(p < j for j, p in enumerate(pat)):
            ctx.nt(("perm", k, pat, t, tuple(argv)))
        if impl != want:
            ctx.fail(SITE_UNROLL, "unrolled loop-carried values differ from the loop (yield permutes / forwards block arguments)",
                     {"program": text, "passes": ["scf-for-loop-unroll"], "arg_types": ["index"] * k, "args": [repr(a) for a in argv]},
                     f"after unrolling, @main{tuple(argv)} gives {impl}; iterating the loop gives {want}", impl, want)

    # -- range folding -----------------------------------------------------------------------------
    fcases = list(itertools.product(["add", "mul", "radd", "rmul", "sub", "rsub"], [-1, 0, 2], [-2, 0, 3, 5], [1, 2, 3],
                                    [-2, -1, 0, 1, 2, 3, None], [False]))
    fcases += list(itertools.product(["add", "mul", "sub", "rsub"], [0, 2], [3, 5], [1, 2], [1, 3, None], [True]))
    for op, lb, ub, st, c, two in pick(ctx, fcases, 220):
        text, impl, b = fold_case(op, lb, ub, st, c, two)
        ctx.ev(); ctx.count("model.fold." + op + (".two_uses" if two else ""))
        base = op.lstrip("r") if op in ("radd", "rmul") else op
        if base in ("add", "mul") and not two:
            lines.append(f"fold {base} {lb} {ub} {st} {'sym' if c is None else c}")
            expect.append(("fold", (op, lb, ub, st, c), text, impl))
        elif impl != "no":
            # arith.subi users and induction variables with a second use are not folded by the pass
            # (the model has no such step): anything else is a disagreement with the model
            ctx.mismatch("correspondence:C16/loops", {"line": f"fold {op} {lb} {ub} {st} {c} two_uses={two}", "program": text}, impl, "no",
                         "the pass rewrote a loop whose induction variable is used by arith.subi / used twice; the model never folds these")
        if b is not None:
            ctx.nt(("fold", op, lb, ub, st, c))
            src = [FOLD_PY[op](i, c) for i in ref_range(lb, ub, st)]
            tgt = ref_range(*b) if b[2] > 0 else None
            if tgt != src:
                ctx.fail(SITE_FOLD, "muli by a factor that is not known to be positive folded into the loop range" if base == "mul"
                         else "folded bounds enumerate different values",
                         {"program": text, "passes": ["scf-for-loop-range-folding"]},
                         f"body saw {src} before; folded loop {b} enumerates {tgt}", impl, src)

    # -- flattening: decision, emitted step / factor / bound, and the iteration sequence ------------------
    SITE_FLATTEN = "xdsl.transforms.scf_for_loop_flatten.FlattenNestedLoopsPattern.match_and_rewrite"
    lcases = []
    for used, olb, oub, S, il, s in itertools.product([True, False], [0, 1, None], [5, 8, -1, None], [1, 2, 4, 6], [0, 1], [0, 1, 2, 3]):
        for iu in sorted({S, 0, 3, 8, -2}):
            lcases.append((used, olb, oub, S, il, iu, s))
    for used, olb, oub, S, il, iu, s in pick(ctx, lcases, 220):
        text, impl, b = flatten_case(used, olb, oub, S, il, iu, s)
        ctx.ev(); ctx.count("model.flatten." + ("used" if used else "unused"))
        if impl != "no":
            ctx.nt(("flatten", used, olb, oub, S, il, iu, s))
        lines.append(f"flatten {'used' if used else 'unused'} {'sym' if olb is None else olb} {'sym' if oub is None else oub} {S} {il} {iu} {s}")
        expect.append(("flatten", (used, olb, oub, S, il, iu, s), text, impl))
        if b is not None and olb is not None and oub is not None and s > 0 and b[2] > 0:
            # direct oracle (constant bounds): the flattened loop makes the calls of the nest
            if used:
                src = [o + i for o in ref_range(olb, oub, S) for i in ref_range(il, iu, s)]
                tgt = ref_range(*b)
            else:
                src = [S] * (len(ref_range(olb, oub, S)) * len(ref_range(il, iu, s)))
                tgt = [S] * len(ref_range(*b))
            if src != tgt:
                ctx.fail(SITE_FLATTEN, "flattened loop visits a different iteration sequence "
                         + ("[induction variables summed: (ub-lb) not a multiple of the outer step]" if used
                            else "[induction variables unused: trip count of the product loop]"),
                         {"program": text, "passes": ["scf-for-loop-flatten"], "arg_types": [], "args": []},
                         f"the nest {olb}..{oub} step {S} around {il}..{iu} step {s} calls @ext_index with {src}; "
                         f"the flattened loop {b} with {tgt}", impl, src)

    # -- scf.for → cf ------------------------------------------------------------------------------
    ccases = list(itertools.product([-2, 0, 1, 3], [-3, 0, 1, 4, 6], [1, 2, 3]))
    for lb, ub, st in pick(ctx, ccases, 40):
        text, impl = cf_case(lb, ub, st)
        ctx.ev(); ctx.count("model.cf")
        if lb < ub:
            ctx.nt(("cf", lb, ub, st))
        n = len(ref_range(lb, ub, st))
        lines.append(f"cf {lb} {ub} {st} {2 * n + 1}")
        expect.append(("cf", (lb, ub, st), text, impl))
        want = "exit " + ints(ref_range(lb, ub, st))
        if impl != want:
            ctx.fail(SITE_CF, "lowered CFG does not enumerate lb, lb+step, … < ub",
                     {"program": text, "passes": ["convert-scf-to-cf"]},
                     f"interpreting the lowered loop {lb}..{ub} step {st} gave {impl}; expected {want}", impl, want)

    # -- symref forwarding on a straight-line block (every symbol written before it is read) ---------
    SITE_SYM = "xdsl.transforms.desymref.Desymrefier"
    for _ in range(60 if ctx.tier == "quick" else 600):
        nsym = ctx.rng.randint(1, 3)
        ops: list[tuple[str, int, int]] = [("u", x, ctx.rng.randint(-9, 9)) for x in range(nsym)]
        for _ in range(ctx.rng.randint(1, 8)):
            x = ctx.rng.randrange(nsym)
            ops.append(("u", x, ctx.rng.randint(-9, 9)) if ctx.rng.random() < 0.45 else ("f", x, 0))
        text, impl = sym_case(ops)
        ctx.ev(); ctx.count("model.sym")
        # direct oracle: a store
        store: dict[int, int] = {}
        want = []
        for k, x, v in ops:
            if k == "u":
                store[x] = v
            else:
                want.append(store[x])
        if sum(1 for k, _, _ in ops if k == "f") >= 2:
            ctx.nt(("sym", tuple(ops)))
        if impl != "ok " + ints(want):
            ctx.fail(SITE_SYM, "straight-line symbol forwarding: results-differ", {"program": text, "passes": ["frontend-desymrefy"]},
                     f"fetches delivered {impl}; a symbol store gives {want}", impl, want)
        lines.append("sym " + " ".join(f"u{x}:{v}" if k == "u" else f"f{x}" for k, x, v in ops))
        expect.append(("sym", tuple(ops), text, impl))

    # -- which symbols a block may forward: get_symbols / get_nested_symbols / the refusal of prune_definitions ---
    # on every block of the systematic symref family (symbol touched d ≤ 4 region levels below its block) and of
    # random nested symref programs
    sym_cases = proggen.symref_depth_cases(2 if ctx.tier == "quick" else 3)
    progs = [proggen.symref_depth_program(*c) for c in sym_cases if not c[4] and c[2] == "r"]
    for _ in range(40 if ctx.tier == "quick" else 400):
        d = ctx.rng.choice([3, 4])
        progs.append(proggen.symref_depth_program(tuple(ctx.rng.choice(proggen.SYM_WRAPPERS) for _ in range(d)), ctx.rng.choice(proggen.SYM_ACCESS),
                                                  ctx.rng.choice(proggen.SYM_AFTER), ctx.rng.choice(proggen.SYM_DECL), ctx.rng.random() < 0.4))
    sgen = proggen.SymrefGen(ctx.rng, True)
    progs += [sgen.program() for _ in range(25 if ctx.tier == "quick" else 300)]
    seen_lines: set[str] = set()
    for p in progs:
        for line, impl in symtree_lines(p["text"]):
            if line in seen_lines:
                continue
            seen_lines.add(line)
            ctx.ev(); ctx.count("model.symtree")
            if "( (" in line or ") (" in line.split("(", 1)[-1]:
                ctx.nt(("symtree", line))
            lines.append(line)
            expect.append(("symtree", None, p["text"], impl))

    outs = ctx.model("loops", lines)
    for (kind, params, text, impl), line, out in zip(expect, lines, outs):
        if out == "bad-op":
            raise core.InfraError("loops model rejected line: " + line)
        if kind == "unroll" and params[2] == 0:
            ok = impl == "raise ValueError" and out == "raise ValueError"
        else:
            ok = impl == out
        if not ok:
            ctx.mismatch("correspondence:C16/loops", {"line": line, "program": text}, impl, out,
                         f"real pass and Lean model `loops` disagree on `{line}`")
    ctx.extra["model_correspondence"] = {"lines": len(lines),
                                         "scope": "unroll: lb∈[-2,3], ub∈[-3,5], step∈[-2,4]; fold: op×lb×ub×step×c (c incl. 0, negatives, symbolic); "
                                                  "flatten: used×outer-lb(0,1,symbolic)×outer-ub(5,8,-1,symbolic)×S×il×iu×s (s incl. 0); cf: lb×ub×step"
                                                  + (" — all combinations" if ctx.tier != "quick" else " — seeded sample")}
    if ctx.tier != "quick":
        ctx.exhaustive = True
    run_lower_affine(ctx)


# ------------------------------------------------------------------------------------------------
# lower-affine: operand binding and emitted operations  vs the Lean model `lower_affine`
# ------------------------------------------------------------------------------------------------

SITE_APPLY = "xdsl.transforms.lower_affine.LowerAffineApply.match_and_rewrite"
ARITH_NAMES = {"arith.addi": "addi", "arith.muli": "muli", "arith.remsi": "remsi", "arith.floordivsi": "floordivsi",
               "arith.ceildivsi": "ceildivsi"}


def listing(ops: list[Any], operands: list[Any], results: list[Any]) -> str:
    """canonical text of the operations the pass emitted: `a<i>` = operand i of the rewritten affine
    operation, `t<j>` = result of the j-th emitted operation"""
    from xdsl.dialects import arith

    name: dict[int, str] = {}
    for i, v in enumerate(operands):
        name.setdefault(id(v), f"a{i}")
    out = []
    for j, o in enumerate(ops):
        if isinstance(o, arith.ConstantOp):
            out.append(f"const {o.value.value.data}")
        else:
            out.append(ARITH_NAMES.get(o.name, o.name) + " " + " ".join(name.get(id(x), "?") for x in o.operands))
        if o.results:
            name[id(o.results[0])] = f"t{j}"
    return "ok " + ";".join(out) + " -> " + ",".join(name.get(id(v), "?") for v in results)


def run_listing(text: str, xs: list[int]) -> int | None:
    """value of the (single) result of a canonical listing on operand values `xs`; arith semantics on
    unbounded integers, None when a division has a zero divisor or the listing is not understood"""
    body, res = text[3:].split(" -> ")
    tmps: list[int | None] = []

    def val(n: str) -> int | None:
        if n[0] == "a":
            return xs[int(n[1:])]
        if n[0] == "t" and int(n[1:]) < len(tmps):
            return tmps[int(n[1:])]
        return None

    for ins in [i for i in body.split(";") if i]:
        w = ins.split(" ")
        if w[0] == "const":
            tmps.append(int(w[1]))
            continue
        if len(w) != 3:
            return None
        a, b = val(w[1]), val(w[2])
        if a is None or b is None:
            return None
        if w[0] == "addi":
            tmps.append(a + b)
        elif w[0] == "muli":
            tmps.append(a * b)
        elif b == 0:
            return None
        elif w[0] == "remsi":
            tmps.append(abs(a) % abs(b) * (1 if a >= 0 else -1))
        elif w[0] == "floordivsi":
            tmps.append(a // b)
        elif w[0] == "ceildivsi":
            tmps.append(-((-a) // b))
        else:
            return None
    return val(res)


def main_ops(m: Any) -> tuple[Any, list[Any]]:
    main = next(o for o in m.body.ops if getattr(o, "sym_name", None) is not None and o.sym_name.data == "main")
    return main, list(main.body.blocks.first.ops)


def apply_case(p: dict[str, Any]) -> tuple[str, str, str]:
    """(model line, implementation line, prefix form of the map's expression as parsed)"""
    from xdsl.dialects import affine, func

    nd, ns = p["shape"]
    m0, _ = proggen.parse_module_ctx(p["text"])
    ap = next(o for o in m0.walk() if isinstance(o, affine.ApplyOp))
    prefix = proggen.aff_prefix_of_xdsl(ap.map.data.results[0])
    line = f"apply {nd} {ns} {prefix}"
    m, exc = apply(p["text"], "lower-affine")
    if m is None:
        return line, "raise " + str(exc), prefix
    try:
        m.verify()
    except Exception as e:  # noqa: BLE001
        return line, "invalid " + core.exc_name(e), prefix
    main, ops = main_ops(m)
    args = list(main.body.blocks.first.args)
    call = next(o for o in ops if isinstance(o, func.CallOp))
    emitted = ops[: ops.index(call)]
    return line, listing(emitted, [args[i] for i in p["order"]], list(call.arguments)), prefix


def map_case(rng: Any, gen: Any) -> tuple[str, str, str]:
    """affine.load through an n-dimensional map with 1–3 results on a static memref passed as argument:
    (program, model line, implementation line)"""
    from xdsl.dialects import affine, memref

    n = rng.randint(1, 3)
    k = rng.randint(1, 3)
    es = [gen.random_expr(n, 0, rng.randint(0, 2)) for _ in range(k)]
    ty = "memref<" + "x".join(["4"] * k) + "xindex>"
    order = rng.sample(range(n), n)
    dims = ", ".join(f"d{i}" for i in range(n))
    text = ("builtin.module {\nfunc.func @main(%m: " + ty + "".join(f", %a{i}: index" for i in range(n)) + ") -> (index) {\n"
            f'  %l = "affine.load"(%m, {", ".join(f"%a{i}" for i in order)}) <{{"map" = affine_map<({dims}) -> ({", ".join(proggen.aff_text(e) for e in es)})>}}> '
            f': ({ty}, {", ".join(["index"] * n)}) -> index\n  func.return %l : index\n}}\n}}\n')
    m0, _ = proggen.parse_module_ctx(text)
    ld = next(o for o in m0.walk() if isinstance(o, affine.LoadOp))
    line = f"map {n} " + " | ".join(proggen.aff_prefix_of_xdsl(e) for e in ld.map.data.results)
    m, exc = apply(text, "lower-affine")
    if m is None:
        return text, line, "raise " + str(exc)
    try:
        m.verify()
    except Exception as e:  # noqa: BLE001
        return text, line, "invalid " + core.exc_name(e)
    main, ops = main_ops(m)
    args = list(main.body.blocks.first.args)[1:]
    load = next(o for o in ops if isinstance(o, memref.LoadOp))
    return text, line, listing(ops[: ops.index(load)], [args[i] for i in order], list(load.indices))


def run_lower_affine(ctx: core.Ctx) -> None:
    gen = proggen.AffineBindGen(ctx.rng)
    lines: list[str] = []
    expect: list[tuple[str, str, str]] = []       # (program, model line, implementation line)
    shapes = [(a, b) for a in range(4) for b in range(4) if a + b]
    per_shape = 6 if ctx.tier == "quick" else 40
    for nd, ns in shapes:
        for rep in range(per_shape):
            e = gen.linear(nd, ns) if rep % 3 != 2 else gen.random_expr(nd, ns, ctx.rng.randint(1, 3))
            p = gen.apply_program((nd, ns), e)
            line, impl, prefix = apply_case(p)
            ctx.ev(); ctx.count(f"model.lower_affine.apply.{nd}d{ns}s")
            if nd and ns and nd != ns:
                ctx.nt(("lower_affine", p["text"]))
            lines.append(line)
            expect.append((p["text"], line, impl))
            if not impl.startswith("ok "):
                continue        # the pass refused (or left invalid IR): shown by the correspondence below
            for vec in p["vecs"]:
                xs = [vec[i] for i in p["order"]]
                want = proggen.aff_eval(e, xs[:nd], xs[nd:])
                got = run_listing(impl, xs)
                ctx.ev()
                if want is None:
                    ctx.count("model.lower_affine.value.undefined")
                    continue
                lines.append(f"value {nd} {ns} {','.join(map(str, xs))} {prefix}")
                expect.append((p["text"], lines[-1], f"affine {want[0]} lowered {got if got is not None else 'stuck'}"))
                if want[1]:
                    ctx.count("model.lower_affine.value.mod_of_negative")      # known finding (mod → remsi): judged by leg A
                    continue
                if got != want[0]:
                    ctx.fail(SITE_APPLY, "affine.apply lowered to operations that compute a different value",
                             {"program": p["text"], "passes": ["lower-affine"], "arg_types": p["arg_types"], "args": [repr(v) for v in vec]},
                             f"affine.apply of {proggen.aff_text(e)} on dims {xs[:nd]} symbols {xs[nd:]} is {want[0]}; the emitted operations "
                             f"[{impl[3:]}] on the same operands give {got}", impl, want[0])
    for _ in range(25 if ctx.tier == "quick" else 400):
        text, line, impl = map_case(ctx.rng, gen)
        ctx.ev(); ctx.count("model.lower_affine.map")
        lines.append(line)
        expect.append((text, line, impl))
    outs = ctx.model("lower_affine", lines)
    for (text, line, impl), out in zip(expect, outs):
        if out == "bad-op":
            raise core.InfraError("lower_affine model rejected line: " + line)
        if impl != out:
            ctx.mismatch("correspondence:C16/lower_affine", {"line": line, "program": text, "model": "lower_affine"}, impl, out,
                         f"real pass and Lean model `lower_affine` disagree on `{line}`")
    ctx.extra.setdefault("model_correspondence", {})["lower_affine"] = {
        "lines": len(lines),
        "scope": "affine.apply: every (num_dims, num_symbols) ≤ (3, 3), operands permuted, weighted-sum and random expressions — emitted "
                 "operations and operand binding; affine.load: 1–3 dims × 1–3 results"}


def replay(ctx: core.Ctx, body: dict) -> int:
    case = body["case"]
    print("model line:", case.get("line"))
    print("lean model :", ctx.model(case.get("model", "loops"), [case["line"]]))
    print("recorded implementation observation:", body.get("impl_observation"))
    print("program:\n" + case.get("program", ""))
    return 0
