"""C24 — Dominance and post-order traversal match their graph definitions."""
from __future__ import annotations

import itertools
from typing import Any, Iterator, Sequence

from vp import core

META = {
    "title": "Dominance and post-order traversal match their graph definitions",
    "category": "proof",
    "design_ref": "DESIGN.md §5 C24",
    "lean_modules": ["XdslProofs.C24", "XdslProofs.C24PostOrder"],
    "text": (
        "Lean theorems about the models of DominanceInfo.__init__ (iterative set refinement, in-place, "
        "region order) and PostOrderIterator (explicit stack + seen set): the refinement loop terminates "
        "within n*n+1 passes for every graph (dominance_converges); for every block b<n, a is in the "
        "computed dom[b] exactly when a<n and every path entry~>b contains a (dom_iff_paths; for reachable b "
        "that is path-based dominance, unreachable blocks are dominated by every block), strict dominance "
        "excludes equality (strict_iff); the post-order iteration terminates within 2n+1 pops, yields a "
        "duplicate-free list whose members are exactly the blocks reachable from the start block, the "
        "start block last, and every block after the blocks it pushed (postorder_spec, "
        "postorder_children_first). The hand-written models are tied to /repo by building real xDSL "
        "regions (cf.br / cf.cond_br / test.termop / test.op terminators) for ALL control-flow graphs up "
        "to the block bound with out-degree <= 2 (self-loops, multi-edges, unreachable blocks included) and "
        "random larger ones, and comparing dominates/strictly_dominates for every pair and the yielded "
        "sequence with the Lean driver; an independent Python oracle (reachability with a node removed, "
        "cross-checked by simple-path enumeration) states the property directly on the implementation."
    ),
    "technique": "Lean 4 fixpoint/invariant proofs + exhaustive small-graph and random differential correspondence with the real classes",
    "level_note": (
        "Trusted: Lean kernel; hand-written models XdslModel/{Graph,Dominance,PostOrder}.lean (tied by "
        "correspondence only: all graphs up to the bound, random beyond); the abstraction of a region to "
        "successor lists of each block's last operation (post-order: only if that operation has the "
        "IsTerminator trait, as the code demands; the `op` style with a non-terminator carrying successors "
        "is therefore exercised for dominance only). The statement does not constrain what is reported for "
        "an unreachable block b (dominates(a, b)); the oracle checks reachable b only, the model/"
        "correspondence fixes it to 'every block'. Successors outside the region (KeyError in "
        "DominanceInfo) are outside the statement: correspondence only."
    ),
    "rule": (
        "every graph with n<=bound blocks (quick 3, thorough 4) where each block has 0, 1 or 2 ordered "
        "successors among the n blocks (duplicates and self-loops allowed), in each construction style; "
        "plus seeded random graphs with 4..12 blocks, out-degree <=3. Non-trivial = at least two blocks are "
        "reachable from the entry. Distinct = distinct (function, successor lists, style)."
    ),
    "trusted_base": [
        "correspondence harness harness/props/c24.py (differential, bounded-exhaustive + random)",
        "hand-written Lean models of irdl/dominance.py and ir/post_order.py",
    ],
    "budget": {"quick": 120, "thorough": 1200},
}

Succs = tuple[tuple[int, ...], ...]
DOM_SITE = "xdsl.irdl.dominance.DominanceInfo.__init__"
SDOM_SITE = "xdsl.irdl.dominance.strictly_dominates"
PO_SITE = "xdsl.ir.post_order.PostOrderIterator.__next__"


# ---------------------------------------------------------------------------------------------
# real-code adapter
# ---------------------------------------------------------------------------------------------

def build(succs: Sequence[Sequence[int]], style: str):
    """A real region whose i-th block branches to the blocks `succs[i]`.
    style `cf`: cf.br / cf.cond_br where the out-degree allows, an empty block for out-degree 0,
    test.termop otherwise; `term`: test.termop everywhere; `op`: test.op (no IsTerminator trait) as
    in tests/test_dominance.py.  An index >= n denotes a block of another region."""
    from xdsl.dialects import cf, test
    from xdsl.dialects.builtin import i1
    from xdsl.ir import Block, Region

    n = len(succs)
    blocks = [Block() for _ in range(n)]
    foreign: dict[int, Any] = {}
    keep = []
    for b, ss in zip(blocks, succs):
        tg = []
        for s in ss:
            if s < n:
                tg.append(blocks[s])
            else:
                if s not in foreign:
                    foreign[s] = Block()
                    keep.append(Region([foreign[s]]))
                tg.append(foreign[s])
        if style == "cf" and len(ss) == 0:
            pass
        elif style == "cf" and len(ss) == 1:
            b.add_op(cf.BranchOp(tg[0]))
        elif style == "cf" and len(ss) == 2:
            c = test.TestOp(result_types=[i1])
            b.add_op(c)
            b.add_op(cf.ConditionalBranchOp(c.results[0], tg[0], [], tg[1], []))
        elif style == "op":
            b.add_op(test.TestOp.create(successors=tg))  # as the parser builds `"test.op"()[^b]`
        else:
            b.add_op(test.TestTermOp(successors=tg))
    return Region(blocks), blocks, keep


def show_list(l: Sequence[int]) -> str:
    return ",".join(map(str, l)) if l else "-"


def graph_words(succs: Sequence[Sequence[int]]) -> str:
    return " ".join(show_list(s) for s in succs)


def dom_line(succs) -> str:
    return ("dom " + graph_words(succs)).rstrip() if succs else "dom"


def po_line(succs) -> str:
    return "po " + graph_words(succs)


def show_rel(rel: Sequence[Sequence[int]]) -> str:
    return " ".join(show_list(r) for r in rel)


def dom_impl(succs, style: str, module_level: bool = False):
    """returns (observation line, dom lists or None, strict lists or None, module-level strict or None)"""
    from xdsl.irdl.dominance import DominanceInfo, strictly_dominates

    region, blocks, _keep = build(succs, style)
    n = len(blocks)
    try:
        d = DominanceInfo(region)
        dom = [[a for a in range(n) if d.dominates(blocks[a], blocks[b])] for b in range(n)]
        sdom = [[a for a in range(n) if d.strictly_dominates(blocks[a], blocks[b])] for b in range(n)]
    except Exception as e:  # noqa: BLE001
        return "raise " + core.exc_name(e), None, None, None
    ml = None
    if module_level:
        ml = [[a for a in range(n) if strictly_dominates(blocks[a], blocks[b])] for b in range(n)]
    return f"d {show_rel(dom)} s {show_rel(sdom)}", dom, sdom, ml


def po_impl(succs, style: str):
    from xdsl.ir.post_order import PostOrderIterator

    region, blocks, _keep = build(succs, style)
    idx = {id(b): i for i, b in enumerate(blocks)}
    out: list[int] = []
    try:
        it = PostOrderIterator(blocks[0])
        for b in it:
            out.append(idx.get(id(b), -1))
            if len(out) > 4 * len(blocks) + 4:
                return "raise Runaway", out
    except Exception as e:  # noqa: BLE001
        return "raise " + core.exc_name(e), None
    return "po " + " ".join(map(str, out)), out


# ---------------------------------------------------------------------------------------------
# independent oracle: the property's sentence on successor lists
# ---------------------------------------------------------------------------------------------

def reach(succs, removed: int | None = None) -> set[int]:
    if not succs or removed == 0:
        return set()
    seen, todo = {0}, [0]
    while todo:
        u = todo.pop()
        for v in succs[u]:
            if v != removed and v not in seen and v < len(succs):
                seen.add(v)
                todo.append(v)
    return seen


def ref_dom(succs) -> dict[int, list[int]]:
    """reachable b -> sorted list of a such that every path entry~>b passes through a"""
    n = len(succs)
    r = reach(succs)
    cut = {a: reach(succs, a) for a in range(n)}
    return {b: [a for a in range(n) if a == b or b not in cut[a]] for b in sorted(r)}


def ref_dom_paths(succs) -> dict[int, list[int]]:
    """same by enumerating all simple paths (a path avoiding `a` contains a simple path avoiding `a`)"""
    n = len(succs)
    common: dict[int, set[int]] = {}

    def go(u: int, path: tuple[int, ...]):
        s = set(path)
        common[u] = s if u not in common else common[u] & s
        for v in set(succs[u]):
            if v not in s:
                go(v, path + (v,))

    if n:
        go(0, (0,))
    return {b: sorted(common[b]) for b in sorted(common)}


def has_unreachable_pred(succs) -> bool:
    r = reach(succs)
    return any(v in r for u in range(len(succs)) if u not in r for v in succs[u] if v < len(succs))


def has_multi_edge(succs) -> bool:
    return any(len(set(s)) < len(s) for s in succs)


def dom_oracle(succs, dom, sdom, ml) -> tuple[str, str, str] | None:
    """(call_site, signature, description) of the first disagreement with path-based dominance"""
    ref = ref_dom(succs)
    for b, want in ref.items():
        got = dom[b]
        if got != want:
            missing = [a for a in want if a not in got]
            if missing:
                sig = ("dominator missing: block has an unreachable predecessor" if has_unreachable_pred(succs)
                       else "dominator missing")
                return DOM_SITE, sig, (f"dominates({missing[0]}, {b}) is False but every path from the entry to "
                                       f"block {b} passes through block {missing[0]}")
            extra = [a for a in got if a not in want][0]
            return DOM_SITE, "spurious dominator", (f"dominates({extra}, {b}) is True but a path from the entry to "
                                                    f"block {b} avoids block {extra}")
        wants = [a for a in want if a != b]
        if sdom[b] != wants:
            return ("xdsl.irdl.dominance.DominanceInfo.strictly_dominates", "strict dominance differs from dominance minus equality",
                    f"strict dominators of block {b}: {sdom[b]}, expected {wants}")
        if ml is not None and ml[b] != wants:
            return SDOM_SITE, "module-level strictly_dominates differs from path-based strict dominance", \
                f"strictly_dominates(a, {b}) true for a in {ml[b]}, expected {wants}"
    return None


def po_oracle(succs, out) -> tuple[str, str, str] | None:
    r = reach(succs)
    dup = [x for x in out if out.count(x) > 1]
    if dup:
        sig = "block yielded more than once: multi-edge" if has_multi_edge(succs) else "block yielded more than once"
        return PO_SITE, sig, f"block {dup[0]} is yielded {out.count(dup[0])} times: {out}"
    extra = [x for x in out if x not in r]
    if extra:
        return PO_SITE, "unreachable block yielded", f"block {extra[0]} is not reachable from the entry: {out}"
    miss = sorted(r - set(out))
    if miss:
        return PO_SITE, "reachable block not yielded", f"reachable block {miss[0]} is never yielded: {out}"
    if not out or out[-1] != 0:
        return PO_SITE, "entry block not last", f"the entry block is not the last one yielded: {out}"
    return None


def shrink_graph(succs, fails) -> Succs:
    """greedy: drop edges, then blocks nobody branches to, while `fails` (same defect class) holds"""
    cur = [list(x) for x in succs]
    progress = True
    while progress:
        progress = False
        for i in range(len(cur)):
            j = 0
            while j < len(cur[i]):
                cand = [list(x) for x in cur]
                del cand[i][j]
                if fails(cand):
                    cur, progress = cand, True
                else:
                    j += 1
        k = len(cur) - 1
        while k >= 1:
            if all(k not in x for i, x in enumerate(cur) if i != k):
                cand = [[t - (t > k) for t in x] for i, x in enumerate(cur) if i != k]
                if fails(cand):
                    cur, progress = cand, True
            k -= 1
    return tuple(tuple(x) for x in cur)


def dom_failure(succs, style: str, module_level: bool):
    line, dom, sdom, ml = dom_impl(succs, style, module_level)
    if dom is None:
        return (DOM_SITE, "exception on a well-formed region", f"DominanceInfo raised: {line}"), line
    return dom_oracle(succs, dom, sdom, ml), line


def po_failure(succs, style: str):
    line, out = po_impl(succs, style)
    if out is None or line.startswith("raise"):
        return (PO_SITE, "exception or runaway iteration", f"PostOrderIterator: {line}"), line
    return po_oracle(succs, out), line


# ---------------------------------------------------------------------------------------------
# generators
# ---------------------------------------------------------------------------------------------

def enum_graphs(n: int, maxdeg: int = 2) -> Iterator[Succs]:
    opts: list[tuple[int, ...]] = []
    for d in range(maxdeg + 1):
        opts.extend(itertools.product(range(n), repeat=d))
    return itertools.product(opts, repeat=n)  # type: ignore[return-value]


def random_graph(rng) -> Succs:
    n = rng.randint(4, 12)
    shape = rng.random()
    g: list[tuple[int, ...]] = []
    # `live`: blocks that may be targeted; keeping some blocks out of it makes them unreachable
    # (but they still branch into the live part: unreachable predecessors)
    live = [b for b in range(n) if b == 0 or rng.random() < 0.8] if shape < 0.6 else list(range(n))
    for b in range(n):
        deg = rng.choice([0, 1, 1, 2, 2, 2, 3])
        if shape > 0.8:  # mostly-forward chain with a few back edges: deep dominator trees
            ss = []
            for _ in range(deg):
                if rng.random() < 0.75 and b + 1 < n:
                    ss.append(rng.randint(b + 1, min(n - 1, b + 3)))
                else:
                    ss.append(rng.randrange(n))
            g.append(tuple(ss))
        else:
            g.append(tuple(rng.choice(live) for _ in range(deg)))
    return tuple(g)


# ---------------------------------------------------------------------------------------------
# run
# ---------------------------------------------------------------------------------------------

def as_case(kind: str, succs, style: str) -> dict:
    return {"function": kind, "succs": [list(s) for s in succs], "style": style}


def run_cases(ctx: core.Ctx, cases: list[tuple[Succs, str]], label: str, module_level_upto: int) -> None:
    """cases: (succs, style).  dominance for every case, post-order for styles with terminators and n>=1."""
    dom_lines, dom_obs, dom_cases = [], [], []
    po_lines, po_obs, po_cases = [], [], []
    for succs, style in cases:
        n = len(succs)
        r = reach(succs)
        ctx.count(f"{label}.graphs.n={n}")
        ctx.count(f"{label}.style.{style}")
        if has_multi_edge(succs):
            ctx.count(f"{label}.with_multi_edge")
        if any(b in s for b, s in enumerate(succs)):
            ctx.count(f"{label}.with_self_loop")
        if len(r) < n:
            ctx.count(f"{label}.with_unreachable_block")
        if has_unreachable_pred(succs):
            ctx.count(f"{label}.with_unreachable_predecessor_of_reachable_block")
        # ---- dominance
        line, dom, sdom, ml = dom_impl(succs, style, module_level=(n <= module_level_upto))
        ctx.ev()
        if len(r) >= 2:
            ctx.nt(("dom", succs, style))
        if dom is not None and n <= 4:
            a, b = ref_dom(succs), ref_dom_paths(succs)
            if a != b:
                raise core.InfraError(f"C24 oracles disagree on {succs}: {a} vs {b}")
        bad = ((DOM_SITE, "exception on a well-formed region", f"DominanceInfo raised: {line}") if dom is None
               else dom_oracle(succs, dom, sdom, ml))
        if bad is not None:
            small, sline = succs, line
            if n > 3:  # cases beyond the exhaustive scope come unshrunk
                ml_on = ml is not None
                small = shrink_graph(succs, lambda c: (dom_failure(c, style, ml_on)[0] or ("", ""))[:2] == bad[:2])
                bad, sline = dom_failure(small, style, ml_on)
            ctx.fail(bad[0], bad[1], as_case("dominance", small, style), bad[2], sline,
                     "d " + show_rel([ref_dom(small).get(b, ["?"]) for b in range(len(small))]))
        dom_lines.append(dom_line(succs)); dom_obs.append(line); dom_cases.append((succs, style))
        # ---- post-order
        if n >= 1 and style != "op":
            line, out = po_impl(succs, style)
            ctx.ev()
            if len(r) >= 2:
                ctx.nt(("po", succs, style))
            bad = ((PO_SITE, "exception or runaway iteration", f"PostOrderIterator: {line}")
                   if out is None or line.startswith("raise") else po_oracle(succs, out))
            if bad is not None:
                small, sline = succs, line
                if n > 3:
                    small = shrink_graph(succs, lambda c: (po_failure(c, style)[0] or ("", ""))[:2] == bad[:2])
                    bad, sline = po_failure(small, style)
                ctx.fail(bad[0], bad[1], as_case("post_order", small, style), bad[2], sline,
                         "any duplicate-free order of " + str(sorted(reach(small))) + " ending with 0")
            po_lines.append(po_line(succs)); po_obs.append(line); po_cases.append((succs, style))
    for name, lines, obs, cs, kind in (("dominance", dom_lines, dom_obs, dom_cases, "dominance"),
                                       ("post_order", po_lines, po_obs, po_cases, "post_order")):
        if not lines:
            continue
        model = ctx.model(name, lines)
        if "not-converged" in model:
            i = model.index("not-converged")
            ctx.mismatch(f"correspondence:C24/{name}", as_case(kind, *cs[i]), obs[i], model[i],
                         "the Lean model ran out of fuel (contradicts the termination theorem)")
        i = core.diff_streams(obs, model)
        if i is not None:
            ctx.mismatch(f"correspondence:C24/{name}", as_case(kind, *cs[i]), obs[i], model[i])


def run_malformed(ctx: core.Ctx, count: int) -> None:
    """successor outside the region: DominanceInfo raises KeyError; protocol garbage: bad-op"""
    lines, obs, cs = [], [], []
    for _ in range(count):
        n = ctx.rng.randint(1, 4)
        g = [tuple(ctx.rng.randrange(n + 2) for _ in range(ctx.rng.choice([0, 1, 2]))) for _ in range(n)]
        if all(s < n for ss in g for s in ss):
            g[ctx.rng.randrange(n)] = (n + ctx.rng.randrange(2),)
        line, *_ = dom_impl(g, "term")
        ctx.ev()
        ctx.count("malformed.foreign_successor")
        lines.append(dom_line(g)); obs.append(line); cs.append(g)
    model = ctx.model("dominance", lines)
    i = core.diff_streams(obs, model)
    if i is not None:
        ctx.mismatch("correspondence:C24/dominance", as_case("dominance", cs[i], "term"), obs[i], model[i])
    junk = ["", "dom x", "po", "po 0 1,", "dom 1,,2 -", "frob 1 2", "po 7"]
    for name in ("dominance", "post_order"):
        out = ctx.model(name, junk)
        if any(o != "bad-op" for o in out):
            ctx.mismatch(f"correspondence:C24/{name}", {"lines": junk}, ["bad-op"] * len(junk), out,
                         "model accepts a malformed protocol line")
        ctx.count("malformed.protocol_lines", len(junk))


def run(ctx: core.Ctx) -> None:
    ctx.lean()
    bound = 3 if ctx.tier == "quick" else 4
    nrandom = 3000 if ctx.tier == "quick" else 25000
    cases: list[tuple[Succs, str]] = [((), "term")]
    for n in range(1, bound + 1):
        for g in enum_graphs(n):
            if n <= 3:
                cases.extend(((g, "cf"), (g, "term"), (g, "op")))
            else:
                cases.extend(((g, "cf"), (g, "term")))
    run_cases(ctx, cases, "exhaustive", module_level_upto=3)
    rnd: list[tuple[Succs, str]] = []
    for i in range(nrandom):
        rnd.append((random_graph(ctx.rng), ("cf", "term", "op")[i % 3]))
    # a handful through the module-level entry point as well
    run_cases(ctx, rnd[:100], "random", module_level_upto=12)
    for k in range(100, len(rnd), 5000):
        if ctx.time_left() < 20:
            ctx.extra["random_truncated_at"] = k
            break
        run_cases(ctx, rnd[k:k + 5000], "random", module_level_upto=0)
    run_malformed(ctx, 60)
    ctx.exhaustive = True
    ctx.extra["exhaustive_scope"] = (f"all CFGs with <= {bound} blocks, out-degree <= 2 (ordered successor lists with "
                                     "duplicates and self-loops), every construction style; random beyond")
    mid = cases[len(cases) // 2]
    ctx.sample({**as_case("dominance", *mid), "impl": dom_impl(*mid)[0]})
    ctx.sample({**as_case("post_order", mid[0], "cf"), "impl": po_impl(mid[0], "cf")[0]})
    ctx.sample({**as_case("dominance", *rnd[0]), "impl": dom_impl(*rnd[0])[0]})
    ctx.sample({**as_case("post_order", rnd[1][0], "term"), "impl": po_impl(rnd[1][0], "term")[0]})


def replay(ctx: core.Ctx, body: dict) -> int:
    case = body["case"]
    if "lines" in case:
        for name in ("dominance", "post_order"):
            print(name, "model:", ctx.model(name, case["lines"]))
        return 0
    succs = tuple(tuple(s) for s in case["succs"])
    style = case.get("style", "term")
    n = len(succs)
    bad = None
    if case["function"] == "dominance":
        line, dom, sdom, ml = dom_impl(succs, style, module_level=True)
        model = ctx.model("dominance", [dom_line(succs)])[0]
        wf = all(s < n for ss in succs for s in ss)
        ref = ref_dom(succs) if wf else {}
        print("graph (successors per block, block 0 = entry):", [list(s) for s in succs], "style", style)
        print("implementation :", line)
        print("lean model     :", model)
        print("path-based dominators of reachable blocks:", ref)
        if dom is not None and wf:
            bad = dom_oracle(succs, dom, sdom, ml)
        elif dom is None and wf:
            bad = (DOM_SITE, "exception on a well-formed region", line)
    else:
        line, out = po_impl(succs, style)
        model = ctx.model("post_order", [po_line(succs)])[0]
        print("graph (successors per block, block 0 = entry):", [list(s) for s in succs], "style", style)
        print("implementation :", line)
        print("lean model     :", model)
        print("reachable from entry:", sorted(reach(succs)))
        bad = po_oracle(succs, out) if out is not None and not line.startswith("raise") else (PO_SITE, "exception", line)
    if bad is not None:
        print(f"property FAILS on this case: {bad[0]} [{bad[1]}]: {bad[2]}")
        return 1
    print("property holds on this case" + ("" if line == model else " (but implementation and model differ)"))
    return 0 if line == model else 1
