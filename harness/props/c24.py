"""C24 — Dominance and post-order traversal match their graph definitions."""
from __future__ import annotations

import gc
import inspect
import itertools
import json
import signal
import threading
from typing import Any, Callable, Iterator, Sequence

from vp import core

META = {
    "title": "Dominance and post-order traversal match their graph definitions",
    "category": "proof",
    "design_ref": "DESIGN.md §5 C24",
    "lean_modules": ["XdslProofs.C24", "XdslProofs.C24PostOrder"],
    "text": (
        "Lean theorems about the models of DominanceInfo.__init__ (iterative set refinement, in-place, "
        "region order) and PostOrderIterator (explicit stack + seen set): the refinement loop terminates "
        "within n*n+1 passes for every graph (dominance_converges); for every block b<n, a is in the "
        "computed dom[b] exactly when a<n and every path entry~>b contains a (dom_iff_paths; for reachable b "
        "that is path-based dominance, unreachable blocks are dominated by every block), strict dominance "
        "excludes equality (strict_iff); the post-order iteration terminates within 2n+1 pops, yields a "
        "duplicate-free list whose members are exactly the blocks reachable from the start block, the "
        "start block last, and every block after the blocks it pushed (postorder_spec, "
        "postorder_children_first). The hand-written models are tied to /repo by building real xDSL "
        "regions (cf.br / cf.cond_br / test.termop / test.op / unregistered-operation terminators, one kind per "
        "region or mixed by block) for ALL control-flow graphs up "
        "to the block bound with out-degree <= 2 (self-loops, multi-edges, unreachable blocks included) and "
        "random larger ones, and comparing dominates/strictly_dominates for every pair and the yielded "
        "sequence with the Lean driver; an independent Python oracle (reachability with a node removed, "
        "cross-checked by simple-path enumeration) states the property directly on the implementation. "
        "The enumeration is over labelled graphs, i.e. every order of the block list (loops listed before the "
        "block that guards them included); random graphs include structured CFGs (nested loops, diamonds) "
        "listed in a shuffled order; the answer does not depend on the listing order (dom_relabel, "
        "strict_relabel) and the loop may start from any sound table but not from one that omits a dominator "
        "(dominance_from_sound_start, prefix_start_counterexample, prefix_start_diverges). The graph is the "
        "one the region has WHEN it is asked: ask/edit/ask histories keep real regions alive, retarget "
        "edges, replace terminators, add/erase/move blocks or rebuild the region, and ask every entry point "
        "(fresh DominanceInfo, its query methods, every public module-level query function of "
        "xdsl.irdl.dominance found by introspection, a fresh PostOrderIterator) after each edit; each "
        "answer is judged against the graph read back from the region at that moment and compared with "
        "the model run on that graph; the reference graph of a history is the control flow the edits "
        "REQUESTED (kept beside the region by list arithmetic), so an edit that stores other successor lists "
        "than asked for (e.g. retargets both edges of a multi-edge) is a failing input of the edit. "
        "Every call into the real code runs under a CPU-time watchdog: an "
        "implementation that does not terminate is a failing input."
    ),
    "technique": "Lean 4 fixpoint/invariant proofs + exhaustive small-graph and random differential correspondence with the real classes",
    "level_note": (
        "Trusted: Lean kernel; hand-written models XdslModel/{Graph,Dominance,PostOrder}.lean (tied by "
        "correspondence only: all graphs up to the bound, random beyond); the abstraction of a region to "
        "successor lists of each block's last operation (post-order: only if that operation has the "
        "IsTerminator trait, as the code demands; the `op` style with a non-terminator carrying successors "
        "is therefore exercised for dominance only; an UNREGISTERED last operation with successors ends its "
        "block as far as anybody can know - xDSL's convention has_trait(..., value_if_unregistered=True) - and "
        "post-order must follow its successors: styles `unreg`, `mix`). In histories the CFG of a region is the "
        "one its client built through the public mutation API (Live.want), whatever the operations store. The statement does not constrain what is reported for "
        "an unreachable block b (dominates(a, b)); the oracle checks reachable b only, the model/"
        "correspondence fixes it to 'every block'. Successors outside the region (KeyError in "
        "DominanceInfo) are outside the statement: correspondence only. A DominanceInfo object or a "
        "PostOrderIterator created BEFORE an edit is a snapshot: what it reports afterwards is not "
        "constrained (only objects created after the edit and the module-level functions are asked). "
        "Module-level functions on regions of more than 4 blocks in histories are asked the pairs whose "
        "expected answer changed since the last query plus a rotating fifth of the others. Non-termination "
        "= more than 0.5 s (confirmed with 3 s) of process CPU time on a region of at most 15 blocks, "
        "garbage collection excluded."
    ),
    "rule": (
        "every graph with n<=bound blocks (quick 3, thorough 4) where each block has 0, 1 or 2 ordered "
        "successors among the n blocks (duplicates and self-loops allowed), in each construction style; "
        "plus seeded random graphs with 4..12 blocks, out-degree <=3. Non-trivial = at least two blocks are "
        "reachable from the entry. Distinct = distinct (function, successor lists, style). Histories: every "
        "graph with <=3 blocks x every single retargeted edge (quick: n=3 as far as the budget allows) and, "
        "for <=2 blocks (thorough: <=3), every replaced terminator, as ask-edit-ask; plus seeded random histories "
        "(1-2 regions of 3..8 blocks, 2..7 edits of 7 kinds; retargeted edges addressed by non-negative or negative "
        "index). Construction styles: cf, term, op, unreg, mix (cf/term/unreg by list position). A history is non-trivial when the reference "
        "dominance relation of a region differs between two consecutive queries of it; distinct = distinct "
        "(regions, style, steps). Random graphs: a third are structured CFGs of 4..15 blocks listed in a "
        "shuffled order."
    ),
    "trusted_base": [
        "correspondence harness harness/props/c24.py (differential, bounded-exhaustive + random)",
        "hand-written Lean models of irdl/dominance.py and ir/post_order.py",
    ],
    "budget": {"quick": 120, "thorough": 1200},
}

Succs = tuple[tuple[int, ...], ...]
DOM_SITE = "xdsl.irdl.dominance.DominanceInfo.__init__"
SDOM_SITE = "xdsl.irdl.dominance.strictly_dominates"
PO_SITE = "xdsl.ir.post_order.PostOrderIterator.__next__"


# ---------------------------------------------------------------------------------------------
# real-code adapter
# ---------------------------------------------------------------------------------------------

KINDS = ("cf", "term", "op", "unreg")       # what one block's last operation is
MIX = ("cf", "term", "unreg")               # style `mix`: the kinds that end a block, by list position
STYLES = ("cf", "term", "op", "unreg", "mix")
_UNREG: dict[str, Any] = {}


def kind_of(style: str, i: int) -> str:
    """the kind of terminator a block created at list position i gets in construction style `style`"""
    return MIX[i % len(MIX)] if style == "mix" else style


def add_term(b, tg, style: str) -> None:
    """append the operation(s) that give block `b` the successor list `tg`; `style` is a kind here"""
    from xdsl.dialects import cf, test
    from xdsl.dialects.builtin import i1

    if style == "cf" and len(tg) == 0:
        pass
    elif style == "cf" and len(tg) == 1:
        b.add_op(cf.BranchOp(tg[0]))
    elif style == "cf" and len(tg) == 2:
        c = test.TestOp(result_types=[i1])
        b.add_op(c)
        b.add_op(cf.ConditionalBranchOp(c.results[0], tg[0], [], tg[1], []))
    elif style == "op":
        b.add_op(test.TestOp.create(successors=tg))  # as the parser builds `"test.op"()[^b]`
    elif style == "unreg":
        # an operation of a dialect that is not loaded, as the parser builds `"mydialect.branch"()[^b, ^c]`
        # under allow_unregistered: it ends its block and carries successors like any other terminator
        if "cls" not in _UNREG:
            from xdsl.context import Context
            _UNREG["cls"] = Context(allow_unregistered=True).get_op("mydialect.branch")
        b.add_op(_UNREG["cls"].create(successors=tg))
    else:
        b.add_op(test.TestTermOp(successors=tg))


def has_op(kind: str, deg: int) -> bool:
    return not (kind == "cf" and deg == 0)


def build(succs: Sequence[Sequence[int]], style: str, kinds: Sequence[str] | None = None):
    """A real region whose i-th block branches to the blocks `succs[i]`.
    style `cf`: cf.br / cf.cond_br where the out-degree allows, an empty block for out-degree 0,
    test.termop otherwise; `term`: test.termop everywhere; `op`: test.op (no IsTerminator trait) as
    in tests/test_dominance.py; `unreg`: an unregistered operation with successors everywhere; `mix`:
    cf / term / unreg by list position (`kinds`, when given, says it per block).
    An index >= n denotes a block of another region."""
    from xdsl.ir import Block, Region

    n = len(succs)
    blocks = [Block() for _ in range(n)]
    foreign: dict[int, Any] = {}
    keep = []
    for i, (b, ss) in enumerate(zip(blocks, succs)):
        tg = []
        for s in ss:
            if s < n:
                tg.append(blocks[s])
            else:
                if s not in foreign:
                    foreign[s] = Block()
                    keep.append(Region([foreign[s]]))
                tg.append(foreign[s])
        add_term(b, tg, kinds[i] if kinds is not None else kind_of(style, i))
    return Region(blocks), blocks, keep


def show_list(l: Sequence[int]) -> str:
    return ",".join(map(str, l)) if l else "-"


def graph_words(succs: Sequence[Sequence[int]]) -> str:
    return " ".join(show_list(s) for s in succs)


def dom_line(succs) -> str:
    return ("dom " + graph_words(succs)).rstrip() if succs else "dom"


def po_line(succs) -> str:
    return "po " + graph_words(succs)


def show_rel(rel: Sequence[Sequence[int]]) -> str:
    return " ".join(show_list(r) for r in rel)


# ---- watchdog --------------------------------------------------------------------------------
# Termination is part of what is proved about the models (dominance_converges, postorder_terminates);
# an implementation that loops for ever on some region must become a failing input, not a stuck check.

class Hang(BaseException):
    """raised inside the real code when it used up its CPU budget (BaseException: passes `except Exception`)"""


WATCHDOG_CPU_S = 0.5   # a region of <= 14 blocks needs well under a millisecond
CONFIRM_CPU_S = 3.0    # budget used once more before a non-termination is reported
MAX_HANGS = 12         # after that many the remaining random cases of a run are skipped
HANGS = {"n": 0}
_armed = {"installed": False}


def _on_vtalrm(signum, frame):  # type: ignore[no-untyped-def]
    raise Hang()


RETRY = {"on": True}


def _budgeted(fn: Callable[[], Any], cpu_s: float) -> Any:
    gc_was_on = gc.isenabled()
    gc.disable()  # a full collection of a large heap must not be charged to the code under test
    signal.setitimer(signal.ITIMER_VIRTUAL, cpu_s)
    try:
        return fn()
    finally:
        signal.setitimer(signal.ITIMER_VIRTUAL, 0)
        if gc_was_on:
            gc.enable()


def guarded(fn: Callable[[], Any]) -> Any:
    """fn() (a pure query: it may be run again) under a budget of CPU time of this process (ITIMER_VIRTUAL:
    the load of the machine does not count).  When the budget is used up the call is repeated once with
    four times the budget (a stall of the machine is transient, a loop that does not terminate is not);
    raises Hang when that is used up too."""
    if threading.current_thread() is not threading.main_thread():
        return fn()
    if not _armed["installed"]:
        signal.signal(signal.SIGVTALRM, _on_vtalrm)
        _armed["installed"] = True
    try:
        return _budgeted(fn, WATCHDOG_CPU_S)
    except Hang:
        if not RETRY["on"]:
            HANGS["n"] += 1
            raise
    try:
        return _budgeted(fn, 4 * WATCHDOG_CPU_S)
    except Hang:
        HANGS["n"] += 1
        raise


def without_retry(f: Callable[[], Any]) -> Any:
    """while shrinking, a candidate that uses up the budget is simply not taken"""
    saved = RETRY["on"]
    RETRY["on"] = False
    try:
        return f()
    finally:
        RETRY["on"] = saved


NONTERM = "raise NonTermination"


# ---- entry points ----------------------------------------------------------------------------

_EP: dict[str, Any] = {}


def entry_points() -> tuple[list[tuple[str, bool]], list[tuple[str, bool, Any]]]:
    """(other two-block query methods of DominanceInfo, public module-level two-block query functions of
    xdsl.irdl.dominance) as (name, is_strict[, function]); found by introspection so that an entry point
    added later is exercised too.  Private helpers (`_…`) are exercised through the public functions that
    call them: the property speaks of what is reported to a caller.  A name containing `strict` or `proper` promises strict dominance,
    any other name containing `dominates` reflexive dominance."""
    if _EP:
        return _EP["methods"], _EP["functions"]
    import xdsl.irdl.dominance as m

    def positional(f) -> int:
        try:
            ps = inspect.signature(f).parameters.values()
        except (TypeError, ValueError):
            return -1
        if any(p.kind in (p.VAR_POSITIONAL, p.KEYWORD_ONLY) and p.default is p.empty for p in ps):
            return -1
        return sum(1 for p in ps if p.kind in (p.POSITIONAL_ONLY, p.POSITIONAL_OR_KEYWORD) and p.default is p.empty)

    def strict(name: str) -> bool:
        return "strict" in name or "proper" in name

    methods = [(name, strict(name)) for name, f in sorted(vars(m.DominanceInfo).items())
               if inspect.isfunction(f) and "dominates" in name and positional(f) == 3
               and name not in ("dominates", "strictly_dominates")]
    functions = [(name, strict(name), f) for name, f in sorted(vars(m).items())
                 if inspect.isfunction(f) and f.__module__ == m.__name__ and "dominates" in name
                 and not name.startswith("_") and positional(f) == 2]
    _EP["methods"], _EP["functions"] = methods, functions
    return methods, functions


def relation(q: Callable[[Any, Any], Any], blocks, pairs=None) -> list[list[int]] | str:
    """rel[b] = the a with q(a, b) true (only over `pairs` when given), or `raise …`"""
    n = len(blocks)

    def go():
        rel: list[list[int]] = [[] for _ in range(n)]
        for b in range(n):
            for a in range(n):
                if pairs is not None and (a, b) not in pairs:
                    continue
                if q(blocks[a], blocks[b]):
                    rel[b].append(a)
        return rel

    try:
        return guarded(go)
    except Hang:
        return NONTERM
    except Exception as e:  # noqa: BLE001
        return "raise " + core.exc_name(e)


def observe_dom(region, blocks, module_level: bool = False, pairs=None):
    """(observation line, dom lists or None, strict lists or None, other entry points or None).
    The last is {dotted name: (is_strict, relation or `raise …`)} for every other DominanceInfo query method
    (asked of the same fresh object) and every module-level query function; `pairs` restricts the
    (a, b) asked of the module-level functions (they rebuild the analysis for every call)."""
    from xdsl.irdl.dominance import DominanceInfo

    n = len(blocks)
    def fresh():
        d = DominanceInfo(region)
        return (d, [[a for a in range(n) if d.dominates(blocks[a], blocks[b])] for b in range(n)],
                [[a for a in range(n) if d.strictly_dominates(blocks[a], blocks[b])] for b in range(n)])

    try:
        d, dom, sdom = guarded(fresh)
    except Hang:
        return NONTERM, None, None, None
    except Exception as e:  # noqa: BLE001
        return "raise " + core.exc_name(e), None, None, None
    ml = None
    if module_level:
        methods, functions = entry_points()
        ml = {}
        for name, st in methods:
            ml["xdsl.irdl.dominance.DominanceInfo." + name] = (st, relation(getattr(d, name), blocks))
        for name, st, f in functions:
            ml["xdsl.irdl.dominance." + name] = (st, relation(f, blocks, pairs))
    return f"d {show_rel(dom)} s {show_rel(sdom)}", dom, sdom, ml


def dom_impl(succs, style: str, module_level: bool = False):
    region, blocks, _keep = build(succs, style)
    return observe_dom(region, blocks, module_level)


def observe_po(first_block, blocks):
    from xdsl.ir.post_order import PostOrderIterator

    idx = {id(b): i for i, b in enumerate(blocks)}
    out: list[int] = []

    def go():
        del out[:]
        it = PostOrderIterator(first_block)
        for b in it:
            out.append(idx.get(id(b), -1))
            if len(out) > 4 * len(blocks) + 4:
                return "raise Runaway"
        return None

    try:
        r = guarded(go)
    except Hang:
        return NONTERM, out
    except Exception as e:  # noqa: BLE001
        return "raise " + core.exc_name(e), None
    if r is not None:
        return r, out
    return "po " + " ".join(map(str, out)), out


def po_impl(succs, style: str):
    _region, blocks, _keep = build(succs, style)
    return observe_po(blocks[0], blocks)


# ---------------------------------------------------------------------------------------------
# independent oracle: the property's sentence on successor lists
# ---------------------------------------------------------------------------------------------

def reach(succs, removed: int | None = None) -> set[int]:
    if not succs or removed == 0:
        return set()
    seen, todo = {0}, [0]
    while todo:
        u = todo.pop()
        for v in succs[u]:
            if v != removed and v not in seen and v < len(succs):
                seen.add(v)
                todo.append(v)
    return seen


def ref_dom(succs) -> dict[int, list[int]]:
    """reachable b -> sorted list of a such that every path entry~>b passes through a"""
    n = len(succs)
    r = reach(succs)
    cut = {a: reach(succs, a) for a in range(n)}
    return {b: [a for a in range(n) if a == b or b not in cut[a]] for b in sorted(r)}


def ref_dom_paths(succs) -> dict[int, list[int]]:
    """same by enumerating all simple paths (a path avoiding `a` contains a simple path avoiding `a`)"""
    n = len(succs)
    common: dict[int, set[int]] = {}

    def go(u: int, path: tuple[int, ...]):
        s = set(path)
        common[u] = s if u not in common else common[u] & s
        for v in set(succs[u]):
            if v not in s:
                go(v, path + (v,))

    if n:
        go(0, (0,))
    return {b: sorted(common[b]) for b in sorted(common)}


def has_unreachable_pred(succs) -> bool:
    r = reach(succs)
    return any(v in r for u in range(len(succs)) if u not in r for v in succs[u] if v < len(succs))


def has_multi_edge(succs) -> bool:
    return any(len(set(s)) < len(s) for s in succs)


def ref_dom_full(succs) -> list[list[int]]:
    """ref_dom with the vacuous convention for unreachable blocks (dominated by every block)"""
    n = len(succs)
    ref = ref_dom(succs)
    return [ref.get(b, list(range(n))) for b in range(n)]


def dom_oracle(succs, dom, sdom, ml, pairs=None) -> tuple[str, str, str] | None:
    """(call_site, signature, description) of the first disagreement with path-based dominance.
    `ml`: the other entry points (see observe_dom), asked the pairs `pairs` (None: all)."""
    ref = ref_dom(succs)
    for b, want in ref.items():
        got = dom[b]
        if got != want:
            missing = [a for a in want if a not in got]
            if missing:
                sig = ("dominator missing: block has an unreachable predecessor" if has_unreachable_pred(succs)
                       else "dominator missing")
            else:
                sig = "spurious dominator"
            if missing:
                return DOM_SITE, sig, (f"dominates({missing[0]}, {b}) is False but every path from the entry to "
                                       f"block {b} passes through block {missing[0]}")
            extra = [a for a in got if a not in want][0]
            return DOM_SITE, sig, (f"dominates({extra}, {b}) is True but a path from the entry to "
                                   f"block {b} avoids block {extra}")
        wants = [a for a in want if a != b]
        if sdom[b] != wants:
            return ("xdsl.irdl.dominance.DominanceInfo.strictly_dominates", "strict dominance differs from dominance minus equality",
                    f"strict dominators of block {b}: {sdom[b]}, expected {wants}")
    for name, (strict, rel) in (ml or {}).items():
        short = name.rsplit(".", 1)[1]
        kind = "strict dominance" if strict else "dominance"
        if isinstance(rel, str):
            sig = "does not terminate" if rel == NONTERM else "exception on a well-formed region"
            return name, sig, f"{short}(a, b) on blocks of one region: {rel}"
        for b, want in ref.items():
            wanted = [a for a in want if not (strict and a == b) and (pairs is None or (a, b) in pairs)]
            if rel[b] != wanted:
                where = "" if "DominanceInfo" in name else "module-level "
                sig = f"{where}{short} differs from path-based {kind}"
                asked = "" if pairs is None else " (of those asked)"
                return name, sig, f"{short}(a, {b}) true for a in {rel[b]}, expected {wanted}{asked}"
    return None


def po_oracle(succs, out) -> tuple[str, str, str] | None:
    r = reach(succs)
    dup = [x for x in out if out.count(x) > 1]
    if dup:
        sig = "block yielded more than once: multi-edge" if has_multi_edge(succs) else "block yielded more than once"
        return PO_SITE, sig, f"block {dup[0]} is yielded {out.count(dup[0])} times: {out}"
    extra = [x for x in out if x not in r]
    if extra:
        return PO_SITE, "unreachable block yielded", f"block {extra[0]} is not reachable from the entry: {out}"
    miss = sorted(r - set(out))
    if miss:
        return PO_SITE, "reachable block not yielded", f"reachable block {miss[0]} is never yielded: {out}"
    if not out or out[-1] != 0:
        return PO_SITE, "entry block not last", f"the entry block is not the last one yielded: {out}"
    return None


def shrink_graph(succs, fails) -> Succs:
    """greedy: drop edges, then blocks nobody branches to, while `fails` (same defect class) holds"""
    cur = [list(x) for x in succs]
    progress = True
    while progress:
        progress = False
        for i in range(len(cur)):
            j = 0
            while j < len(cur[i]):
                cand = [list(x) for x in cur]
                del cand[i][j]
                if fails(cand):
                    cur, progress = cand, True
                else:
                    j += 1
        k = len(cur) - 1
        while k >= 1:
            if all(k not in x for i, x in enumerate(cur) if i != k):
                cand = [[t - (t > k) for t in x] for i, x in enumerate(cur) if i != k]
                if fails(cand):
                    cur, progress = cand, True
            k -= 1
    return tuple(tuple(x) for x in cur)


def dom_exception(line: str) -> tuple[str, str, str]:
    if line == NONTERM:
        return DOM_SITE, "does not terminate", (f"DominanceInfo(region) used more than {WATCHDOG_CPU_S} s of CPU time on this "
                                                 "region (normal: well under a millisecond): the refinement loop does not converge")
    return DOM_SITE, "exception on a well-formed region", f"DominanceInfo raised: {line}"


def po_exception(line: str) -> tuple[str, str, str]:
    if line == NONTERM:
        return PO_SITE, "does not terminate", f"PostOrderIterator used more than {WATCHDOG_CPU_S} s of CPU time on this region"
    return PO_SITE, "exception or runaway iteration", f"PostOrderIterator: {line}"


def dom_failure(succs, style: str, module_level: bool):
    line, dom, sdom, ml = dom_impl(succs, style, module_level)
    if dom is None:
        return dom_exception(line), line
    return dom_oracle(succs, dom, sdom, ml), line


def po_failure(succs, style: str):
    line, out = po_impl(succs, style)
    if out is None or line.startswith("raise"):
        return po_exception(line), line
    return po_oracle(succs, out), line


# ---------------------------------------------------------------------------------------------
# generators
# ---------------------------------------------------------------------------------------------

def enum_graphs(n: int, maxdeg: int = 2) -> Iterator[Succs]:
    opts: list[tuple[int, ...]] = []
    for d in range(maxdeg + 1):
        opts.extend(itertools.product(range(n), repeat=d))
    return itertools.product(opts, repeat=n)  # type: ignore[return-value]


def random_graph(rng) -> Succs:
    n = rng.randint(4, 12)
    shape = rng.random()
    g: list[tuple[int, ...]] = []
    # `live`: blocks that may be targeted; keeping some blocks out of it makes them unreachable
    # (but they still branch into the live part: unreachable predecessors)
    live = [b for b in range(n) if b == 0 or rng.random() < 0.8] if shape < 0.6 else list(range(n))
    for b in range(n):
        deg = rng.choice([0, 1, 1, 2, 2, 2, 3])
        if shape > 0.8:  # mostly-forward chain with a few back edges: deep dominator trees
            ss = []
            for _ in range(deg):
                if rng.random() < 0.75 and b + 1 < n:
                    ss.append(rng.randint(b + 1, min(n - 1, b + 3)))
                else:
                    ss.append(rng.randrange(n))
            g.append(tuple(ss))
        else:
            g.append(tuple(rng.choice(live) for _ in range(deg)))
    return tuple(g)


def relabel(g: Sequence[Sequence[int]], perm: Sequence[int]) -> Succs:
    """the same graph with block i listed at position perm[i]"""
    out: list[tuple[int, ...]] = [()] * len(g)
    for i, ss in enumerate(g):
        out[perm[i]] = tuple(perm[t] for t in ss)
    return tuple(out)


def shuffled(rng, g: Sequence[Sequence[int]]) -> Succs:
    """the blocks after the entry listed in a random order (the region's block list need not be any traversal order)"""
    rest = list(range(1, len(g)))
    rng.shuffle(rest)
    return relabel(g, [0] + rest)


def structured_graph(rng, budget: int | None = None) -> Succs:
    """A structured CFG (sequences, diamonds, while / do-while loops, nested; an occasional extra jump and an
    unreachable block branching into it), built in the natural order in which every dominator is listed
    first, then listed in a random order: loop headers and guards come AFTER the loops they dominate."""
    budget = budget or rng.randint(4, 12)
    g: list[list[int]] = [[]]

    def new() -> int:
        g.append([])
        return len(g) - 1

    def gen(cur: int, depth: int) -> int:
        kind = rng.choice(["basic", "seq", "if", "while", "while", "dowhile", "dowhile"])
        if depth == 0 or len(g) + 3 > budget:
            kind = "basic"
        if kind == "basic":
            return cur
        if kind == "seq":
            mid = gen(cur, depth - 1)
            nxt = new()
            g[mid] = [nxt]
            return gen(nxt, depth - 1)
        if kind == "if":
            t, e = new(), new()
            g[cur] = [t, e]
            te, ee = gen(t, depth - 1), gen(e, depth - 1)
            j = new()
            g[te], g[ee] = [j], [j]
            return j
        if kind == "while":
            h = new()
            g[cur] = [h]
            b, x = new(), new()
            g[h] = [b, x]
            g[gen(b, depth - 1)] = [h]
            return x
        b = new()  # do-while
        g[cur] = [b]
        be = gen(b, depth - 1)
        x = new()
        g[be] = [b, x]
        return x

    last = 0
    while len(g) + 3 <= budget:
        last = gen(last, 3)
        if len(g) + 1 <= budget and rng.random() < 0.7:
            nxt = new()
            g[last] = [nxt]
            last = nxt
    n = len(g)
    if rng.random() < 0.3:  # an extra jump (may make the graph irreducible)
        u = rng.randrange(n)
        if len(g[u]) < 3:
            g[u] = g[u] + [rng.randrange(n)]
    if rng.random() < 0.25:  # an unreachable block branching into the graph
        g.append([rng.randrange(n)])
    return shuffled(rng, g) if rng.random() < 0.85 else tuple(tuple(x) for x in g)


def order_stats(succs) -> tuple[bool, bool]:
    """(some reachable block is listed BEFORE one of its strict dominators,
        … and that block lies on a cycle: the dominator guards a loop listed before it)"""
    ref = ref_dom(succs)
    late = [(a, b) for b, ds in ref.items() for a in ds if a > b]
    if not late:
        return False, False

    def on_cycle(b: int) -> bool:
        seen, todo = set(), list(succs[b])
        while todo:
            u = todo.pop()
            if u == b:
                return True
            if u not in seen and u < len(succs):
                seen.add(u)
                todo.extend(succs[u])
        return False

    return True, any(on_cycle(b) for _a, b in late)


# ---------------------------------------------------------------------------------------------
# run
# ---------------------------------------------------------------------------------------------

def as_case(kind: str, succs, style: str) -> dict:
    return {"function": kind, "succs": [list(s) for s in succs], "style": style}


SHRUNK: dict[tuple[str, str], int] = {}


def may_shrink(bad) -> bool:
    """the first few failing inputs of a defect class are shrunk; ctx.fail keeps the smallest"""
    k = (bad[0], bad[1])
    SHRUNK[k] = SHRUNK.get(k, 0) + 1
    return SHRUNK[k] <= 3


def confirmed(bad, again: Callable[[], Any]):
    """a non-termination is reported only if the case also uses up the larger budget CONFIRM_CPU_S"""
    if bad is None or not bad[1].startswith("does not terminate"):
        return bad
    saved = globals()["WATCHDOG_CPU_S"]
    globals()["WATCHDOG_CPU_S"] = CONFIRM_CPU_S
    try:
        return again()
    finally:
        globals()["WATCHDOG_CPU_S"] = saved


def run_cases(ctx: core.Ctx, cases: list[tuple[Succs, str]], label: str, module_level_upto: int) -> None:
    """cases: (succs, style).  dominance for every case, post-order for styles with terminators and n>=1."""
    dom_lines, dom_obs, dom_cases = [], [], []
    po_lines, po_obs, po_cases = [], [], []
    for succs, style in cases:
        n = len(succs)
        r = reach(succs)
        ctx.count(f"{label}.graphs.n={n}")
        ctx.count(f"{label}.style.{style}")
        if has_multi_edge(succs):
            ctx.count(f"{label}.with_multi_edge")
        if any(b in s for b, s in enumerate(succs)):
            ctx.count(f"{label}.with_self_loop")
        if len(r) < n:
            ctx.count(f"{label}.with_unreachable_block")
        if has_unreachable_pred(succs):
            ctx.count(f"{label}.with_unreachable_predecessor_of_reachable_block")
        late, late_loop = order_stats(succs)
        if late:
            ctx.count(f"{label}.listed_before_a_strict_dominator")
        if late_loop:
            ctx.count(f"{label}.loop_listed_before_the_block_that_guards_it")
        if HANGS["n"] > MAX_HANGS:
            ctx.extra["stopped_after_non_terminations"] = {"family": label, "count": HANGS["n"]}
            break
        # ---- dominance
        line, dom, sdom, ml = dom_impl(succs, style, module_level=(n <= module_level_upto and style != "mix"))
        ctx.ev()
        if len(r) >= 2:
            ctx.nt(("dom", succs, style))
        if dom is not None and n <= 4:
            a, b = ref_dom(succs), ref_dom_paths(succs)
            if a != b:
                raise core.InfraError(f"C24 oracles disagree on {succs}: {a} vs {b}")
        bad = dom_exception(line) if dom is None else dom_oracle(succs, dom, sdom, ml)
        if bad is not None:
            small, sline = succs, line
            ml_on = ml is not None
            if n > 3 and may_shrink(bad):  # cases beyond the exhaustive scope come unshrunk
                small = without_retry(lambda: shrink_graph(
                    succs, lambda c: (dom_failure(c, style, ml_on)[0] or ("", ""))[:2] == bad[:2]))
                bad, sline = dom_failure(small, style, ml_on)
            bad = confirmed(bad, lambda: dom_failure(small, style, ml_on)[0])
            if bad is not None:
                ctx.fail(bad[0], bad[1], as_case("dominance", small, style), bad[2], sline,
                         "d " + show_rel([ref_dom(small).get(b, ["?"]) for b in range(len(small))]))
        dom_lines.append(dom_line(succs)); dom_obs.append(line); dom_cases.append((succs, style))
        # ---- post-order
        if n >= 1 and style != "op":
            line, out = po_impl(succs, style)
            ctx.ev()
            if len(r) >= 2:
                ctx.nt(("po", succs, style))
            bad = po_exception(line) if out is None or line.startswith("raise") else po_oracle(succs, out)
            if bad is not None:
                small, sline = succs, line
                if n > 3 and may_shrink(bad):
                    small = without_retry(lambda: shrink_graph(
                        succs, lambda c: (po_failure(c, style)[0] or ("", ""))[:2] == bad[:2]))
                    bad, sline = po_failure(small, style)
                bad = confirmed(bad, lambda: po_failure(small, style)[0])
                if bad is not None:
                    ctx.fail(bad[0], bad[1], as_case("post_order", small, style), bad[2], sline,
                             "any duplicate-free order of " + str(sorted(reach(small))) + " ending with 0")
            po_lines.append(po_line(succs)); po_obs.append(line); po_cases.append((succs, style))
    for name, lines, obs, cs, kind in (("dominance", dom_lines, dom_obs, dom_cases, "dominance"),
                                       ("post_order", po_lines, po_obs, po_cases, "post_order")):
        if not lines:
            continue
        model = ctx.model(name, lines)
        if "not-converged" in model:
            i = model.index("not-converged")
            ctx.mismatch(f"correspondence:C24/{name}", as_case(kind, *cs[i]), obs[i], model[i],
                         "the Lean model ran out of fuel (contradicts the termination theorem)")
        i = core.diff_streams(obs, model)
        if i is not None:
            ctx.mismatch(f"correspondence:C24/{name}", as_case(kind, *cs[i]), obs[i], model[i])


# ---------------------------------------------------------------------------------------------
# histories: query / edit the same region / query again
# ---------------------------------------------------------------------------------------------
# "For every region control-flow graph": the graph is the one the region has WHEN it is asked.  A history
# keeps one or two real regions alive, edits their control flow through the public mutation API and asks
# every entry point again after the edits; every answer is judged against the graph read back from the
# region at that moment (successor lists of each block's last operation, blocks in list order), and the
# Lean model is run on that same graph.  The REFERENCE graph, however, is the control flow the edits asked for
# (kept next to the region by list arithmetic, `Live.want`): an edit that stores other successor lists than
# requested (say, both edges of a multi-edge retargeted when one was) makes dominance and post-order wrong for
# the CFG the client built, although every analysis is consistent with what the operations store.  Steps are lists of ints interpreted modulo the current sizes, so
# every step applies to every state (shrinking may drop any of them):
#   ["q", r]                  ask everything about region r
#   ["retarget", r, b, k, t]  last_op(b).successors[k] = t          (blocks and their order unchanged; a sixth
#                             element 1: the edge is addressed by its negative index, counted from the end)
#   ["setsuccs", r, b, ts]    last_op(b).successors = ts            (same; cf style keeps the arity)
#   ["newterm", r, b, ts]     erase the operations of b, append a new terminator with successors ts
#   ["addblock", r, pos, ts]  insert a new block at list position pos branching to ts
#   ["eraseblock", r, b, t]   retarget every edge into b to t, erase b (b = 0: the next block becomes the entry)
#   ["moveblock", r, b, pos]  detach b, insert it at list position pos (pos = 0: it becomes the entry)
#   ["rebuild", r, succs]     drop the region and build a new one (fresh objects, possibly at the same addresses)

class Live:
    """one real region under edit, and next to it the control flow the edits ASKED for (`want`: successor
    lists by list position, `kinds`: what ends each block), kept by plain list arithmetic that never looks at
    the region: the CFG of the region is the one its client built through the public API, so every answer is
    judged against `want`, not against whatever successor lists the operations happen to store."""

    def __init__(self, succs, style: str):
        self.style = style
        self.want: list[list[int]] = [list(x) for x in succs]
        self.kinds: list[str] = [kind_of(style, i) for i in range(len(succs))]
        self.diverged: tuple[int, str] | None = None  # (step, kind of edit) after which region and `want` first differ
        self.region, _blocks, _keep = build(succs, style)

    def blocks(self) -> list[Any]:
        return list(self.region.blocks)

    def graph(self) -> Succs:
        bl = self.blocks()
        idx = {id(b): i for i, b in enumerate(bl)}
        return tuple(tuple(idx.get(id(t), len(bl)) for t in (b.last_op.successors if b.last_op is not None else ()))
                     for b in bl)

    def wanted(self) -> Succs:
        return tuple(tuple(x) for x in self.want)


# the public mutation API a kind of edit goes through (call_site of a defect that an edit introduces)
EDIT_SITE = {
    "retarget": "xdsl.ir.core.OpSuccessors.__setitem__",
    "setsuccs": "xdsl.ir.core.Operation.successors",
    "newterm": "xdsl.ir.core.Block.erase_op",
    "addblock": "xdsl.ir.core.Region.insert_block",
    "eraseblock": "xdsl.ir.core.Region.erase_block",
    "moveblock": "xdsl.ir.core.Region.detach_block",
}


def set_term(block, tg, kind: str) -> None:
    for op in reversed(list(block.ops)):
        block.erase_op(op)
    add_term(block, tg, kind)


def apply_step(lives: list[Live | None], st: Sequence[Any], style: str) -> None:
    """the edit on the real region (public API) and, independently, on the lists `want` / `kinds`"""
    from xdsl.ir import Block

    kind, r = st[0], st[1] % len(lives)
    if kind == "rebuild":
        lives[r] = None
        gc.collect()
        lives[r] = Live(st[2], style)
        return
    live = lives[r]
    assert live is not None
    bl = live.blocks()
    want, kinds = live.want, live.kinds
    n = len(want)
    if n == 0:
        return
    if len(bl) != n:
        return  # the region lost or gained a block: reported at the next query, further edits are meaningless
    if kind == "retarget":
        b = st[2] % n
        deg = len(want[b])
        if deg:
            k = st[3] % (2 * deg) - deg if len(st) > 5 and st[5] else st[3] % deg  # st[5]: index counted from the end
            bl[b].last_op.successors[k] = bl[st[4] % n]
            want[b][k] = st[4] % n
    elif kind == "setsuccs":
        b = st[2] % n
        ts = list(st[3])
        if not has_op(kinds[b], len(want[b])):
            return
        if kinds[b] == "cf":  # cf.br / cf.cond_br have a fixed number of successors
            k = len(want[b])
            ts = [ts[i % len(ts)] for i in range(k)] if ts else [t for t in range(k)]
        bl[b].last_op.successors = [bl[t % n] for t in ts]
        want[b] = [t % n for t in ts]
    elif kind == "newterm":
        b = st[2] % n
        kinds[b] = kind_of(style, b)
        set_term(bl[b], [bl[t % n] for t in st[3]], kinds[b])
        want[b] = [t % n for t in st[3]]
    elif kind == "addblock":
        pos = st[2] % (n + 1)
        nb = Block()
        live.region.insert_block(nb, pos)
        bl = live.blocks()
        add_term(nb, [bl[t % (n + 1)] for t in st[3]], kind_of(style, pos))
        for ss in want:
            ss[:] = [t + (t >= pos) for t in ss]
        want.insert(pos, [t % (n + 1) for t in st[3]])
        kinds.insert(pos, kind_of(style, pos))
    elif kind == "eraseblock":
        if n < 2:
            return
        b = st[2] % n
        t = st[3] % n
        if t == b:
            t = (b + 1) % n
        for p in bl:
            op = p.last_op
            if op is not None:
                for k, x in enumerate(list(op.successors)):
                    if x is bl[b]:
                        op.successors[k] = bl[t]
        live.region.erase_block(bl[b])
        del want[b], kinds[b]
        for ss in want:
            ss[:] = [(t if x == b else x) for x in ss]
            ss[:] = [x - (x > b) for x in ss]
    elif kind == "moveblock":
        b, pos = st[2] % n, st[3] % n
        blk = live.region.detach_block(bl[b])
        live.region.insert_block(blk, pos)
        order = list(range(n))
        order.pop(b)
        order.insert(pos, b)
        new = {old: i for i, old in enumerate(order)}
        moved = [[new[x] for x in want[old]] for old in order]
        live.kinds[:] = [kinds[old] for old in order]
        want[:] = moved
    else:
        raise core.InfraError(f"C24: unknown history step {st!r}")


def asked_pairs(n: int, g, before, i: int):
    """pairs (a, b) asked of the module-level functions (each call rebuilds the analysis): all of them on
    small regions; on larger ones those whose expected answer changed since the region was last asked,
    plus a fifth of the others (which fifth rotates with the step)."""
    if n <= 4:
        return None
    now = ref_dom_full(g)
    old = ref_dom_full(before) if before is not None and len(before) == n else None
    return {(a, b) for b in range(n) for a in range(n)
            if (a * n + b + i) % 5 == 0 or (old is not None and (a in now[b]) != (a in old[b]))}


def _lists(x):
    return [_lists(y) for y in x] if isinstance(x, (list, tuple)) else x


def hist_case(regions, style: str, steps) -> dict:
    return {"function": "history", "regions": _lists(regions), "style": style, "steps": _lists(steps)}


def run_history(case: dict, trace: list | None = None):
    """Executes the history on real regions.  Returns (bad, info) for the first query step at which the
    property fails (bad as in dom_oracle / po_oracle; info = {step, region, graph, impl, expected}), else
    (None, None).  The reference graph of a query is the control flow REQUESTED so far (`Live.want`); the
    successor lists read back from the region are what the Lean model is run on (`trace`) and decide how a
    failure is named.  `trace` collects (kind, graph, observation line, step) of every query for the
    correspondence with the model; trace entries `("edit", changed_graph, changed_dominance)` for statistics."""
    style = case["style"]
    lives: list[Live | None] = [Live(g, style) for g in case["regions"]]
    asked: list[list[Succs]] = [[] for _ in lives]
    for i, st in enumerate(case["steps"]):
        if st[0] != "q":
            r = st[1] % len(lives)
            try:
                apply_step(lives, st, style)
            except core.InfraError:
                raise
            except Exception as e:  # noqa: BLE001
                return ((EDIT_SITE.get(st[0], "xdsl.ir.core.Region"), "exception in an edit of the control flow of a well-formed region",
                         f"the edit {st} raised {core.exc_name(e)}"),
                        {"step": i, "region": r, "graph": [], "impl": "raise " + core.exc_name(e),
                         "expected": "the edit is carried out"})
            if st[0] == "rebuild":
                asked[r] = []
            else:
                live = lives[r]
                if live is not None and live.diverged is None and live.graph() != live.wanted():
                    live.diverged = (i, st[0])
            continue
        r = st[1] % len(lives)
        live = lives[r]
        assert live is not None
        bl = live.blocks()
        got = live.graph()      # what the operations store
        g = live.wanted()       # what the client built
        n = len(g)
        before = asked[r][-1] if asked[r] else None
        if trace is not None and before is not None:
            trace.append(("edit", before != g, len(before) != n or ref_dom_full(before) != ref_dom_full(g)))
        if len(bl) != n:
            at, what = live.diverged or (i, "edit")
            return ((EDIT_SITE.get(what, "xdsl.ir.core.Region"), "the region has another number of blocks than the edits requested",
                     f"after step {at} ({what}) the region has {len(bl)} blocks, the edits requested {n}"),
                    {"step": i, "region": r, "graph": [list(x) for x in g], "impl": f"{len(bl)} blocks", "expected": f"{n} blocks"})
        pairs = asked_pairs(n, g, before, i)
        line, dom, sdom, ml = observe_dom(live.region, bl, module_level=True, pairs=pairs)
        if trace is not None:
            trace.append(("dominance", got, line, i))
        bad = dom_exception(line) if dom is None else dom_oracle(g, dom, sdom, ml, pairs)
        pline = out = None
        if bad is None and n >= 1 and style != "op":
            pline, out = observe_po(bl[0], bl)
            if trace is not None:
                trace.append(("post_order", got, pline, i))
            bad = po_exception(pline) if out is None or pline.startswith("raise") else po_oracle(g, out)
        if bad is not None:
            is_po = pline is not None
            expected = ("any duplicate-free order of " + str(sorted(reach(g))) + " ending with 0" if is_po else
                        "d " + show_rel(ref_dom_full(g)) + " (rows of unreachable blocks are not demanded)")
            impl = pline if is_po else (line if dom is None else {"DominanceInfo": line, **{k: v[1] for k, v in (ml or {}).items()}})
            if got != g:
                # the answers fit the successor lists the operations store, but those are not the control flow
                # that was requested: the defect is in the edit, and is named so
                at, what = live.diverged or (i, "edit")
                stored_ok = (dom is not None and dom_oracle(got, dom, sdom, ml, pairs) is None) if not is_po else \
                    (out is not None and not pline.startswith("raise") and po_oracle(got, out) is None)
                if stored_ok:
                    bad = (EDIT_SITE.get(what, bad[0]),
                           f"{bad[1]}: after `{what}` the region stores other successor lists than the edits requested",
                           f"{bad[2]} (requested control flow {[list(x) for x in g]}, stored after step {at} "
                           f"[{what}]: {[list(x) for x in got]})")
            elif any(st[0] != "q" for st in case["steps"][:i]) and not is_po:
                # the same control flow in a region built from scratch, asked the same way: if that is answered
                # correctly the defect is one of histories (something outlives an edit), and is named so
                region2, blocks2, _k = build(g, style, live.kinds)
                l2, d2, s2, m2 = observe_dom(region2, blocks2, module_level=True, pairs=pairs)
                if d2 is not None and dom_oracle(g, d2, s2, m2, pairs) is None:
                    bad = (bad[0], bad[1] + " after an edit of the region (a region built from scratch with the same "
                           "control flow is answered correctly)", bad[2])
            return bad, {"step": i, "region": r, "graph": [list(x) for x in g], "impl": impl, "expected": expected}
        asked[r].append(g)
    return None, None


def shrink_history(case: dict, bad) -> dict:
    def fails(c) -> bool:
        try:
            b, _ = run_history(c)
        except core.InfraError:
            raise
        return b is not None and b[:2] == bad[:2]

    steps = core.shrink_list(list(case["steps"]), lambda ss: fails({**case, "steps": ss}), max_steps=300)
    cur = {**case, "steps": steps}
    # one region is enough?
    if len(cur["regions"]) > 1:
        for keep in range(len(cur["regions"])):
            cand = {**cur, "regions": [cur["regions"][keep]]}
            if fails(cand):
                cur = cand
                break
    # fewer edges / blocks in the initial graphs (steps are modular: they stay applicable)
    for k in range(len(cur["regions"])):
        def with_graph(gk, k=k):
            return {**cur, "regions": [([list(x) for x in gk] if j == k else g) for j, g in enumerate(cur["regions"])]}
        small = shrink_graph(cur["regions"][k], lambda c: len(c) >= 1 and fails(with_graph(c)))
        cur = with_graph(small)
    return cur


def enum_edit_histories(n: int, styles: Sequence[str], from_end: bool = False) -> Iterator[dict]:
    """every graph with n blocks x every single-edge retarget that changes it: ask, retarget, ask
    (from_end: the edge is addressed by its index counted from the end of the successor list)"""
    for j, g in enumerate(enum_graphs(n)):
        style = styles[j % len(styles)]
        for b in range(n):
            for k in range(len(g[b])):
                for t in range(n):
                    if t != g[b][k]:
                        yield hist_case([g], style, [["q", 0], ["retarget", 0, b, k, t] + ([1] if from_end else []), ["q", 0]])


def enum_newterm_histories(n: int, styles: Sequence[str]) -> Iterator[dict]:
    """every graph with n blocks x every replacement of one block's terminator: ask, replace, ask"""
    opts = [ss for d in range(3) for ss in itertools.product(range(n), repeat=d)]
    for j, g in enumerate(enum_graphs(n)):
        style = styles[j % len(styles)]
        for b in range(n):
            for ss in opts:
                if ss != g[b]:
                    yield hist_case([g], style, [["q", 0], ["newterm", 0, b, list(ss)], ["q", 0]])


def random_history(rng, style: str) -> dict:
    def graph() -> Succs:
        x = rng.random()
        if x < 0.45:
            return structured_graph(rng, rng.randint(4, 8))
        n = rng.randint(3, 8)
        return tuple(tuple(rng.randrange(n) for _ in range(rng.choice([0, 1, 1, 2, 2, 2, 3]))) for _ in range(n))

    regions = [graph() for _ in range(1 if rng.random() < 0.7 else 2)]
    nr = len(regions)
    steps: list[list[Any]] = [["q", r] for r in range(nr)]
    big = 16

    def targets() -> list[int]:
        return [rng.randrange(big) for _ in range(rng.choice([0, 1, 1, 2, 2, 3]))]

    for _ in range(rng.randint(2, 7)):
        r = rng.randrange(nr)
        x = rng.random()
        if x < 0.45:
            st = ["retarget", r, rng.randrange(big), rng.randrange(6), rng.randrange(big)]
            if rng.random() < 0.3:
                st += [1]  # the edge is addressed by its index counted from the end
        elif x < 0.55:
            st = ["setsuccs", r, rng.randrange(big), targets()]
        elif x < 0.67:
            st = ["newterm", r, rng.randrange(big), targets()]
        elif x < 0.75:
            st = ["addblock", r, rng.randrange(big), targets()]
        elif x < 0.83:
            st = ["eraseblock", r, rng.randrange(big), rng.randrange(big)]
        elif x < 0.96:
            st = ["moveblock", r, rng.randrange(big), rng.randrange(big)]
        else:
            st = ["rebuild", r, [list(x) for x in graph()]]
        steps.append(st)
        if rng.random() < 0.7:
            steps.append(["q", r])
        if nr > 1 and rng.random() < 0.3:
            steps.append(["q", 1 - r])
    steps.extend(["q", r] for r in range(nr))
    return hist_case(regions, style, steps)


def run_histories(ctx: core.Ctx, cases: Iterator[dict] | Sequence[dict], label: str, reserve_s: float = 15.0) -> int:
    """returns the number of histories executed (stops when the time budget is nearly used up)"""
    dom_t: list[tuple[Succs, str, dict, int]] = []
    po_t: list[tuple[Succs, str, dict, int]] = []
    done = failed = 0
    for case in cases:
        if done % 200 == 0 and ctx.time_left() < reserve_s:
            ctx.extra.setdefault("histories_truncated", {})[label] = done
            break
        if HANGS["n"] > MAX_HANGS:
            ctx.extra["stopped_after_non_terminations"] = {"family": label, "count": HANGS["n"]}
            break
        if failed >= 60:  # a broken tree fails thousands of histories: the smallest of 60 is evidence enough
            ctx.extra.setdefault("histories_stopped_after_failures", {})[label] = done
            break
        done += 1
        trace: list[Any] = []
        bad, info = run_history(case, trace)
        nq = 0
        changed = False
        for t in trace:
            if t[0] == "edit":
                ctx.count(f"{label}.asked_again")
                if t[1]:
                    ctx.count(f"{label}.asked_again_after_the_graph_changed")
                if t[2]:
                    ctx.count(f"{label}.asked_again_after_dominance_changed")
                    changed = True
            else:
                nq += 1
                ctx.ev()
                (dom_t if t[0] == "dominance" else po_t).append((t[1], t[2], case, t[3]))
        ctx.count(f"{label}.histories")
        ctx.count(f"{label}.style.{case['style']}")
        for st in case["steps"]:
            ctx.count(f"{label}.step.{st[0]}")
        if changed:
            ctx.nt(json_key(case))
        if bad is not None:
            failed += 1
            small, b2, i2 = case, bad, info
            if may_shrink(bad):
                small = without_retry(lambda: shrink_history(case, bad))
                b2, i2 = run_history(small)
                if b2 is None or b2[:2] != bad[:2]:
                    small, b2, i2 = case, bad, info
            b2 = confirmed(b2, lambda: run_history(small)[0])
            if b2 is not None:
                ctx.fail(b2[0], b2[1], small, f"at step {i2['step']} (graph of the region then: {i2['graph']}): {b2[2]}",
                         i2["impl"], i2["expected"])
    for name, tr, mk in (("dominance", dom_t, dom_line), ("post_order", po_t, po_line)):
        if not tr:
            continue
        model = ctx.model(name, [mk(t[0]) for t in tr])
        obs = [t[1] for t in tr]
        i = core.diff_streams(obs, model)
        if i is not None:
            ctx.mismatch(f"correspondence:C24/{name}", {**tr[i][2], "at_step": tr[i][3]}, obs[i], model[i],
                         f"implementation and Lean model disagree on the graph {[list(x) for x in tr[i][0]]} the region has at "
                         f"step {tr[i][3]} of the history")
    return done


def json_key(case: dict) -> str:
    return json.dumps(case, sort_keys=True)


def run_malformed(ctx: core.Ctx, count: int) -> None:
    """successor outside the region: DominanceInfo raises KeyError; protocol garbage: bad-op"""
    lines, obs, cs = [], [], []
    for _ in range(count):
        n = ctx.rng.randint(1, 4)
        g = [tuple(ctx.rng.randrange(n + 2) for _ in range(ctx.rng.choice([0, 1, 2]))) for _ in range(n)]
        if all(s < n for ss in g for s in ss):
            g[ctx.rng.randrange(n)] = (n + ctx.rng.randrange(2),)
        line, *_ = dom_impl(g, "term")
        ctx.ev()
        ctx.count("malformed.foreign_successor")
        lines.append(dom_line(g)); obs.append(line); cs.append(g)
    model = ctx.model("dominance", lines)
    i = core.diff_streams(obs, model)
    if i is not None:
        ctx.mismatch("correspondence:C24/dominance", as_case("dominance", cs[i], "term"), obs[i], model[i])
    junk = ["", "dom x", "po", "po 0 1,", "dom 1,,2 -", "frob 1 2", "po 7"]
    for name in ("dominance", "post_order"):
        out = ctx.model(name, junk)
        if any(o != "bad-op" for o in out):
            ctx.mismatch(f"correspondence:C24/{name}", {"lines": junk}, ["bad-op"] * len(junk), out,
                         "model accepts a malformed protocol line")
        ctx.count("malformed.protocol_lines", len(junk))


def run(ctx: core.Ctx) -> None:
    import time
    t0 = [time.time()]
    stage: dict[str, float] = {}

    def lap(name: str) -> None:
        now = time.time()
        stage[name] = round(stage.get(name, 0.0) + now - t0[0], 1)
        t0[0] = now

    ctx.extra["stage_wall_s"] = stage
    ctx.lean()
    lap("lean")
    quick = ctx.tier == "quick"
    bound = 3 if quick else 4
    nrandom = 3000 if quick else 25000
    cases: list[tuple[Succs, str]] = [((), "term")]
    for n in range(1, bound + 1):
        for g in enum_graphs(n):
            if n <= 3:
                cases.extend(((g, "cf"), (g, "term"), (g, "op"), (g, "unreg")))
                if n >= 2:
                    cases.append((g, "mix"))
            else:
                cases.extend(((g, "cf"), (g, "term")))
    run_cases(ctx, cases, "exhaustive", module_level_upto=3)
    lap("exhaustive_graphs")
    # histories, small scope: every graph x every single edit of one edge / one terminator
    styles = STYLES
    nh = 0
    rot = [styles[k:] + styles[:k] for k in range(len(styles))]  # every graph in every style
    nh += run_histories(ctx, itertools.chain.from_iterable(
        enum_edit_histories(n, st, from_end=fe) for n in (1, 2) for st in rot for fe in (False, True)),
        "history_exhaustive_retarget")
    nh += run_histories(ctx, itertools.chain.from_iterable(enum_newterm_histories(n, st) for n in (1, 2) for st in rot[:2]),
                        "history_exhaustive_newterm")
    lap("exhaustive_histories_n<=2")
    nh += run_histories(ctx, enum_edit_histories(3, styles), "history_exhaustive_retarget",
                        reserve_s=ctx.budget_s * (0.55 if quick else 0.5))
    lap("exhaustive_histories_n=3")
    if not quick:
        nh += run_histories(ctx, enum_edit_histories(3, styles[2:] + styles[:2], from_end=True), "history_exhaustive_retarget",
                            reserve_s=ctx.budget_s * 0.45)
        nh += run_histories(ctx, enum_newterm_histories(3, styles), "history_exhaustive_newterm", reserve_s=ctx.budget_s * 0.4)
    # random: a third of the graphs are structured CFGs listed in a shuffled order
    rnd: list[tuple[Succs, str]] = []
    for i in range(nrandom):
        g = structured_graph(ctx.rng) if i % 3 == 2 else random_graph(ctx.rng)
        rnd.append((g, STYLES[i % len(STYLES)]))
    # a handful through the module-level entry points as well
    run_cases(ctx, rnd[:150], "random", module_level_upto=14)
    for k in range(150, len(rnd), 5000):
        if ctx.time_left() < 20:
            ctx.extra["random_truncated_at"] = k
            break
        run_cases(ctx, rnd[k:k + 5000], "random", module_level_upto=0)
    lap("random_graphs")
    nrh = 600 if quick else 8000
    hs = [random_history(ctx.rng, styles[i % len(styles)]) for i in range(nrh)]
    nh += run_histories(ctx, hs, "history_random", reserve_s=10)
    lap("random_histories")
    run_malformed(ctx, 60)
    ctx.exhaustive = True
    ctx.extra["exhaustive_scope"] = (f"all CFGs with <= {bound} blocks, out-degree <= 2 (ordered successor lists with "
                                     "duplicates and self-loops; the enumeration is over labelled graphs, i.e. every order "
                                     "of the block list), every construction style; every such CFG with <= 2 blocks (and those "
                                     "with 3 as far as the budget allows, see histories_truncated) x every single retargeted "
                                     "edge / replaced terminator as ask-edit-ask history; random beyond")
    ctx.extra["histories_run"] = nh
    ctx.extra["entry_points"] = {"DominanceInfo": ["dominates", "strictly_dominates"] + [m[0] for m in entry_points()[0]],
                                 "module": [f[0] for f in entry_points()[1]]}
    ctx.extra["watchdog"] = {"cpu_s": WATCHDOG_CPU_S, "non_terminations": HANGS["n"]}
    mid = cases[len(cases) // 2]
    ctx.sample({**as_case("dominance", *mid), "impl": dom_impl(*mid)[0]})
    ctx.sample({**as_case("post_order", mid[0], "cf"), "impl": po_impl(mid[0], "cf")[0]})
    ctx.sample({**as_case("dominance", *rnd[0]), "impl": dom_impl(*rnd[0])[0]})
    ctx.sample({**as_case("post_order", rnd[1][0], "term"), "impl": po_impl(rnd[1][0], "term")[0]})
    ctx.sample(hs[0])


def replay_history(ctx: core.Ctx, case: dict) -> int:
    print("regions (successors per block, block 0 = entry), style", case["style"])
    for r, g in enumerate(case["regions"]):
        print(f"  region {r}: {g}")
    print("steps:")
    for i, st in enumerate(case["steps"]):
        print(f"  {i}: {st}")
    trace: list[Any] = []
    bad, info = run_history(case, trace)
    rc = 0
    for t in trace:
        if t[0] == "edit":
            continue
        kind, g, line, i = t
        model = ctx.model(kind, [(dom_line if kind == "dominance" else po_line)(g)])[0]
        print(f"step {i}: the region's graph is {[list(x) for x in g]}")
        print(f"   {kind:10} implementation: {line}")
        print(f"   {kind:10} lean model    : {model}")
        if line != model:
            rc = 1
    if bad is not None:
        print(f"other entry points at step {info['step']}: {info['impl']}")
        print(f"expected: {info['expected']}")
        print(f"property FAILS on this case: {bad[0]} [{bad[1]}]: at step {info['step']}: {bad[2]}")
        return 1
    print("property holds on this case" + ("" if rc == 0 else " (but implementation and model differ)"))
    return rc


def replay(ctx: core.Ctx, body: dict) -> int:
    case = body["case"]
    if "lines" in case:
        for name in ("dominance", "post_order"):
            print(name, "model:", ctx.model(name, case["lines"]))
        return 0
    if case.get("function") == "history":
        return replay_history(ctx, case)
    succs = tuple(tuple(s) for s in case["succs"])
    style = case.get("style", "term")
    n = len(succs)
    bad = None
    if case["function"] == "dominance":
        line, dom, sdom, ml = dom_impl(succs, style, module_level=True)
        model = ctx.model("dominance", [dom_line(succs)])[0]
        wf = all(s < n for ss in succs for s in ss)
        ref = ref_dom(succs) if wf else {}
        print("graph (successors per block, block 0 = entry):", [list(s) for s in succs], "style", style)
        print("implementation :", line)
        print("lean model     :", model)
        print("path-based dominators of reachable blocks:", ref)
        if dom is not None and wf:
            bad = dom_oracle(succs, dom, sdom, ml)
        elif dom is None and wf:
            bad = dom_exception(line)
    else:
        line, out = po_impl(succs, style)
        model = ctx.model("post_order", [po_line(succs)])[0]
        print("graph (successors per block, block 0 = entry):", [list(s) for s in succs], "style", style)
        print("implementation :", line)
        print("lean model     :", model)
        print("reachable from entry:", sorted(reach(succs)))
        bad = po_oracle(succs, out) if out is not None and not line.startswith("raise") else po_exception(line)
    if bad is not None:
        print(f"property FAILS on this case: {bad[0]} [{bad[1]}]: {bad[2]}")
        return 1
    print("property holds on this case" + ("" if line == model else " (but implementation and model differ)"))
    return 0 if line == model else 1
