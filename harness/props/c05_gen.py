"""C05 generator: IRDL operation classes defined at run time with a generated `assembly_format`,
random instances of them, the real print/parse adapter and the encoding for the Lean model
`decl_format` (XdslModel/DeclFormat.lean).

A *spec* is JSON: {"defs": {...}, "fmt": [entry…], "opts": {...}}; an entry is a directive dict with
an "item" id (entries of one item are removed together by the shrinker).  Directive dicts:
  {"k":"kw","s":..} {"k":"punct","s":..} {"k":"ws","s":" "|"\\n"|""}
  {"k":"operand","n":name} {"k":"type","of":"operand"|"result","n":name}
  {"k":"operands"} {"k":"type_operands"} {"k":"type_results"} {"k":"functype","ins":T,"outs":T}
        (T = ["operands"] | ["results"] | ["operand",name] | ["result",name])
  {"k":"attr","n":name} {"k":"qattr","n":name} {"k":"attrdict","kw":bool}
  {"k":"region","n":name} {"k":"succ","n":name}
  {"k":"group","anchor":i,"then":[directive…],"else":[directive…]}   (anchor = index into "then")
"""
from __future__ import annotations

import copy
import re
from io import StringIO
from typing import Any

from props import c05_rt as R

KINDS = ("single", "opt", "var")
SIMPLE_TYPES = ["i32", "i64", "index", "f32"]
COMPLEX_TYPES = ["memref<2x?xf32>", "tuple<i32, index>", "(i32) -> i64", "vector<4xi8>", "() -> ()",
                 '!test.type<"a">', "tensor<?xi1>", "complex<f32>", "(i32, i32) -> (i32, f32)"]
KEYWORDS = ["from", "to", "step", "at", "with", "kw", "into"]
RISKY_KEYWORDS = ["true", "unit", "i32", "index", "dense", "attributes", "loc", "array", "f32", "none"]
PUNCT = [",", ":", "->", "(", ")", "[", "]", "=", "<", ">", "{", "}", "+", "*", "|", "?", "::", "..."]
SAFE_PUNCT = [",", ":", "->", "=", "(", ")", "[", "]"]

# attribute value kinds: name → (constraint factory, values)
ATTR_KINDS = ("any", "i64", "intany", "bool", "str", "sym", "dense", "f32attr", "unit", "anyhard")


def attr_values(kind: str) -> list[Any]:
    from xdsl.dialects.builtin import (ArrayAttr, BoolAttr, DenseArrayBase, DictionaryAttr, FloatAttr,
                                       IntegerAttr, StringAttr, SymbolRefAttr, UnitAttr, f32, i1, i32, i64,
                                       IndexType)

    if kind == "any":
        return [IntegerAttr(7, i32), StringAttr("hello"), FloatAttr(1.5, f32), IntegerAttr(0, i64)]
    if kind == "anyhard":
        return [ArrayAttr([IntegerAttr(1, i32)]), DictionaryAttr({"k": IntegerAttr(1, i32)}), i32, UnitAttr(),
                SymbolRefAttr("f"), ArrayAttr([]), DictionaryAttr({}), IntegerAttr(-1, i64), StringAttr(""),
                BoolAttr.from_bool(True)]
    if kind == "i64":
        return [IntegerAttr(0, i64), IntegerAttr(1, i64), IntegerAttr(-3, i64), IntegerAttr(42, i64)]
    if kind == "intany":
        return [IntegerAttr(5, i32), IntegerAttr(5, i64), IntegerAttr(1, IndexType()), IntegerAttr(-1, i1)]
    if kind == "bool":
        return [BoolAttr.from_bool(False), BoolAttr.from_bool(True)]
    if kind == "str":
        return [StringAttr("s"), StringAttr(""), StringAttr('q"\\n')]
    if kind == "sym":
        return [StringAttr("foo"), StringAttr("bar baz"), StringAttr("x")]
    if kind == "dense":
        return [DenseArrayBase.from_list(i64, [1, 2]), DenseArrayBase.from_list(i64, []), DenseArrayBase.from_list(i64, [-1])]
    if kind == "f32attr":
        return [FloatAttr(0.0, f32), FloatAttr(-2.5, f32), FloatAttr(1e10, f32)]
    if kind == "unit":
        return [UnitAttr()]
    raise ValueError(kind)


def attr_constraint(kind: str):
    from xdsl.dialects.builtin import (I64, BoolAttr, DenseArrayBase, Float32Type, FloatAttr, IntegerAttr,
                                       StringAttr, SymbolNameConstraint, UnitAttr, i64)
    from xdsl.irdl import AnyAttr

    if kind in ("any", "anyhard"):
        return AnyAttr()
    if kind == "i64":
        return IntegerAttr[I64]
    if kind == "intany":
        return IntegerAttr
    if kind == "bool":
        return BoolAttr
    if kind == "str":
        return StringAttr
    if kind == "sym":
        return SymbolNameConstraint()
    if kind == "dense":
        return DenseArrayBase.constr(i64)
    if kind == "f32attr":
        return FloatAttr[Float32Type]
    if kind == "unit":
        return UnitAttr
    raise ValueError(kind)


def parse_type(text: str):
    from xdsl.context import Context
    from xdsl.dialects.builtin import Builtin
    from xdsl.dialects.test import Test
    from xdsl.parser import Parser

    c = Context()
    c.load_dialect(Builtin)
    c.load_dialect(Test)
    return Parser(c, text).parse_type()


# ---------------------------------------------------------------------------------------------
# rendering a format
# ---------------------------------------------------------------------------------------------

def render_typeable(t) -> str:
    if t[0] == "operands":
        return "operands"
    if t[0] == "results":
        return "results"
    return "$" + t[1]


def render_dir(d: dict[str, Any]) -> str:
    k = d["k"]
    if k == "kw" or k == "punct":
        return "`" + d["s"] + "`"
    if k == "ws":
        return "`\\n`" if d["s"] == "\n" else "`" + d["s"] + "`"
    if k in ("operand", "attr", "region", "succ"):
        return "$" + d["n"]
    if k == "qattr":
        return "qualified($" + d["n"] + ")"
    if k == "type":
        return "type($" + d["n"] + ")"
    if k == "operands":
        return "operands"
    if k == "type_operands":
        return "type(operands)"
    if k == "type_results":
        return "type(results)"
    if k == "functype":
        return "functional-type(" + render_typeable(d["ins"]) + ", " + render_typeable(d["outs"]) + ")"
    if k == "attrdict":
        return "attr-dict-with-keyword" if d["kw"] else "attr-dict"
    if k == "group":
        parts = []
        for i, e in enumerate(d["then"]):
            parts.append(render_dir(e) + ("^" if i == d["anchor"] else ""))
        s = "(" + " ".join(parts) + ")"
        if d.get("else"):
            s += " : (" + " ".join(render_dir(e) for e in d["else"]) + ")"
        return s + "?"
    raise ValueError(k)


def render_fmt(fmt: list[dict[str, Any]]) -> str:
    return " ".join(render_dir(d) for d in fmt)


# ---------------------------------------------------------------------------------------------
# building the op class
# ---------------------------------------------------------------------------------------------

_COUNTER = [0]


class Rejected(Exception):
    """the format compiler (or the op definition) refuses the spec"""


def make_op(spec: dict[str, Any], with_format: bool = True):
    from xdsl.dialects.builtin import IndexType, i32
    from xdsl.irdl import (AnyAttr, AttrSizedOperandSegments, AttrSizedResultSegments, IRDLOperation,
                           ParsePropInAttrDict, SameVariadicOperandSize, SameVariadicResultSize, VarConstraint,
                           attr_def, irdl_op_definition, operand_def, opt_attr_def, opt_operand_def, opt_prop_def,
                           opt_region_def, opt_result_def, opt_successor_def, prop_def, region_def, result_def,
                           successor_def, traits_def, var_operand_def, var_region_def, var_result_def,
                           var_successor_def)
    from xdsl.traits import IsTerminator
    from xdsl.utils.exceptions import PyRDLError

    defs = spec["defs"]
    _COUNTER[0] += 1
    ns: dict[str, Any] = {"name": "gen.op"}
    tvar = VarConstraint("T", AnyAttr())

    def constr(ty: str):
        if ty == "any":
            return AnyAttr()
        if ty == "T":
            return tvar
        return parse_type(ty)

    for n, kind, ty in defs.get("operands", []):
        ns[n] = {"single": operand_def, "opt": opt_operand_def, "var": var_operand_def}[kind](constr(ty))
    for n, kind, ty in defs.get("results", []):
        ns[n] = {"single": result_def, "opt": opt_result_def, "var": var_result_def}[kind](constr(ty))
    for n, kind in defs.get("regions", []):
        ns[n] = {"single": region_def, "opt": opt_region_def, "var": var_region_def}[kind]()
    for n, kind in defs.get("succs", []):
        ns[n] = {"single": successor_def, "opt": opt_successor_def, "var": var_successor_def}[kind]()
    for n, where, akind, flavour, dflt in defs.get("attrs", []):
        c = attr_constraint(akind)
        dv = attr_values(akind)[dflt] if dflt is not None else None
        if where == "prop":
            ns[n] = (opt_prop_def if flavour == "opt" else prop_def)(c, default_value=dv)
        else:
            ns[n] = (opt_attr_def if flavour == "opt" else attr_def)(c, default_value=dv)
    opts = []
    o = spec.get("opts", {})
    nvo = sum(1 for _, k, _ in defs.get("operands", []) if k != "single")
    nvr = sum(1 for _, k, _ in defs.get("results", []) if k != "single")
    # `force_seg`: the segment-size option although one optional/variadic definition would not need it
    force = bool(o.get("force_seg"))
    if nvo > 1 or (force and nvo == 1):
        opts.append(SameVariadicOperandSize() if o.get("same_size") and nvo > 1 else AttrSizedOperandSegments(as_property=o.get("seg_prop", True) or force))
    if nvr > 1 or (force and nvr == 1):
        # the result segment attribute is not reserved by the format compiler; keep it a property so that
        # it never shows up in the printed attribute dictionary
        opts.append(SameVariadicResultSize() if o.get("same_size") and nvr > 1 else AttrSizedResultSegments(as_property=True))
    if o.get("prop_in_dict"):
        opts.append(ParsePropInAttrDict())
    ns["irdl_options"] = tuple(opts)
    if defs.get("succs"):
        ns["traits"] = traits_def(IsTerminator())
    if with_format:
        ns["assembly_format"] = render_fmt(spec["fmt"])
    try:
        return irdl_op_definition(type(f"GenOp{_COUNTER[0]}", (IRDLOperation,), ns))
    except PyRDLError as e:
        raise Rejected(str(e)[:300]) from e


def context_factory(cls):
    def mk():
        from xdsl.context import Context
        from xdsl.dialects.builtin import Builtin
        from xdsl.dialects.test import Test

        c = Context()
        c.load_dialect(Builtin)
        c.load_dialect(Test)
        c.load_op(cls)
        return c

    return mk


# ---------------------------------------------------------------------------------------------
# instances
# ---------------------------------------------------------------------------------------------

def type_of(ref) -> Any:
    """instance type reference: int = index into SIMPLE_TYPES, str = type text"""
    return parse_type(SIMPLE_TYPES[ref] if isinstance(ref, int) else ref)


def build_module(spec: dict[str, Any], inst: dict[str, Any], cls):
    """instance → verified module.  inst: {"operands": [[valueIndex…] per def], "vtypes": [type ref per
    value], "results": [[type ref…] per def], "attrs": {name: value index | None},
    "extra": {name: int}, "regions": [[shape…] per def], "succs": [[blockIndex…] per def], "nblocks": n}"""
    from xdsl.dialects.builtin import IntegerAttr, ModuleOp, i64
    from xdsl.dialects.test import TestOp, TestTermOp
    from xdsl.ir import Block, Region

    defs = spec["defs"]
    vtypes = [type_of(t) for t in inst["vtypes"]]
    pre = []
    vals: list[Any] = []
    if vtypes:
        prod = TestOp(result_types=vtypes)
        for i, r in enumerate(prod.results):
            r.name_hint = f"v{i}"
        pre.append(prod)
        vals = list(prod.results)
    succ_blocks = []
    uniq = [0]
    for _ in range(inst.get("nblocks", 0)):
        b = Block()
        b.name_hint = f"s{len(succ_blocks)}"
        b.add_op(TestTermOp())
        succ_blocks.append(b)

    def pick(kind, lst, pool):
        xs = [pool[i] for i in lst]
        if kind == "single":
            return xs[0]
        if kind == "opt":
            return xs[0] if xs else None
        return xs

    operands = [pick(k, inst["operands"][i], vals) for i, (_, k, _) in enumerate(defs.get("operands", []))]
    rtypes = []
    for i, (_, k, _) in enumerate(defs.get("results", [])):
        ts = [type_of(t) for t in inst["results"][i]]
        rtypes.append(ts[0] if k == "single" else (ts[0] if ts else None) if k == "opt" else ts)
    regions = []
    for i, (_, k) in enumerate(defs.get("regions", [])):
        rs = [make_region(sh, uniq) for sh in inst["regions"][i]]
        regions.append(rs[0] if k == "single" else (rs[0] if rs else None) if k == "opt" else rs)
    succs = [pick(k, inst["succs"][i], succ_blocks) for i, (_, k) in enumerate(defs.get("succs", []))]
    props: dict[str, Any] = {}
    attrs: dict[str, Any] = {}
    for n, where, akind, _fl, _d in defs.get("attrs", []):
        v = inst["attrs"].get(n)
        if v is None:
            continue
        (props if where == "prop" else attrs)[n] = attr_values(akind)[v]
    for n, v in inst.get("extra", {}).items():
        attrs[n] = IntegerAttr(v, i64)
    op = cls.build(operands=operands, result_types=rtypes, properties=props, attributes=attrs,
                   regions=regions, successors=succs)
    if not succ_blocks:
        m = ModuleOp(pre + [op])
    else:
        entry = Block()
        for o in pre:
            entry.add_op(o)
        entry.add_op(op)
        m = ModuleOp([TestOp(regions=[Region([entry] + succ_blocks)])])
    return m, op, vals, succ_blocks


def make_region(shape, uniq=None):
    """shape: list of blocks, each [nargs, nops]; blocks and block arguments get unique name hints
    so that the printed text of the region does not depend on the printer's counters"""
    uniq = uniq if uniq is not None else [0]
    from xdsl.dialects.builtin import i32
    from xdsl.dialects.test import TestOp, TestTermOp
    from xdsl.ir import Block, Region

    blocks = []
    for nargs, nops in shape:
        b = Block(arg_types=[i32] * nargs)
        b.name_hint = f"rb{uniq[0]}"
        for a in b.args:
            a.name_hint = f"ra{uniq[0]}x{a.index}"
        uniq[0] += 1
        for k in range(nops):
            b.add_op(TestTermOp() if k == nops - 1 else TestOp())
        blocks.append(b)
    return Region(blocks)


# ---------------------------------------------------------------------------------------------
# random specs
# ---------------------------------------------------------------------------------------------

KW_POOL = ["from", "to", "step", "at", "with", "kw", "into", "by", "as", "of", "on", "via", "per", "until", "where",
           "using", "given", "then", "also", "plus", "minus", "over", "under", "near", "far", "left", "right", "up",
           "down", "alpha", "beta", "gamma", "delta"]
SAFE_SEP = [":", "->", "=", ")", "]", ":", "->"]
ANY_SEP = [",", "(", "[", "{", "}", "<", ">", "-", "+", "*", "|", "?", "::", "..."]


def random_spec(rng, *, model_fragment: bool, risky: float = 0.12) -> dict[str, Any]:
    """A mostly well-formed (in the sense of XdslModel.DeclFormat.wfD) spec.  `model_fragment`: only
    constructs the theorem `decl_roundtrip` covers (no type inference through a constraint variable, no
    qualified(), no `anyhard` attribute payloads; `operands`, `type(operands)`, `type(results)` and
    `functional-type` are covered).  `risky`: probability of each
    deliberately doubtful choice (ambiguous literal, bare unit attribute, …)."""
    defs: dict[str, Any] = {"operands": [], "results": [], "regions": [], "succs": [], "attrs": []}
    items: list[list[dict[str, Any]]] = []
    late: list[list[dict[str, Any]]] = []
    opts = {"seg_prop": rng.random() < 0.7, "same_size": False, "prop_in_dict": False}
    pool = list(KW_POOL)
    rng.shuffle(pool)

    def kw():
        if rng.random() < risky / 2:
            return {"k": "kw", "s": rng.choice(RISKY_KEYWORDS + KW_POOL[:4])}
        return {"k": "kw", "s": pool.pop() if pool else rng.choice(KW_POOL)}

    def sep():
        r = rng.random()
        if r < 0.5:
            return kw()
        if rng.random() < risky:
            return {"k": "punct", "s": rng.choice(ANY_SEP)}
        return {"k": "punct", "s": rng.choice(SAFE_SEP)}

    def doubt() -> bool:
        return rng.random() < risky

    use_T = (not model_fragment) and rng.random() < 0.15
    nops = rng.choice([0, 1, 1, 2, 2, 3])
    # the aggregate directives are inside the theorem's class since the C05G extension
    whole_operands = nops > 0 and rng.random() < 0.2
    typed_by_functype = rng.random() < 0.25
    for i in range(nops):
        n = "o" + str(i)
        kind = rng.choice(["single", "single", "opt", "var", "var"])
        if whole_operands and sum(1 for _, k, _ in defs["operands"] if k != "single") >= 1 and kind != "single":
            kind = "single"
        ty = "T" if use_T and kind == "single" else rng.choice(["any", "any", "any", "i32", "index"])
        defs["operands"].append([n, kind, ty])
    if whole_operands:
        items.append([{"k": "operands"}])
        if not typed_by_functype:
            late.append([sep(), {"k": "type_operands"}])
    else:
        seenT = False
        for n, kind, ty in defs["operands"]:
            var = {"k": "operand", "n": n}
            tdir = {"k": "type", "of": "operand", "n": n}
            need_type = ty == "any" or (ty == "T" and not seenT) or rng.random() < 0.3
            if ty == "T" and need_type:
                seenT = True
            if typed_by_functype:
                need_type = False
            style = rng.random()
            if kind == "single" or style < 0.35:
                items.append([sep(), var] if kind != "single" or rng.random() < 0.5 else [var])
                if need_type:
                    late.append([sep(), tdir])
            elif style < 0.7:
                then = [var]
                if rng.random() < 0.5:
                    then.insert(0, kw())
                anchor = then.index(var)
                if need_type:
                    then += [{"k": "punct", "s": ":"}, tdir]
                g = {"k": "group", "anchor": anchor, "then": then, "else": []}
                if rng.random() < 0.25:
                    g["else"] = [kw()]
                items.append([g])
            else:
                then = [{"k": "punct", "s": "["}, var, {"k": "punct", "s": "]"}]
                items.append([{"k": "group", "anchor": 1, "then": then, "else": []}])
                if need_type:
                    st = rng.random()
                    if st < 0.5:
                        late.append([{"k": "group", "anchor": 1, "then": [kw(), tdir], "else": []}])
                    elif st < 0.8:
                        g = {"k": "group", "anchor": 0, "then": [tdir, kw()], "else": []}
                        if rng.random() < 0.3:
                            g["else"] = [kw()]
                        late.append([kw(), g])
                    else:
                        late.append([sep(), tdir])
    nres = rng.choice([0, 0, 1, 1, 2])
    whole_results = nres > 0 and (typed_by_functype or rng.random() < 0.2)
    for i in range(nres):
        n = "r" + str(i)
        kind = rng.choice(["single", "single", "opt", "var"])
        if whole_results and sum(1 for _, k, _ in defs["results"] if k != "single") >= 1 and kind != "single":
            kind = "single"
        ty = "T" if use_T and kind == "single" and defs["operands"] and rng.random() < 0.7 else rng.choice(["any", "any", "i32"])
        defs["results"].append([n, kind, ty])
    if typed_by_functype and (defs["operands"] or defs["results"]):
        ins = ["operands"] if defs["operands"] and (whole_operands or rng.random() < 0.7) else (["operand", defs["operands"][0][0]] if defs["operands"] else None)
        outs = ["results"] if defs["results"] else None
        if ins is not None and outs is not None:
            late.append([sep(), {"k": "functype", "ins": ins, "outs": outs}])
            if ins[0] == "operand":
                for n, kind, ty in defs["operands"][1:]:
                    late.append([kw(), {"k": "type", "of": "operand", "n": n}])
        else:
            typed_by_functype = False
            if whole_operands:
                late.append([sep(), {"k": "type_operands"}])
            else:
                for n, kind, ty in defs["operands"]:
                    late.append([kw(), {"k": "type", "of": "operand", "n": n}])
    if defs["results"] and not (typed_by_functype and whole_results):
        if whole_results:
            late.append([{"k": "punct", "s": "->"}, {"k": "type_results"}])
        else:
            for n, kind, ty in defs["results"]:
                tdir = {"k": "type", "of": "result", "n": n}
                if ty == "T" and any(t == "T" for _, _, t in defs["operands"]):
                    continue
                if ty == "i32" and kind == "single" and rng.random() < 0.6:
                    continue
                if kind == "single" or rng.random() < 0.3:
                    late.append([rng.choice([kw(), {"k": "punct", "s": "->"}]), tdir])
                elif rng.random() < 0.7:
                    late.append([{"k": "group", "anchor": 1, "then": [rng.choice([kw(), {"k": "punct", "s": "->"}]), tdir], "else": []}])
                else:
                    late.append([kw(), {"k": "group", "anchor": 0, "then": [tdir, kw()], "else": []}])
    nattr = rng.choice([0, 1, 1, 2, 2, 3])
    typed_kinds = ("i64", "bool", "f32attr", "intany")
    for i in range(nattr):
        n = "a" + str(i)
        where = rng.choice(["prop", "prop", "attr"])
        akinds = ["any", "i64", "intany", "bool", "str", "sym", "dense", "f32attr", "unit", "unit"]
        if not model_fragment:
            akinds.append("anyhard")
        akind = rng.choice(akinds)
        flavour = rng.choice(["req", "opt", "opt", "dflt", "dflt"])
        if akind == "unit":
            flavour = "opt"
        dflt = None
        if flavour == "dflt":
            dflt = rng.randrange(len(attr_values(akind)))
            flavour = rng.choice(["req", "opt"])
        defs["attrs"].append([n, where, akind, flavour, dflt])
        var = {"k": "attr", "n": n}
        if not model_fragment and rng.random() < 0.1:
            var = {"k": "qattr", "n": n}
        if where == "prop" and rng.random() < 0.15:
            opts["prop_in_dict"] = True
            continue
        if where == "attr" and rng.random() < 0.2:
            continue  # plain attribute left to the attr-dict
        if akind == "unit":
            if not doubt():
                items.append([{"k": "group", "anchor": 1, "then": [kw(), var], "else": []}])
            else:
                items.append([var])
        elif flavour == "opt" or dflt is not None:
            st = rng.random()
            bare_ok = flavour == "opt" and (akind not in typed_kinds or var["k"] == "qattr" or doubt())
            if st < 0.6 or not (bare_ok or flavour == "req"):
                g = {"k": "group", "anchor": 1, "then": [kw(), var], "else": []}
                if rng.random() < 0.2:
                    g["else"] = [kw()]
                items.append([g])
            elif st < 0.8 and bare_ok:
                items.append([kw(), {"k": "group", "anchor": 0, "then": [var, kw()], "else": []}])
            else:
                items.append([kw(), var])
        else:
            items.append([sep(), var] if rng.random() < 0.6 else [var])
    nreg = rng.choice([0, 0, 0, 1, 1, 2])
    for i in range(nreg):
        n = "g" + str(i)
        kind = rng.choice(KINDS)
        defs["regions"].append([n, kind])
        var = {"k": "region", "n": n}
        if kind != "single" and rng.random() < 0.5:
            then = [var] if rng.random() < 0.5 else [kw(), var]
            late.append(([kw()] if len(then) == 1 else []) + [{"k": "group", "anchor": len(then) - 1, "then": then, "else": []}])
        elif kind == "single" and rng.random() < 0.2:
            late.append([kw(), {"k": "group", "anchor": 0, "then": [var, kw()], "else": []}])
        else:
            late.append([kw(), var])
    if not nreg and rng.random() < 0.2:
        for i in range(rng.choice([1, 1, 2])):
            n = "s" + str(i)
            kind = rng.choice(KINDS)
            defs["succs"].append([n, kind])
            var = {"k": "succ", "n": n}
            if kind != "single" and rng.random() < 0.5:
                items.append([{"k": "group", "anchor": 1, "then": [kw(), var], "else": []}])
            else:
                items.append([kw(), var])
    if (whole_operands or whole_results or typed_by_functype) and rng.random() < 0.12:
        opts["force_seg"] = True
    rng.shuffle(items)
    rng.shuffle(late)
    seq = items + late
    with_kw = rng.random() < 0.3 or bool(defs["regions"]) and not doubt()
    ad = [{"k": "attrdict", "kw": with_kw}]
    pos = rng.choice([len(seq), len(seq), len(items), rng.randint(0, len(seq))])
    seq.insert(pos, ad)
    fmt: list[dict[str, Any]] = []
    for item_id, it in enumerate(seq):
        ds = list(it)
        first = ds[0]["then"][0] if ds[0]["k"] == "group" else ds[0]
        if first["k"] != "kw" and not (first["k"] == "punct" and first["s"] in SAFE_SEP) and not doubt():
            ds.insert(0, kw())
        if rng.random() < 0.12:
            ds.insert(rng.randint(0, len(ds)), {"k": "ws", "s": rng.choice([" ", "\n", " "])})
        for d in ds:
            d = dict(d)
            d["item"] = item_id
            fmt.append(d)
    return {"defs": defs, "fmt": fmt, "opts": opts}


def group_slots(spec: dict[str, Any]) -> list[tuple[dict[str, Any], dict[str, Any]]]:
    return [(d, d) for d in spec["fmt"] if d["k"] == "group"]


def _def_kind(spec, cat: str, n: str) -> str:
    for e in spec["defs"].get(cat, []):
        if e[0] == n:
            return e[1]
    raise KeyError(n)


def _attr_def(spec, n: str):
    for e in spec["defs"].get("attrs", []):
        if e[0] == n:
            return e
    raise KeyError(n)


def random_instance(rng, spec: dict[str, Any], *, simple_types: bool) -> dict[str, Any] | None:
    defs = spec["defs"]
    inst: dict[str, Any] = {"operands": [], "vtypes": [], "results": [], "attrs": {}, "extra": {}, "regions": [],
                            "succs": [], "nblocks": 0}

    def rty(ty: str):
        if ty in ("any", "T"):
            if simple_types or rng.random() < 0.6:
                return rng.randrange(len(SIMPLE_TYPES))
            return rng.choice(COMPLEX_TYPES)
        return ty

    tT = rty("T")
    same = spec.get("opts", {}).get("same_size")
    for n, kind, ty in defs["operands"]:
        cnt = 1 if kind == "single" else rng.choice([0, 1]) if kind == "opt" else rng.choice([0, 0, 1, 2, 3])
        lst = []
        for _ in range(cnt):
            if inst["vtypes"] and rng.random() < 0.15 and ty == "any":
                lst.append(rng.randrange(len(inst["vtypes"])))  # reuse a value
            else:
                inst["vtypes"].append(tT if ty == "T" else rty(ty))
                lst.append(len(inst["vtypes"]) - 1)
        inst["operands"].append(lst)
    for n, kind, ty in defs["results"]:
        cnt = 1 if kind == "single" else rng.choice([0, 1]) if kind == "opt" else rng.choice([0, 0, 1, 2, 3])
        inst["results"].append([tT if ty == "T" else rty(ty) for _ in range(cnt)])
    for n, where, akind, flavour, dflt in defs["attrs"]:
        vals = attr_values(akind)
        if flavour == "opt" and rng.random() < 0.45:
            inst["attrs"][n] = None
        elif dflt is not None and rng.random() < 0.4:
            inst["attrs"][n] = dflt
        else:
            inst["attrs"][n] = rng.randrange(len(vals))
    for k in range(rng.choice([0, 0, 1, 2])):
        inst["extra"]["x" + str(k)] = rng.randint(0, 3)
    for n, kind in defs["regions"]:
        cnt = 1 if kind == "single" else rng.choice([0, 1]) if kind == "opt" else rng.choice([0, 1, 2])
        regs = []
        for _ in range(cnt):
            sh = rng.choice([[[0, 1]], [[0, 0]], [[2, 1]], [[0, 1], [1, 0]], [[1, 2]], []])
            if kind != "single" and not sh:
                sh = [[0, 1]]
            regs.append(sh)
        inst["regions"].append(regs)
    for n, kind in defs["succs"]:
        cnt = 1 if kind == "single" else rng.choice([0, 1]) if kind == "opt" else rng.choice([0, 1, 2])
        lst = []
        for _ in range(cnt):
            if inst["nblocks"] and rng.random() < 0.3:
                lst.append(rng.randrange(inst["nblocks"]))
            else:
                lst.append(inst["nblocks"])
                inst["nblocks"] += 1
        inst["succs"].append(lst)
    return make_consistent(spec, inst)


# -- group consistency: what an optional group does not print must be empty ----------------------

def _present(spec, inst, d) -> bool | None:
    """is_present of a directive on the instance (None: not a presence-carrying directive)"""
    k = d["k"]
    if k == "operand":
        i = [e[0] for e in spec["defs"]["operands"]].index(d["n"])
        return bool(inst["operands"][i])
    if k == "type":
        cat = "operands" if d["of"] == "operand" else "results"
        i = [e[0] for e in spec["defs"][cat]].index(d["n"])
        return bool(inst[cat][i])
    if k == "region":
        i = [e[0] for e in spec["defs"]["regions"]].index(d["n"])
        regs = inst["regions"][i]
        kind = spec["defs"]["regions"][i][1]
        if kind == "single":
            return bool(regs[0])
        return bool(regs)
    if k == "succ":
        i = [e[0] for e in spec["defs"]["succs"]].index(d["n"])
        return bool(inst["succs"][i])
    if k in ("attr", "qattr"):
        a = _attr_def(spec, d["n"])
        v = inst["attrs"].get(d["n"])
        return v is not None and v != a[4]
    return None


def _clear(spec, inst, d) -> bool:
    """make the construct of `d` empty/absent/default; False when impossible"""
    k = d["k"]
    if k == "operand" or (k == "type" and d["of"] == "operand"):
        i = [e[0] for e in spec["defs"]["operands"]].index(d["n"])
        if spec["defs"]["operands"][i][1] == "single":
            return False
        inst["operands"][i] = []
        return True
    if k == "type":
        i = [e[0] for e in spec["defs"]["results"]].index(d["n"])
        if spec["defs"]["results"][i][1] == "single":
            return False
        inst["results"][i] = []
        return True
    if k == "region":
        i = [e[0] for e in spec["defs"]["regions"]].index(d["n"])
        if spec["defs"]["regions"][i][1] == "single":
            inst["regions"][i] = [[]]
        else:
            inst["regions"][i] = []
        return True
    if k == "succ":
        i = [e[0] for e in spec["defs"]["succs"]].index(d["n"])
        if spec["defs"]["succs"][i][1] == "single":
            return False
        inst["succs"][i] = []
        return True
    if k in ("attr", "qattr"):
        a = _attr_def(spec, d["n"])
        if a[4] is not None:
            inst["attrs"][d["n"]] = a[4]
            return True
        if a[3] == "opt":
            inst["attrs"][d["n"]] = None
            return True
        return False
    return True


def _fill(spec, inst, d) -> bool:
    """make the construct of `d` present (needed when an element of a taken branch parses
    non-optionally); only attributes need it"""
    if d["k"] in ("attr", "qattr"):
        a = _attr_def(spec, d["n"])
        if a[3] != "opt" and a[4] is not None and inst["attrs"].get(d["n"]) == a[4]:
            # a default-valued non-optional attribute inside a taken group is parsed unconditionally
            return True
    return True


def make_consistent(spec, inst):
    for d in spec["fmt"]:
        if d["k"] != "group":
            continue
        pres = _present(spec, inst, d["then"][d["anchor"]])
        if pres is None:
            return None
        side = d["else"] if pres else d["then"]
        for e in side:
            if not _clear(spec, inst, e):
                return None
        # clearing may have changed the anchor's own construct (type($x) anchor and $x in the group)
        if _present(spec, inst, d["then"][d["anchor"]]) != pres:
            return None
    # values that are no longer used keep their producer; fine
    return inst


# ---------------------------------------------------------------------------------------------
# running one case on the real code
# ---------------------------------------------------------------------------------------------

class CaseResult:
    __slots__ = ("status", "detail", "rt", "fmt", "cls", "lines", "impl_print", "impl_parse", "tables", "prog",
                 "modelled", "typed_optional", "follow", "generic", "generic_skip", "module", "nvals", "nblocks")

    def __init__(self):
        self.status = "ok"
        self.detail = ""
        self.rt = None
        self.fmt = ""
        self.cls = None
        self.lines: list[str] = []       # protocol lines for the Lean model
        self.impl_print = ""             # whitespace-free text the real printer produced after the op name
        self.impl_parse = None           # show_op of the operation parsed back by the real parser (None: no parse)
        self.tables = None
        self.prog = None
        self.modelled = False
        self.typed_optional = False
        self.follow = "p:}"
        self.generic = None              # c05_agg.GenericCase (generic-form leg), when prepared
        self.generic_skip = ""
        self.module = None
        self.nvals = 0
        self.nblocks = 0


def find_gen_op(module):
    for o in module.walk():
        if o.name == "gen.op":
            return o
    return None


def run_case(spec, inst, cls=None, with_model: bool = True, with_generic: bool = False) -> CaseResult:
    res = CaseResult()
    res.fmt = render_fmt(spec["fmt"])
    if cls is None:
        try:
            cls = make_op(spec)
        except Rejected as e:
            res.status, res.detail = "rejected", str(e)
            return res
    res.cls = cls
    try:
        m, op, vals, blocks = build_module(spec, inst, cls)
        m.verify()
    except Exception as e:  # noqa: BLE001
        res.status, res.detail = "unverified", f"{type(e).__name__}: {str(e)[:200]}"
        return res
    rt = R.roundtrip(m, context_factory(cls))
    res.rt = rt
    if rt.stage == "generic":
        res.status, res.detail = "generic-broken", rt.detail
        return res
    if not with_model:
        return res
    # ---- encoding for the model ----
    try:
        T = Tables()
        prog = compiled_program(cls)
        res.tables, res.prog = T, prog
        fmt_line = encode_fmt(prog, T)
        # only used to name a failure: the format has an optional attribute variable of the unique-base /
        # typed flavour (its parser once ignored `is_optional`; repaired, the model makes no difference)
        res.typed_optional = has_typed_optional(prog)
        e = encode_op(op, T, vals, blocks)
        dl = defs_line(cls, T)
        res.follow = "s" if blocks else "p:}"
        res.impl_print = strip_ws(print_op_alone(op))
        if rt.parsed is not None:
            op2 = find_gen_op(rt.parsed)
            if op2 is not None:
                blk = op2.parent
                vals2 = list(blk.first_op.results) if vals and blk is not None and blk.first_op is not op2 else []
                blocks2 = list(blk.parent.blocks)[1:] if blocks and blk is not None and blk.parent is not None else []
                try:
                    e2 = encode_op(op2, T, vals2, blocks2)
                    od = cls.get_irdl_definition()
                    pd = {n: T.attr(n, d.default_value) for n, d in od.properties.items() if d.default_value is not None}
                    ad = {n: T.attr(n, d.default_value) for n, d in od.attributes.items() if d.default_value is not None}
                    res.impl_parse = show_op(e2, pd, ad)
                except Unmodelled:
                    res.impl_parse = "unencodable"
        res.lines = [dl + " " + func_types_field(T), fmt_line, op_line(e), "wf " + res.follow, "print",
                     "roundtrip " + res.follow]
        res.modelled = True
        res.module, res.nvals, res.nblocks = m, len(vals), len(blocks)
        if with_generic:
            from props import c05_agg as A

            modes = A.seg_modes(cls)
            if modes is None:
                res.generic_skip = "option"
            else:
                try:
                    res.generic = A.prepare_generic(op, cls, T, modes)
                except Exception as ex:  # noqa: BLE001
                    res.generic_skip = "prepare:" + type(ex).__name__
    except Unmodelled as e:
        res.modelled = False
        res.detail = "unmodelled: " + str(e)
    return res


def op_text(custom: str) -> str:
    """the text of the gen.op operation inside a printed module (from the op name to its end)"""
    i = custom.find("gen.op")
    return custom[i:] if i >= 0 else custom


# ---------------------------------------------------------------------------------------------
# encoding for the Lean model `decl_format`
# ---------------------------------------------------------------------------------------------

class Unmodelled(Exception):
    """the compiled format contains a directive the Lean model has no counterpart for"""


def _lit_enc(s: str) -> str:
    return {":": "COLON", "::": "COLON2"}.get(s, s)


class Tables:
    """per-case id tables: attribute values, types, region shapes (model ids are just payload)"""

    def __init__(self):
        self.attrs: dict[Any, int] = {}
        self.attr_objs: dict[int, Any] = {}
        self.types: dict[Any, int] = {}
        self.type_objs: dict[int, Any] = {}
        self.regions: dict[Any, int] = {}
        self.region_objs: dict[int, Any] = {}

    def attr(self, name: str, a) -> int:
        """ids are per (attribute name, value): the printed form of a value depends on the directive
        (a `UnitAttr` has one id whatever the name: it is never printed as a value, and the generic form
        shows it as the bare key)"""
        from xdsl.dialects.builtin import UnitAttr

        k = ("", a) if isinstance(a, UnitAttr) else (name, a)
        if k not in self.attrs:
            self.attrs[k] = len(self.attrs) + 1
            self.attr_objs[self.attrs[k]] = k
        return self.attrs[k]

    def ty(self, t) -> int:
        if t not in self.types:
            self.types[t] = len(self.types) + 1
            self.type_objs[self.types[t]] = t
        return self.types[t]

    def region(self, r) -> int:
        if not r.blocks:
            return 0
        key = repr(R.I.canon_op(_wrap_region(r)))
        if key not in self.regions:
            self.regions[key] = len(self.regions) + 1
            self.region_objs[self.regions[key]] = r
        return self.regions[key]


def _wrap_region(r):
    """canonical form of a region through a throw-away clone in a test.op"""
    from xdsl.dialects.test import TestOp

    return TestOp(regions=[r.clone()])


def compiled_program(cls):
    from xdsl.irdl.declarative_assembly_format import FormatProgram

    od = cls.get_irdl_definition()
    return FormatProgram.from_str(od.assembly_format, od)


def FormatProgramOf(cls, fmt: str):
    from xdsl.irdl.declarative_assembly_format import FormatProgram

    return FormatProgram.from_str(fmt, cls.get_irdl_definition())


def _kind_of(obj) -> str:
    n = type(obj).__name__
    if n.startswith("Optional"):
        return "o"
    if n.startswith("Variadic"):
        return "v"
    return "s"


def encode_sdir(d, T: Tables) -> str | None:
    """one compiled directive object → model word; None for whitespace"""
    from xdsl.dialects.builtin import UnitAttr
    from xdsl.irdl import declarative_assembly_format as F

    if isinstance(d, F.WhitespaceDirective):
        return None
    if isinstance(d, F.PunctuationDirective):
        return "p:" + _lit_enc(d.punctuation)
    if isinstance(d, F.KeywordDirective):
        return "k:" + d.keyword
    if isinstance(d, (F.OperandVariable, F.OptionalOperandVariable, F.VariadicOperandVariable)):
        return f"o:{d.index}:{_kind_of(d)}"
    if isinstance(d, F.OperandsDirective):
        return "oa"
    if isinstance(d, F.TypeDirective):
        i = d.inner
        if isinstance(i, F.OperandsDirective):
            return "ota"
        if isinstance(i, F.ResultsDirective):
            return "rta"
        if isinstance(i, (F.OperandVariable, F.OptionalOperandVariable, F.VariadicOperandVariable)):
            return f"ot:{i.index}:{_kind_of(i)}"
        if isinstance(i, (F.ResultVariable, F.OptionalResultVariable, F.VariadicResultVariable)):
            return f"rt:{i.index}:{_kind_of(i)}"
        raise Unmodelled(type(i).__name__)
    if isinstance(d, F.FunctionalTypeDirective):
        def ref(t):
            if isinstance(t, F.OperandsDirective):
                return "O"
            if isinstance(t, F.ResultsDirective):
                return "R"
            if isinstance(t, (F.OperandVariable, F.OptionalOperandVariable, F.VariadicOperandVariable)):
                return f"o.{t.index}.{_kind_of(t)}"
            if isinstance(t, (F.ResultVariable, F.OptionalResultVariable, F.VariadicResultVariable)):
                return f"r.{t.index}.{_kind_of(t)}"
            raise Unmodelled(type(t).__name__)
        return f"ft:{ref(d.operand_typeable_directive)}:{ref(d.result_typeable_directive)}"
    if isinstance(d, (F.RegionVariable, F.OptionalRegionVariable, F.VariadicRegionVariable)):
        return f"g:{d.index}:{_kind_of(d)}"
    if isinstance(d, (F.SuccessorVariable, F.OptionalSuccessorVariable, F.VariadicSuccessorVariable)):
        return f"sc:{d.index}:{_kind_of(d)}"
    if isinstance(d, F.OptionalUnitAttrVariable):
        return f"u:{d.name}:{int(d.is_property)}:{T.attr(d.name, UnitAttr())}"
    if isinstance(d, F.AttributeVariable):
        # every flavour (plain, symbol name, dense array, unique base, typed) is parsed optionally
        # exactly when the variable is optional
        dflt = "-" if d.default_value is None else str(T.attr(d.name, d.default_value))
        return f"a:{d.name}:{int(d.is_property)}:{int(d.is_optional)}:{dflt}"
    if isinstance(d, F.AttrDictDirective):
        res = ",".join(sorted(d.reserved_attr_names)) or "-"
        exp = ",".join(sorted(d.expected_properties)) or "-"
        return f"ad:{int(d.with_keyword)}:{res}:{exp}"
    raise Unmodelled(type(d).__name__)


def has_typed_optional(prog) -> bool:
    from xdsl.irdl import declarative_assembly_format as F

    def one(e) -> bool:
        if isinstance(e, F.OptionalGroupDirective):
            return any(one(x) for x in (e.then_first, *e.then_elements, *e.else_elements))
        return isinstance(e, F.UniqueBaseAttributeVariable) and e.is_optional

    return any(one(d) for d in prog.stmts)


def encode_fmt(prog, T: Tables) -> str:
    from xdsl.irdl import declarative_assembly_format as F

    words = []
    for d in prog.stmts:
        if isinstance(d, F.OptionalGroupDirective):
            then = [d.then_first, *d.then_elements]
            then_nw = [e for e in then if not isinstance(e, F.WhitespaceDirective)]
            if any(isinstance(e, F.OptionalGroupDirective) for e in (*then, *d.else_elements)):
                raise Unmodelled("nested group")
            ai = next((k for k, e in enumerate(then_nw) if e is d.anchor), None)
            if ai is None:
                raise Unmodelled("anchor not among then-elements")
            words.append("(")
            words.append(str(ai))
            words += [w for e in then_nw if (w := encode_sdir(e, T)) is not None]
            words.append("|")
            words += [w for e in d.else_elements if (w := encode_sdir(e, T)) is not None]
            words.append(")")
        else:
            w = encode_sdir(d, T)
            if w is not None:
                words.append(w)
    return "fmt " + " ".join(words)


SEG_NAMES = ("operandSegmentSizes", "resultSegmentSizes", "operand_segment_sizes", "result_segment_sizes")


def _as_list(x) -> list[Any]:
    if x is None:
        return []
    from xdsl.ir import Block, Region, SSAValue

    if isinstance(x, (SSAValue, Region, Block)):
        return [x]
    return list(x)


def encode_op(op, T: Tables, values: list[Any], blocks: list[Any]) -> dict[str, Any]:
    """real operation → model instance (dict of lists); `values`/`blocks`: the producer's results and
    the successor blocks, positions are the ids"""
    od = type(op).get_irdl_definition()

    def vid(v):
        for k, x in enumerate(values):
            if x is v:
                return k
        raise Unmodelled("operand is not a producer result")

    def bid(b):
        for k, x in enumerate(blocks):
            if x is b:
                return k
        raise Unmodelled("successor is not one of the generated blocks")

    O = [[vid(v) for v in _as_list(getattr(op, n))] for n, _ in od.operands]
    Ty = [[T.ty(v.type) for v in _as_list(getattr(op, n))] for n, _ in od.operands]
    Rs = [[T.ty(v.type) for v in _as_list(getattr(op, n))] for n, _ in od.results]
    G = [[T.region(r) for r in _as_list(getattr(op, n))] for n, _ in od.regions]
    S = [[bid(b) for b in _as_list(getattr(op, n))] for n, _ in od.successors]
    P = {n: T.attr(n, v) for n, v in op.properties.items() if n not in SEG_NAMES}
    A = {n: T.attr(n, v) for n, v in op.attributes.items() if n not in SEG_NAMES}
    return {"O": O, "T": Ty, "R": Rs, "G": G, "S": S, "P": P, "A": A}


def _segs(l) -> str:
    return "-" if not l else ";".join(",".join(str(x) for x in s) for s in l)


def _dict(d, order=None) -> str:
    items = list(d.items()) if order is None else order
    return "-" if not items else ",".join(f"{k}={v}" for k, v in items)


def op_line(e: dict[str, Any]) -> str:
    return f"op O={_segs(e['O'])} T={_segs(e['T'])} R={_segs(e['R'])} G={_segs(e['G'])} S={_segs(e['S'])} P={_dict(e['P'])} A={_dict(e['A'])}"


def defs_line(cls, T: Tables) -> str:
    from xdsl.dialects.builtin import FunctionType
    from xdsl.irdl import ConstraintContext, OptionalDef, VariadicDef

    od = cls.get_irdl_definition()

    def kind(d):
        return "o" if isinstance(d, OptionalDef) else "v" if isinstance(d, VariadicDef) else "s"

    def fixed(d):
        try:
            if d.constr.can_infer(set(), length_known=True):
                t = d.constr.infer(ConstraintContext(), length=1)
                return str(T.ty(t[0]))
        except Exception:  # noqa: BLE001
            pass
        return "-"

    ok = ",".join(kind(d) for _, d in od.operands) or "-"
    of = ",".join(fixed(d) for _, d in od.operands) or "-"
    rk = ",".join(kind(d) for _, d in od.results) or "-"
    rf = ",".join(fixed(d) for _, d in od.results) or "-"
    gk = ",".join(kind(d) for _, d in od.regions) or "-"
    sk = ",".join(kind(d) for _, d in od.successors) or "-"
    pd = {n: T.attr(n, d.default_value) for n, d in od.properties.items() if d.default_value is not None}
    ad = {n: T.attr(n, d.default_value) for n, d in od.attributes.items() if d.default_value is not None}
    return f"defs OK={ok} OF={of} RK={rk} RF={rf} GK={gk} SK={sk} PD={_dict(pd)} AD={_dict(ad)}"


def func_types_field(T: Tables) -> str:
    from xdsl.dialects.builtin import FunctionType

    ids = [str(i) for i, t in T.type_objs.items() if isinstance(t, FunctionType)]
    return "FT=" + ",".join(ids)


def show_op(e: dict[str, Any], pd: dict[str, int], ad: dict[str, int]) -> str:
    """same text as Lean `showOp` (defaults elided, names sorted)"""
    P = sorted((k, v) for k, v in e["P"].items() if pd.get(k) != v)
    A = sorted((k, v) for k, v in e["A"].items() if ad.get(k) != v)
    return f"O={_segs(e['O'])} T={_segs(e['T'])} R={_segs(e['R'])} G={_segs(e['G'])} S={_segs(e['S'])} P={_dict({}, P)} A={_dict({}, A)}"


def find_attr_directive(prog, name: str):
    from xdsl.irdl import declarative_assembly_format as F

    for d in prog.stmts:
        cands = [d]
        if isinstance(d, F.OptionalGroupDirective):
            cands = [d.then_first, *d.then_elements, *d.else_elements]
        for c in cands:
            if isinstance(c, F.AttributeVariable) and c.name == name:
                return c
    return None


def render_tokens(line: str, T: Tables, prog, sep: str = "") -> str:
    """model token line → text printed with the real elementary printers, joined by `sep` (for the
    print correspondence whitespace is removed by the caller on both sides)"""
    from xdsl.printer import Printer

    if line == "-":
        return ""
    out = []
    for w in line.split(" "):
        tag, _, body = w.partition(":")
        if tag == "k":
            out.append(body)
        elif tag == "p":
            out.append({"COLON": ":", "COLON2": "::"}.get(body, body))
        elif tag == "v":
            out.append(f"%v{body}")
        elif tag == "s":
            out.append(f"^s{body}")
        elif tag == "t":
            out.append(str(T.type_objs[int(body)]))
        elif tag == "r":
            io = StringIO()
            if int(body):
                Printer(stream=io).print_region(T.region_objs[int(body)])
            else:
                io.write("{}")
            out.append(io.getvalue())
        elif tag == "d":
            io = StringIO()
            entries = {}
            if body != "-":
                for e in body.split(","):
                    k, v = e.split("=")
                    entries[k] = T.attr_objs[int(v)][1]
            Printer(stream=io).print_attr_dict(entries)
            out.append(io.getvalue())
        elif tag == "a":
            name, obj = T.attr_objs[int(body)]
            io = StringIO()
            if name == "":
                # a UnitAttr printed as a value (qualified($u)): every attribute variable prints it alike
                Printer(stream=io).print_attribute(obj)
            else:
                d = find_attr_directive(prog, name)
                if d is None:
                    raise Unmodelled("attr token without directive " + name)
                d.print_attr(Printer(stream=io), obj)
            out.append(io.getvalue())
        else:
            raise Unmodelled("token " + w)
    return sep.join(out)


def strip_ws(s: str) -> str:
    return re.sub(r"\s+", "", s)


def print_op_alone(op) -> str:
    """custom text of the operation after its name, printed with a fresh Printer (operands carry the
    hints v<k>, successor blocks s<k>, so the text does not depend on the surrounding module)"""
    t = R.print_custom(op)
    i = t.find("gen.op")
    return t[i + len("gen.op"):]


# ---------------------------------------------------------------------------------------------
# malformed stream: token streams the printer did not produce
# ---------------------------------------------------------------------------------------------

def mutate_tokens(rng, toks: list[str]) -> list[str] | None:
    """one small edit of a model token line: literals are deleted / duplicated / swapped / replaced,
    value, type and successor tokens are only deleted (the model knows nothing about the type a value
    really has; attribute / dictionary / region text is only meaningful to the directive that printed it)"""
    lits = [i for i, t in enumerate(toks) if t[:2] in ("k:", "p:")]
    deletable = [i for i, t in enumerate(toks) if t[:2] in ("k:", "p:", "v:", "t:", "s:")]
    if not deletable:
        return None
    kind = rng.choice(["delete", "delete", "duplicate", "swap", "replace"])
    out = list(toks)
    if kind == "delete":
        del out[rng.choice(deletable)]
    elif not lits:
        return None
    elif kind == "duplicate":
        i = rng.choice(lits)
        out.insert(i, out[i])
    elif kind == "swap":
        if len(lits) < 2:
            return None
        i, j = rng.sample(lits, 2)
        out[i], out[j] = out[j], out[i]
    else:
        i = rng.choice(lits)
        if out[i].startswith("k:"):
            out[i] = "k:" + rng.choice(KEYWORDS)
        else:
            out[i] = "p:" + rng.choice([",", "COLON", "->", "=", "(", ")", "[", "]"])
    return out if out != toks else None


def real_parse_tokens(spec, inst, res: CaseResult, toks: list[str]) -> str:
    """render a token stream as text after `gen.op`, parse it with the real parser; the parsed
    instance in `show_op` form, or `error`"""
    from xdsl.parser import Parser

    T = res.tables
    body = render_tokens(" ".join(toks) if toks else "-", T, res.prog, sep=" ")
    vt = [str(type_of(t)) for t in inst["vtypes"]]
    lines = []
    if vt:
        lines.append(", ".join(f"%v{i}" for i in range(len(vt))) + ' = "test.op"() : () -> (' + ", ".join(vt) + ")")
    lines.append("gen.op " + body)
    text = "\n".join(lines) + "\n"
    try:
        m = Parser(context_factory(res.cls)(), text).parse_module()
    except Exception:  # noqa: BLE001
        return "error"
    op2 = find_gen_op(m)
    if op2 is None or len(list(m.walk())) != (3 if vt else 2):
        return "error"
    blk = op2.parent
    vals2 = list(blk.first_op.results) if vt else []
    try:
        e2 = encode_op(op2, T, vals2, [])
    except Unmodelled:
        return "unencodable"
    od = res.cls.get_irdl_definition()
    pd = {n: T.attr(n, d.default_value) for n, d in od.properties.items() if d.default_value is not None}
    ad = {n: T.attr(n, d.default_value) for n, d in od.attributes.items() if d.default_value is not None}
    return show_op(e2, pd, ad)
