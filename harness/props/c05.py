"""C05 — custom assembly formats round-trip for every registered operation."""
from __future__ import annotations

import copy
import json
import re
import time
from typing import Any

from vp import core

from props import c04_ir as I
from props import c05_affine as F
from props import c05_agg as A
from props import c05_gen as G
from props import c05_perturb as P
from props import c05_rt as R

META = {
    "title": "Custom assembly formats round-trip for every registered operation",
    "category": "proof",
    "design_ref": "DESIGN.md §5 C05",
    "lean_modules": ["XdslProofs.C05", "XdslProofs.C05Generic"],
    "text": (
        "Lean theorems on the declarative-format interpreter (XdslModel/DeclFormat.lean = FormatProgram.print/"
        "parse and the directive classes of xdsl/irdl/declarative_assembly_format.py, at the level of the token "
        "stream): for EVERY format that satisfies the decidable well-formedness predicate wfD (the side conditions "
        "of the format compiler plus the look-ahead conditions it does not check), every operation instance that "
        "verifies and is consistent with the optional groups, and every continuation of the token stream that the "
        "format's trailing optional directives cannot mistake for their own, parsing the printed tokens consumes "
        "exactly those tokens and rebuilds an instance equal to the original in operands, operand/result types, "
        "regions, successors and — modulo declared defaults — properties and attributes (decl_roundtrip; with the "
        "format compiler's own binding checks accD as hypothesis decl_roundtrip_acc; without optional groups "
        "decl_roundtrip_partial).  `operands`, `type(operands)`, `type(results)` and `functional-type(…)` (incl. the "
        "parenthesised single function-typed result, variadic/optional segments) are inside the theorem (wfA: the "
        "flat list determines the segments).  The generic form of the same abstract instance is modelled on the "
        "token skeleton of C04 (XdslModel/DeclGeneric.lean: printGeneric = Skeleton.pr of the flattened instance "
        "with its segment-size entries, parseGeneric = Skeleton.parseT followed by the accessors' view instOf) and "
        "decl_generic_agree ties the two printer/parser pairs: custom text → instance ≡ generic text → instance "
        "modulo declared defaults, segment sizes determined by the format (decl_generic_agree_segments).  The model "
        "is tied to the real code on run-time generated IRDL "
        "operation classes with generated assembly_format strings × random instances: printed text = rendered model "
        "tokens, parsed instance = model instance, edited token streams accepted by parseD are accepted with the "
        "same instance by FormatProgram.parse, the generic token stream the model predicts = the real generic "
        "printer's (lexed and collapsed by harness/props/c04_sk.py), the instance the model reads off the generic "
        "text = what the real generic parser + the operation's accessors give, the format compiler's binding "
        "checks ⇔ accD on accepted formats and on deliberately broken variants it refuses, "
        "and the property itself (custom print → parse in a fresh Context "
        "≡ generic print → parse, own canonical serialisation) is demanded directly on every format in the theorem's "
        "class (wfD ∧ wfA).  The same "
        "direct oracle runs over every operation of every parseable+verifying chunk of tests/**/*.mlir with all "
        "dialects registered (custom form incl. hand-written print/parse; every file, every chunk, in every tier), "
        "over variants of corpus operations built through the generic form (one optional/default-valued property "
        "or attribute put into a state another corpus instance of the class is in; per-argument/per-result "
        "attributes of function-like operations on none / all / a strict subset of the positions, declarations "
        "with 0/1/2 results), over a fixed catalogue of generic-form texts (vector.transfer_read/write: scalar vs "
        "vector element type × in_bounds × permutation_map; func.func definitions with partly decorated arguments "
        "and results), and over pass outputs.  Hand-written forms that print EXPRESSIONS (affine.load / store / "
        "vector_load / vector_store spell their access map as infix expressions over SSA names with minimal "
        "parentheses; affine.apply): generated instances over a grammar of affine expressions (every operator — add, "
        "sub, mul, mod, floordiv, ceildiv, negation, negative and constant-valued factors — as left and as right "
        "operand of every operator: exhaustive to depth 2, random to depth 3; smart-constructed and raw trees; "
        "dimension, symbol and mixed spaces; shared operands) are judged by the ACCESS FUNCTION: operand values ↦ "
        "(memref, stored value, result types, other properties, values of the map results) of the original and of "
        "the operation parsed from the custom text agree on a fixed sample of integer points (independent "
        "evaluator; the legitimate renaming dims→symbols / merging of repeated names / dropping of unused operands "
        "by the custom parser does not change it), and again for the custom round trip of the re-parsed operation "
        "(second generation).  The same semantic oracle runs on every corpus / pass / variant module that contains "
        "such an operation.  The printed index expressions are also read by the Lean model of the affine parser "
        "(XdslModel/Affine.lean, C26: parse then evalPy): the model builds the expression the real "
        "Parser.parse_affine_map_of_ssa_ids built, and its value is the value of the original map.  "
        "A corpus chunk that parsed and verified at the pinned state "
        "(harness/corpus/C05/verified_chunks.json) and no longer does is a failing input."
    ),
    "technique": "Lean 4 proof on the directive-interpreter model + differential correspondence on generated IRDL ops + direct custom-vs-generic round-trip oracle over generated ops, the .mlir corpus and pass outputs",
    "level_note": (
        "PARTIAL claim.  Proved: the directive core (keyword/punctuation literals, operand/result-type/region/"
        "successor variables in single/optional/variadic flavours, type($x), attribute/property variables with "
        "default elision, unit attributes, attr-dict with reserved names / properties / defaults, optional groups "
        "with anchor and else branch; no nested groups; `operands`, `type(operands)`, `type(results)`, "
        "`functional-type(…)` at top level for definitions with at most one optional/variadic operand resp. result "
        "definition) and the agreement of the custom with the generic form of one instance.  Outside the theorem: the "
        "aggregate directives inside optional groups, the SameVariadic…Size options (memref.extract_strided_metadata "
        "is the one registered format), AttrSized{Region,Successor}Segments; the symbol-table side of the generic "
        "parser is C04's (values and blocks are compared by their printed names).  MODELLED "
        "BY NOTHING: the hand-written print/parse overrides in xdsl/dialects/*.py and custom directives — they are "
        "covered only by the corpus/pass oracle (the minimal-parentheses expression printer of the affine access "
        "operations is NOT modelled in Lean either: its printed text is tied to the Lean model of the affine PARSER "
        "and evaluator by correspondence, the access-function oracle is sampled — 20 points per module — not "
        "proved; maps are compared by value, never by shape, for these operations: non-positive divisors and "
        "semi-affine products are outside the statement and not generated; text idempotence print→parse→print is "
        "counted, not demanded: `a + (b + c)` is printed `a + b + c`); the lexical payload syntax of types and attributes (one opaque "
        "token in the model; C06); type inference through constraint variables; whitespace directives; nested "
        "groups.  Formats that the xDSL format compiler accepts but wfD rejects (ambiguous look-ahead: e.g. an "
        "optional attribute followed by `[`, a unit attribute outside a group) are not judged (optional attribute "
        "variables of the unique-base/typed flavour are modelled like the plain ones: the model is stricter than the real "
        "parser on the tokens that may follow an absent one); evidence lists how many of the "
        "registered formats are inside the proved fragment / satisfy wfD.  Group consistency "
        "(what an untaken group does not print is empty/default) is the op author's verifier obligation and is a "
        "hypothesis; generated instances satisfy it.  Property perturbation only uses per-entry states witnessed "
        "in the corpus for that op class (an entry is removed only if some instance lacks it), skips the arity-bound "
        "arg_attrs/res_attrs (built with the right length by the function-like leg) and operations inside regions "
        "their parent's custom form does not print.  Equivalence as the quantifier says: a property/attribute "
        "equal to its declared default ≡ absent, inherent attribute in the dictionary ≡ property; name hints and "
        "locations are not compared; resource handle suffixes are ignored (C04 finding).  Corpus chunks that do not "
        "parse/verify, or whose generic form does not round-trip (C04's matter), are skipped.  Trusted: the "
        "hand-written model, the canonical serialiser harness/props/c04_ir.py, the encoder harness/props/c05_gen.py."
    ),
    "rule": (
        "generated: a case = (op definition, format, instance); evaluated = built+verified cases (+1 per case that "
        "gets the generic-form leg); non-trivial = "
        "wfD and wfA hold and the format has ≥1 optional group or variadic/optional variable or default-valued/optional "
        "attribute, distinct by (format string, printed text); a generic-form case whose custom/generic agreement "
        "was checked counts once more.  acceptance: evaluated = formats with a verdict of the format compiler that "
        "is 'accepted' or one of its binding errors; non-trivial = refused variants, distinct by (format, error).  "
        "catalogue: fixed minimal formats incl. the minimal "
        "failing inputs of every repaired defect × all small instances.  corpus/pass: evaluated = verified chunks; "
        "non-trivial = chunk contains ≥1 operation printed with a custom syntax, distinct by (file, chunk[, pass]).  "
        "perturb/funclike: evaluated = variants that verify; all are non-trivial, distinct by (op class, file, chunk, "
        "op index, edit).  text-catalogue: every entry, distinct by name.  affine-expr: evaluated = generated "
        "operations that verify, have a readable generic form and went through both generations (+1 per index "
        "expression parsed by the Lean model); non-trivial = some map result has an operator, distinct by "
        "(op kind, raw/smart, result expressions, space, operand pattern)."
    ),
    "trusted_base": [
        "hand-written Lean model XdslModel/DeclFormat.lean (fixed FormatProgram semantics at token level), tied by correspondence",
        "hand-written Lean model XdslModel/DeclGeneric.lean (generic form of one instance on the C04 skeleton, accessors), tied by correspondence; harness/props/c05_agg.py (spec encoder, token rendering)",
        "canonical IR serialiser harness/props/c04_ir.py; round-trip/reduction harness/props/c05_rt.py; generator+encoder harness/props/c05_gen.py",
        "harness/props/c05_affine.py: expression generator, independent evaluator of affine expression trees, value numbering of parallel modules; Lean model XdslModel/Affine.lean (parser + evaluator, proved in C26) as reference reader of the printed index expressions",
    ],
    "assumptions": [
        "lexing the printed text gives back the printed tokens (types/attributes/regions are single opaque tokens of their class)",
        "keywords of a format are not spelled like a type or attribute keyword unless wfD accounts for it (typeLikeKw/attrLikeKw lists)",
    ],
    "budget": {"quick": 150, "thorough": 1100},
}

SITE_FP = "xdsl.irdl.declarative_assembly_format"


# ---------------------------------------------------------------------------------------------
# catalogue of fixed specs (minimal failing inputs of the repaired defects are kept here)
# ---------------------------------------------------------------------------------------------

def _kw(s):
    return {"k": "kw", "s": s}


def _p(s):
    return {"k": "punct", "s": s}


_AD = {"k": "attrdict", "kw": False}
_ADK = {"k": "attrdict", "kw": True}


def _spec(defs, fmt, opts=None):
    d = {"operands": [], "results": [], "regions": [], "succs": [], "attrs": []}
    d.update(defs)
    return {"defs": d, "fmt": [dict(x, item=i) for i, x in enumerate(fmt)], "opts": opts or {}}


def _grp(anchor, then, els=()):
    return {"k": "group", "anchor": anchor, "then": list(then), "else": list(els)}


def _o(n):
    return {"k": "operand", "n": n}


def _to(n):
    return {"k": "type", "of": "operand", "n": n}


def _tr(n):
    return {"k": "type", "of": "result", "n": n}


def _a(n):
    return {"k": "attr", "n": n}


def _g(n):
    return {"k": "region", "n": n}


CATALOGUE: list[tuple[str, dict[str, Any]]] = [
    # fix 1: (type($x)^ …)? took the wrong branch
    ("type-first-var-operand", _spec({"operands": [["o", "var", "any"]]}, [_kw("in"), _o("o"), _kw("as"), _grp(0, [_to("o"), _kw("step")]), _AD])),
    ("type-first-opt-operand", _spec({"operands": [["o", "opt", "any"]]}, [_kw("in"), _o("o"), _kw("as"), _grp(0, [_to("o"), _kw("step")], [_kw("none")]), _AD])),
    ("type-first-var-result", _spec({"results": [["r", "var", "any"]]}, [_kw("as"), _grp(0, [_tr("r"), _kw("step")]), _AD])),
    ("type-first-opt-result", _spec({"results": [["r", "opt", "any"]]}, [_kw("as"), _grp(0, [_tr("r"), _kw("step")]), _AD])),
    # fix 2: ($region^ …)? with a non-optional region
    ("region-first-single", _spec({"regions": [["g", "single"]]}, [_ADK, _kw("do"), _grp(0, [_g("g"), _kw("step")], [_kw("none")])])),
    ("region-first-opt", _spec({"regions": [["g", "opt"]]}, [_ADK, _kw("do"), _grp(0, [_g("g"), _kw("step")])])),
    ("region-var", _spec({"regions": [["g", "var"]]}, [_ADK, _kw("do"), _g("g")])),
    # fix 3: functional-type with one function-typed result
    ("functype-function-result", _spec({"operands": [["o", "var", "any"]], "results": [["r", "single", "any"]]},
                                       [{"k": "operands"}, _AD, _p(":"), {"k": "functype", "ins": ["operands"], "outs": ["results"]}])),
    ("functype-var-result", _spec({"operands": [["o", "single", "any"]], "results": [["r", "var", "any"]]},
                                  [_o("o"), _AD, _p(":"), {"k": "functype", "ins": ["operand", "o"], "outs": ["results"]}])),
    # fix 4: default value of a non-optional attribute left out although it is parsed unconditionally
    ("default-required-top", _spec({"attrs": [["p", "prop", "i64", "req", 0]]}, [_kw("p"), _a("p"), _AD])),
    ("default-required-attr-top", _spec({"attrs": [["p", "attr", "str", "req", 0]]}, [_kw("p"), _a("p"), _AD])),
    ("default-required-in-group", _spec({"attrs": [["p", "prop", "i64", "req", 0]], "operands": [["o", "opt", "i32"]]},
                                        [_kw("x"), _grp(0, [_o("o"), _kw("p"), _a("p")]), _AD])),
    ("default-required-anchor", _spec({"attrs": [["p", "prop", "i64", "req", 1]]}, [_grp(1, [_kw("p"), _a("p")]), _AD])),
    ("default-optional-anchor", _spec({"attrs": [["p", "prop", "any", "opt", 1]]}, [_grp(1, [_kw("p"), _a("p")], [_kw("q")]), _AD])),
    ("default-optional-top", _spec({"attrs": [["p", "prop", "str", "opt", 0]]}, [_kw("p"), _a("p"), _kw("z"), _AD])),
    # fix 7: optional attribute variable with a unique base / fixed type was parsed unconditionally
    ("typed-optional-top", _spec({"attrs": [["p", "prop", "i64", "opt", None]]}, [_kw("p"), _a("p"), _kw("z"), _AD])),
    ("typed-optional-first", _spec({"attrs": [["p", "prop", "i64", "opt", None]]}, [_kw("p"), _grp(0, [_a("p"), _kw("z")]), _ADK])),
    ("typed-optional-f32-first", _spec({"attrs": [["p", "attr", "f32attr", "opt", None]]}, [_kw("p"), _grp(0, [_a("p"), _kw("z")], [_kw("none")]), _ADK])),
    ("typed-optional-then-operand", _spec({"attrs": [["p", "prop", "i64", "opt", None]], "operands": [["o", "opt", "i32"]]},
                                          [_kw("p"), _a("p"), _o("o"), _ADK])),
    # aggregate directives (inside decl_roundtrip since the C05G extension)
    ("operands-functype", _spec({"operands": [["a", "single", "any"], ["b", "var", "any"]], "results": [["r", "single", "any"]]},
                                [{"k": "operands"}, _AD, _p(":"), {"k": "functype", "ins": ["operands"], "outs": ["results"]}])),
    ("type-operands-results", _spec({"operands": [["a", "single", "any"], ["b", "opt", "any"]], "results": [["r", "var", "any"]]},
                                    [_o("a"), _grp(1, [_kw("and"), _o("b")]), _AD, _p(":"), {"k": "type_operands"}, _p("->"), {"k": "type_results"}])),
    ("functype-of-variables", _spec({"operands": [["a", "var", "any"]], "results": [["r", "opt", "any"]]},
                                    [_o("a"), _AD, _p(":"), {"k": "functype", "ins": ["operand", "a"], "outs": ["result", "r"]}])),
    ("functype-single-result-var", _spec({"operands": [["a", "opt", "any"]], "results": [["r", "single", "any"]]},
                                         [_kw("x"), _o("a"), _AD, _p(":"), {"k": "functype", "ins": ["operands"], "outs": ["result", "r"]}])),
    ("operands-fixed-types", _spec({"operands": [["a", "var", "i32"], ["b", "single", "index"]]}, [_kw("x"), {"k": "operands"}, _AD])),
    # fix 8: `operands` / `results` on a definition that stores its segment sizes (one variadic definition)
    ("operands-attr-sized", _spec({"operands": [["a", "var", "any"], ["b", "single", "any"]]},
                                  [{"k": "operands"}, _AD, _p(":"), {"k": "type_operands"}], {"force_seg": True})),
    ("results-attr-sized", _spec({"operands": [["a", "single", "any"]], "results": [["r", "opt", "any"], ["q", "single", "any"]]},
                                 [_o("a"), _AD, _p(":"), {"k": "functype", "ins": ["operands"], "outs": ["results"]}], {"force_seg": True})),
    # outside the class: the same-size option is not modelled (wfA = false)
    ("operands-same-size", _spec({"operands": [["a", "var", "any"], ["b", "var", "any"]]},
                                 [{"k": "operands"}, _AD, _p(":"), {"k": "type_operands"}], {"same_size": True})),
    # assorted well-formed shapes
    ("optional-operand-group-else", _spec({"operands": [["o", "opt", "any"]]}, [_grp(0, [_o("o"), _p(":"), _to("o")], [_kw("none")]), _AD])),
    ("two-variadics-segments", _spec({"operands": [["a", "var", "any"], ["b", "var", "any"]]},
                                     [_kw("a"), _o("a"), _kw("b"), _o("b"), _AD, _kw("ta"), _to("a"), _kw("tb"), _to("b")], {"seg_prop": True})),
    ("two-variadics-segments-attr", _spec({"operands": [["a", "var", "any"], ["b", "opt", "any"]]},
                                          [_kw("a"), _o("a"), _kw("b"), _o("b"), _AD, _kw("ta"), _to("a"), _kw("tb"), _to("b")], {"seg_prop": False})),
    ("unit-in-group", _spec({"attrs": [["u", "prop", "unit", "opt", None]]}, [_grp(1, [_kw("u"), _a("u")]), _AD])),
    ("unit-attr-in-group", _spec({"attrs": [["u", "attr", "unit", "opt", None]]}, [_grp(1, [_kw("u"), _a("u")], [_kw("nou")]), _ADK])),
    ("prop-in-attr-dict", _spec({"attrs": [["p", "prop", "any", "opt", None], ["q", "prop", "bool", "req", 0]]}, [_kw("x"), _AD], {"prop_in_dict": True})),
    ("fixed-types-inferred", _spec({"operands": [["o", "var", "i32"]], "results": [["r", "single", "i32"]]}, [_kw("x"), _o("o"), _AD])),
    ("successors", _spec({"succs": [["s", "single"], ["t", "var"]]}, [_kw("x"), {"k": "succ", "n": "s"}, _grp(1, [_kw("t"), {"k": "succ", "n": "t"}]), _AD])),
    ("symbol-and-dense", _spec({"attrs": [["s", "prop", "sym", "req", None], ["d", "prop", "dense", "opt", None]]}, [_a("s"), _grp(1, [_kw("d"), _a("d")]), _AD])),
]


def small_instances(spec: dict[str, Any], cap: int = 40) -> list[dict[str, Any]]:
    """all instances with 0..2 elements per variadic, both states of every optional thing, default /
    non-default attribute values (capped, deterministic)"""
    import itertools

    defs = spec["defs"]
    choices: list[list[Any]] = []
    for n, kind, ty in defs["operands"]:
        choices.append([1] if kind == "single" else [0, 1] if kind == "opt" else [0, 1, 2])
    for n, kind, ty in defs["results"]:
        choices.append([1] if kind == "single" else [0, 1] if kind == "opt" else [0, 2])
    for n, where, akind, flavour, dflt in defs["attrs"]:
        vals = list(range(min(2, len(G.attr_values(akind)))))
        if dflt is not None and dflt not in vals:
            vals.append(dflt)
        choices.append(([None] if flavour == "opt" else []) + vals)
    for n, kind in defs["regions"]:
        choices.append([[[]], [[[0, 1]]]] if kind == "single" else [[], [[[1, 1]]]] if kind == "opt" else [[], [[[0, 1]]], [[[0, 1]], [[0, 1], [1, 1]]]])
    for n, kind in defs["succs"]:
        choices.append([1] if kind == "single" else [0, 1] if kind == "opt" else [0, 2])
    choices.append([{}, {"x0": 1}])
    out = []
    for combo in itertools.product(*choices):
        it = iter(combo)
        inst: dict[str, Any] = {"operands": [], "vtypes": [], "results": [], "attrs": {}, "extra": {}, "regions": [], "succs": [], "nblocks": 0}
        for n, kind, ty in defs["operands"]:
            c = next(it)
            lst = []
            for _ in range(c):
                inst["vtypes"].append(ty if ty not in ("any", "T") else (len(inst["vtypes"]) % 3 if len(out) % 2 == 0 else "(i32) -> i64"))
                lst.append(len(inst["vtypes"]) - 1)
            inst["operands"].append(lst)
        for n, kind, ty in defs["results"]:
            c = next(it)
            inst["results"].append([ty if ty not in ("any", "T") else ("(i32) -> i64" if len(out) % 3 == 1 else k % 4) for k in range(c)])
        for n, where, akind, flavour, dflt in defs["attrs"]:
            inst["attrs"][n] = next(it)
        for n, kind in defs["regions"]:
            inst["regions"].append(next(it))
        for n, kind in defs["succs"]:
            c = next(it)
            lst = list(range(inst["nblocks"], inst["nblocks"] + c))
            inst["nblocks"] += c
            inst["succs"].append(lst)
        inst["extra"] = next(it)
        inst = G.make_consistent(spec, inst)
        if inst is not None:
            out.append(inst)
        if len(out) >= cap:
            break
    return out


# ---------------------------------------------------------------------------------------------
# generated leg: batching through the Lean model
# ---------------------------------------------------------------------------------------------

_HINT = re.compile(r"(rb|ra)\d+")
_REPORTED: set[tuple[str, str]] = set()


def classify_generated(spec: dict[str, Any], res: G.CaseResult) -> tuple[str, str, str]:
    """(call_site, signature, description) of a failing generated case (after shrinking)"""
    rt = res.rt
    fmt = G.render_fmt(spec["fmt"])
    stage = rt.stage if rt is not None else "?"
    groups = [d for d in spec["fmt"] if d["k"] == "group"]
    if stage == "parse" and rt is not None and "AssertionError" in rt.detail and any(
            d["k"] in ("operands", "type_operands", "type_results", "functype") for d in spec["fmt"]):
        return (SITE_FP + ".OperandsOrResultDirective._set_using_variadic_index",
                "operands/results directive on a definition with AttrSized segments: AssertionError while parsing",
                f"`{fmt}`: the flat list cannot be split through the attribute-based accessors: {rt.detail}")
    if res.typed_optional and stage == "parse":
        return (SITE_FP + ".UniqueBaseAttributeVariable.parse_attr",
                "optional attribute variable with a unique base or fixed type is parsed unconditionally",
                f"`{fmt}`: the variable prints nothing when the attribute is absent, the parser demands it: {rt.detail if rt else ''}")
    for g in groups:
        f = g["then"][0]
        if f["k"] == "type":
            kind = G._def_kind(spec, "operands" if f["of"] == "operand" else "results", f["n"])
            cls = {"opt": "Optional", "var": "Variadic"}.get(kind, "") + ("OperandVariable" if f["of"] == "operand" else "ResultVariable")
            return (f"{SITE_FP}.{cls}.parse_types", "optional group starting with a type directive takes the wrong branch",
                    f"`{fmt}`: {rt.detail if rt else ''}")
        if f["k"] == "region" and G._def_kind(spec, "regions", f["n"]) == "single":
            return (SITE_FP + ".RegionVariable.parse_optional", "optional group starting with a non-optional region takes the wrong branch",
                    f"`{fmt}`: {rt.detail if rt else ''}")
    if any(d["k"] == "functype" for d in spec["fmt"]) and rt is not None and "->" in rt.custom and re.search(r"-> \([^()]*\) ->", G.op_text(rt.custom)):
        return (SITE_FP + ".FunctionalTypeDirective.print", "single function-typed result printed without parentheses",
                f"`{fmt}`: {rt.detail}")
    for d in spec["fmt"]:
        for e in ([d] if d["k"] != "group" else d["then"] + d["else"]):
            if e["k"] in ("attr", "qattr"):
                a = G._attr_def(spec, e["n"])
                if a[3] != "opt" and a[4] is not None and stage == "parse":
                    return (SITE_FP + ".AttributeVariable.print", "default value of a non-optional attribute variable is not printed but parsed unconditionally",
                            f"`{fmt}`: {rt.detail if rt else ''}")
    return (SITE_FP + ".FormatProgram", R.signature(rt) if rt else stage, f"`{fmt}`: {rt.detail if rt else ''}")


def _has_value_attr_directive(spec) -> bool:
    """an attribute variable that prints a value: the text of that value is only meaningful to the
    directive that printed it, so edited streams could hand it to another one (not comparable)"""
    for d in spec["fmt"]:
        for e in ([d] if d["k"] != "group" else d["then"] + d["else"]):
            if e["k"] in ("attr", "qattr") and G._attr_def(spec, e["n"])[2] != "unit":
                return True
    return False


class GenBatch:
    def __init__(self, ctx: core.Ctx, family: str):
        self.ctx, self.family = ctx, family
        self.cases: list[tuple[dict[str, Any], dict[str, Any], G.CaseResult]] = []
        self.malformed_budget = 0
        self.generic_budget = 0   # how many further cases get the generic-form leg

    def add(self, spec, inst, cls=None) -> G.CaseResult | None:
        ctx = self.ctx
        want_generic = self.generic_budget > 0
        try:
            r = G.run_case(spec, inst, cls, with_generic=want_generic)
        except G.Rejected:
            ctx.count(f"{self.family}.rejected")
            return None
        ctx.count(f"{self.family}.{r.status}")
        if r.status != "ok":
            return r
        ctx.ev()
        if not r.modelled:
            ctx.count(f"{self.family}.unmodelled")
            return r
        if r.generic is not None:
            self.generic_budget -= 1
        elif r.generic_skip:
            ctx.count(f"{self.family}.generic.skipped({r.generic_skip})")
        self.cases.append((spec, inst, r))
        return r

    def finish(self) -> None:
        ctx = self.ctx
        if not self.cases:
            return
        lines = ["reset"]
        for _, _, r in self.cases:
            lines += r.lines + ["fragment", "acc", "wfa"] + (r.generic.lines if r.generic is not None else [])
        out = ctx.model("decl_generic", lines)
        ctx.count(f"{self.family}.model_lines", len(lines))
        pos = 1
        malformed = []
        for spec, inst, r in self.cases:
            n = len(r.lines) + 3 + (len(r.generic.lines) if r.generic is not None else 0)
            o = out[pos:pos + n]
            pos += n
            self.judge(spec, inst, r, o)
            d = spec["defs"]
            if (self.malformed_budget > 0 and o[:3] == ["ok", "ok", "ok"] and o[3] == "true" and o[6] == "true" and o[8] == "true"
                    and not d["results"] and not d["regions"] and not d["succs"] and r.rt.ok
                    and not any(t == "T" for _, _, t in d["operands"]) and not _has_value_attr_directive(spec)):
                toks = [] if o[4] == "-" else o[4].split(" ")
                mut = G.mutate_tokens(ctx.rng, toks)
                if mut is not None:
                    self.malformed_budget -= 1
                    malformed.append((spec, inst, r, mut))
        self.run_malformed(malformed)

    def run_malformed(self, items) -> None:
        """token streams the printer did not produce: whenever the model's parseD accepts, the real
        parser accepts with the same instance (the converse is not demanded: the real parser commits on
        look-alike tokens the model treats as failures)"""
        ctx = self.ctx
        if not items:
            return
        lines = ["reset"]
        for spec, inst, r, mut in items:
            lines += r.lines[:3] + ["parse p:} " + (" ".join(mut) if mut else "-")]
        out = ctx.model("decl_format", lines)
        for k, (spec, inst, r, mut) in enumerate(items):
            m = out[1 + 4 * k + 3]
            try:
                real = G.real_parse_tokens(spec, inst, r, mut)
            except Exception as e:  # noqa: BLE001
                real = f"harness-error {core.exc_name(e)}"
            ctx.ev()
            ctx.count(f"malformed.model_{m.split(' ')[0]}.real_{'ok' if real.startswith('O=') else real.split(' ')[0]}")
            orig_O = r.lines[2].split(" ")[1]
            if m.startswith("some ") and m.split(" ")[1] != orig_O:
                # the edit moved values into other operand segments: the real parser also checks the
                # declared type against the type the value really has, which the model knows nothing of
                ctx.count("malformed.resegmented_not_compared")
                continue
            if m.startswith("some ") and real != m[5:]:
                ctx.mismatch("correspondence:C05/decl_format.parse_malformed",
                             {"family": "malformed", "spec": spec, "inst": inst, "tokens": mut}, real, m,
                             "parseD accepts a token stream that FormatProgram.parse rejects or reads differently")

    def judge(self, spec, inst, r: G.CaseResult, o: list[str]) -> None:
        ctx, fam = self.ctx, self.family
        case = {"family": "generated", "spec": spec, "inst": inst}
        if o[0] != "ok" or o[1] != "ok" or o[2] != "ok":
            ctx.mismatch("correspondence:C05/decl_format.encoding", case, r.lines[:3], o[:3], "the Lean driver refused the encoded case")
            return
        wf, ptoks, rtm, frag, acc, wfa = o[3], o[4], o[5], o[6], o[7], o[8]
        uses_T = any(t == "T" for _, _, t in spec["defs"]["operands"] + spec["defs"]["results"])
        same_size = bool(spec.get("opts", {}).get("same_size"))
        ctx.count(f"{fam}.wf={wf}")
        words = r.lines[1].split(" ")
        aggs = sorted({{"oa": "operands", "ota": "type(operands)", "rta": "type(results)"}.get(w, "functional-type")
                       for w in words if w in ("oa", "ota", "rta") or w.startswith("ft:")})
        # the class of the theorem decl_roundtrip: wfD (implies fragD) and wfA
        inclass = wf == "true" and wfa == "true"
        if inclass:
            ctx.count(f"{fam}.in_theorem_class")
            for a in aggs:
                ctx.count(f"{fam}.in_theorem_class.with[{a}]")
            if len(aggs) == 0:
                ctx.count(f"{fam}.in_theorem_class.without_aggregates")
        if wf == "true" and frag != "true":
            ctx.mismatch("correspondence:C05/decl_format.fragD", case, "wfD", "fragD = false",
                         "wfD holds but an optional group holds an aggregate directive (contradicts fragD_of_wfD)")
        # (0) the binding checks of the format compiler: the format was compiled, so accD must hold (type
        # inference through a constraint variable and the same-size options are outside the model)
        if not uses_T and not same_size:
            ctx.count(f"{fam}.acc={acc}")
            if acc != "true":
                ctx.mismatch("correspondence:C05/decl_format.accD", case, "format compiler accepts", "accD = false",
                             "the format compiler accepts a format that accD (its binding checks in the model) refuses")
            elif wfa != "true":
                ctx.mismatch("correspondence:C05/decl_format.wfA", case, "accD", "wfA = false", "contradicts wfA_of_accD")
        # (1) printed token stream
        try:
            mtext = G.strip_ws(G.render_tokens(ptoks, r.tables, r.prog))
        except Exception as e:  # noqa: BLE001
            mtext = f"<cannot render {core.exc_name(e)}: {e}>"
        if _HINT.sub(r"\1", mtext) != _HINT.sub(r"\1", r.impl_print):
            ctx.mismatch("correspondence:C05/decl_format.print", case, r.impl_print, mtext + "   tokens: " + ptoks,
                         "text printed by FormatProgram.print differs from the rendered tokens of printD")
        rt = r.rt
        if inclass:
            if nontrivial_spec(spec):
                ctx.nt((fam, r.fmt, r.impl_print))
            # (2) the property itself, on a format the theorem's side conditions accept
            if not rt.ok:
                self.report(spec, inst, r)
            # (3) parse result of the model vs the real parser
            if not uses_T:
                if not rtm.startswith("some "):
                    ctx.mismatch("correspondence:C05/decl_format.roundtrip", case, r.impl_parse, rtm,
                                 "wfD and wfA hold but the model does not round-trip (contradicts decl_roundtrip or the instance is not consistent)")
                elif rt.ok and r.impl_parse is not None and rtm[5:] != r.impl_parse:
                    ctx.mismatch("correspondence:C05/decl_format.parse", case, r.impl_parse, rtm[5:],
                                 "instance parsed back by FormatProgram.parse differs from parseD")
        else:
            ctx.count(f"{fam}.nonwf.real_{'ok' if rt.ok else 'fails'}")
        # (4) the generic form: predicted token stream, instance read off the generic text, agreement
        if r.generic is not None and len(o) >= 12:
            self.judge_generic(spec, inst, r, o[9:12], inclass, rtm, uses_T)

    def judge_generic(self, spec, inst, r: G.CaseResult, o: list[str], inclass: bool, rtm: str, uses_T: bool) -> None:
        ctx, fam = self.ctx, self.family
        g = r.generic
        case = {"family": "generic", "spec": spec, "inst": inst}
        ctx.ev()
        if o[0] != "ok":
            ctx.mismatch("correspondence:C05/decl_generic.encoding", case, g.lines[0], o[0], "the Lean driver refused the generic configuration")
            return
        if g.problem:
            ctx.count(f"{fam}.generic.ungroupable")
            return
        try:
            mt = A.render_model_generic(o[1], g)
        except Exception as e:  # noqa: BLE001
            mt = [f"<cannot render {core.exc_name(e)}: {e}>"]
        if mt != g.real_toks:
            i = next((k for k, (x, y) in enumerate(zip(mt, g.real_toks)) if x != y), min(len(mt), len(g.real_toks)))
            ctx.count(f"{fam}.generic.print_differs")
            ctx.mismatch("correspondence:C05/decl_generic.print", {**case, "token": i},
                         g.real_toks[max(0, i - 10):i + 6], mt[max(0, i - 10):i + 6],
                         "token stream of the real generic printer differs from printGeneric (" + g.text.strip()[:300] + ")")
            return
        ctx.count(f"{fam}.generic.print_equal")
        ctx.count(f"{fam}.generic.tokens", len(mt))
        real = A.real_generic_parse(r.module, r.cls, r.tables, r.nvals, r.nblocks)
        if real is None:
            ctx.count(f"{fam}.generic.real_parse_error(C04)")
            return
        if not o[2].startswith("some "):
            ctx.mismatch("correspondence:C05/decl_generic.parse", case, real, o[2],
                         "parseGeneric rejects the generic text of an instance the real generic parser reads")
            return
        if o[2][5:] != real:
            ctx.mismatch("correspondence:C05/decl_generic.parse", case, real, o[2][5:],
                         "instance read off the generic text (parseGeneric) differs from the real generic parser + accessors")
            return
        ctx.count(f"{fam}.generic.parse_equal")
        # custom → instance  =  generic → instance (decl_generic_agree), both sides of the model and both real ones
        if inclass and not uses_T:
            ctx.count(f"{fam}.generic.agree_checked")
            ctx.nt((fam, "generic", r.fmt, r.impl_print))
            if rtm.startswith("some ") and rtm[5:] != o[2][5:]:
                ctx.mismatch("correspondence:C05/decl_generic.agree", case, rtm[5:], o[2][5:],
                             "model: custom → instance differs from generic → instance on a wfD format (contradicts decl_generic_agree)")
            if r.rt.ok and r.impl_parse is not None:
                # (the property's own comparison custom vs generic is R.roundtrip on canonical forms; this is the
                # accessors' view of the two real parses)
                ctx.count(f"{fam}.generic.real_custom_vs_generic_{'equal' if r.impl_parse == real else 'differ'}")

    def report(self, spec, inst, r: G.CaseResult) -> None:
        ctx = self.ctx
        pre = classify_generated(spec, r)[:2]
        if pre in _REPORTED:
            ctx.count(f"{self.family}.fail.repeat")
            return
        sspec, sinst, sr = shrink_generated(ctx, spec, inst, r)
        _REPORTED.add(pre)
        _REPORTED.add(classify_generated(sspec, sr)[:2])
        site, sig, desc = classify_generated(sspec, sr)
        ctx.count(f"{self.family}.fail.{sr.rt.stage}")
        ctx.fail(site, sig, {"family": "generated", "spec": sspec, "inst": sinst}, desc,
                 {"format": G.render_fmt(sspec["fmt"]), "custom": G.op_text(sr.rt.custom)[:600], "stage": sr.rt.stage,
                  "detail": sr.rt.detail[:400]}, None)


def nontrivial_spec(spec) -> bool:
    d = spec["defs"]
    return (any(e["k"] == "group" for e in spec["fmt"]) or any(k != "single" for _, k, _ in d["operands"] + d["results"])
            or any(a[3] == "opt" or a[4] is not None for a in d["attrs"]))


def judged_failure(ctx: core.Ctx, spec, inst) -> G.CaseResult | None:
    """re-run one case; the result when it is a failure the check judges (wfD holds)"""
    try:
        r = G.run_case(spec, inst)
    except Exception:  # noqa: BLE001
        return None
    if r.status != "ok" or r.rt is None or r.rt.ok or not r.modelled:
        return None
    o = ctx.model("decl_format", ["reset"] + r.lines + ["wfa"])[1:]
    if o[0] != "ok" or o[1] != "ok" or o[2] != "ok":
        return None
    if o[3] == "true" and o[6] == "true":
        return r
    return None


def _names_in(d) -> set[str]:
    out = set()
    if d["k"] == "group":
        for e in d["then"] + d["else"]:
            out |= _names_in(e)
    elif d["k"] == "functype":
        for t in (d["ins"], d["outs"]):
            if len(t) > 1:
                out.add(t[1])
    elif "n" in d:
        out.add(d["n"])
    return out


def drop_unreferenced(spec, inst):
    """remove definitions no directive mentions (and their instance data); keeps attributes that are
    meant for the attr-dict only when `keep_dict_attrs`"""
    used = set()
    whole_o = any(d["k"] in ("operands", "type_operands") or (d["k"] == "functype" and d["ins"][0] == "operands") for d in spec["fmt"])
    whole_r = any(d["k"] == "type_results" or (d["k"] == "functype" and d["outs"][0] == "results") for d in spec["fmt"])
    for d in spec["fmt"]:
        used |= _names_in(d)
    defs = spec["defs"]
    for cat, key in (("operands", "operands"), ("results", "results"), ("regions", "regions"), ("succs", "succs")):
        if (cat == "operands" and whole_o) or (cat == "results" and whole_r):
            continue
        keep = [i for i, e in enumerate(defs[cat]) if e[0] in used]
        defs[cat] = [defs[cat][i] for i in keep]
        inst[key] = [inst[key][i] for i in keep]
    gone = [a[0] for a in defs["attrs"] if a[0] not in used]
    defs["attrs"] = [a for a in defs["attrs"] if a[0] in used]
    for n in gone:
        inst["attrs"].pop(n, None)
    return spec, inst


def shrink_generated(ctx: core.Ctx, spec, inst, r: G.CaseResult, max_steps: int = 120):
    cur, cur_i, cur_r = copy.deepcopy(spec), copy.deepcopy(inst), r
    steps = 0

    def attempt(cs, ci):
        nonlocal cur, cur_i, cur_r, steps
        steps += 1
        rr = judged_failure(ctx, cs, ci)
        if rr is not None and rr.rt.stage == r.rt.stage:
            cur, cur_i, cur_r = cs, ci, rr
            return True
        return False

    progress = True
    while progress and steps < max_steps:
        progress = False
        for item in sorted({d["item"] for d in cur["fmt"]}, reverse=True):
            if steps >= max_steps:
                break
            cs, ci = copy.deepcopy(cur), copy.deepcopy(cur_i)
            if all(d["k"] == "attrdict" for d in cs["fmt"] if d["item"] == item):
                continue
            cs["fmt"] = [d for d in cs["fmt"] if d["item"] != item]
            cs, ci = drop_unreferenced(cs, ci)
            if attempt(cs, ci):
                progress = True
        for k in range(len(cur["fmt"]) - 1, -1, -1):
            if steps >= max_steps or k >= len(cur["fmt"]):
                continue
            if cur["fmt"][k]["k"] in ("kw", "punct", "ws"):
                cs, ci = copy.deepcopy(cur), copy.deepcopy(cur_i)
                del cs["fmt"][k]
                if attempt(cs, ci):
                    progress = True
    # instance: no extra attributes, simple types
    for f in (lambda i: i.__setitem__("extra", {}),
              lambda i: i.__setitem__("vtypes", [0 if not isinstance(t, int) else t for t in i["vtypes"]]),
              lambda i: i.__setitem__("results", [[0 if not isinstance(t, int) else t for t in seg] for seg in i["results"]])):
        ci = copy.deepcopy(cur_i)
        f(ci)
        if ci != cur_i and steps < max_steps + 10:
            attempt(copy.deepcopy(cur), ci)
    return cur, cur_i, cur_r


def run_catalogue(ctx: core.Ctx) -> None:
    b = GenBatch(ctx, "catalogue")
    b.generic_budget = 10 ** 6
    for name, spec in CATALOGUE:
        try:
            cls = G.make_op(spec)
        except G.Rejected as e:
            raise core.InfraError(f"catalogue format {name} is refused by the format compiler: {e}")
        insts = small_instances(spec)
        for inst in insts:
            b.add(spec, inst, cls)
        ctx.count("catalogue.formats")
    b.finish()


def run_generated(ctx: core.Ctx, nspecs: int, per_spec: int, reserve: float, generic: int = 0) -> None:
    b = GenBatch(ctx, "generated")
    b.malformed_budget = nspecs // 2
    b.generic_budget = generic
    for k in range(nspecs):
        if ctx.time_left() < reserve:
            ctx.count("generated.skipped_for_time", nspecs - k)
            break
        fragment = ctx.rng.random() < 0.55
        spec = G.random_spec(ctx.rng, model_fragment=fragment, risky=0.12 if k % 5 else 0.35)
        try:
            cls = G.make_op(spec)
        except G.Rejected:
            ctx.count("generated.format_rejected_by_compiler")
            continue
        ctx.count("generated.formats")
        for _ in range(per_spec):
            inst = G.random_instance(ctx.rng, spec, simple_types=fragment and ctx.rng.random() < 0.7)
            if inst is None:
                ctx.count("generated.inconsistent_instance")
                continue
            r = b.add(spec, inst, cls)
            if r is not None and r.status == "ok" and len(ctx.samples) < 3:
                ctx.sample({"family": "generated", "format": r.fmt, "printed": G.op_text(r.rt.custom).strip()[:200]})
        if len(b.cases) >= 4000:
            b.finish()
            left, gleft = b.malformed_budget, b.generic_budget
            b = GenBatch(ctx, "generated")
            b.malformed_budget, b.generic_budget = left, gleft
    b.finish()


# ---------------------------------------------------------------------------------------------
# the binding checks of the format compiler  ⇔  accD   (accepted formats AND refused variants)
# ---------------------------------------------------------------------------------------------

def run_acceptance(ctx: core.Ctx, nspecs: int, reserve: float) -> None:
    """formats are encoded from the SPEC (not from a compiled program), so that formats the compiler
    refuses reach the model: compiler accepts ⇒ accD; compiler refuses with one of its binding errors ⇒
    ¬accD.  Specs without type inference through a constraint variable and without same-size options."""
    items = []
    for k in range(nspecs):
        if ctx.time_left() < reserve:
            ctx.count("acceptance.skipped_for_time", nspecs - k)
            break
        spec = G.random_spec(ctx.rng, model_fragment=True, risky=0.05)
        variants = [(spec, "original")]
        for _ in range(2):
            v = A.break_spec(ctx.rng, spec)
            if v is not None:
                variants.append(v)
        for sp, how in variants:
            try:
                cls = G.make_op(sp, with_format=False)
            except G.Rejected:
                ctx.count("acceptance.definition_rejected")
                continue
            except Exception:  # noqa: BLE001
                ctx.count("acceptance.definition_error")
                continue
            fmt = G.render_fmt(sp["fmt"])
            verdict, msg = A.compile_verdict(cls, fmt)
            T = G.Tables()
            try:
                fl = A.encode_fmt_spec(sp, cls, T)
                if verdict == "ok":
                    fl2 = G.encode_fmt(G.FormatProgramOf(cls, fmt), T)
                    if not A.same_encoding(fl, fl2):
                        raise core.InfraError(f"C05: spec encoder and program encoder disagree on `{fmt}`: {fl} / {fl2}")
                dl = G.defs_line(cls, T) + " " + G.func_types_field(T)
            except G.Unmodelled:
                ctx.count("acceptance.unmodelled")
                continue
            ctx.count(f"acceptance.{how}.{verdict}")
            if verdict == "other":
                ctx.count("acceptance.other_error(" + re.sub(r"'[^']*'", "'…'", msg)[:50] + ")")
                continue
            items.append((sp, how, verdict, msg, [dl, fl, "acc"]))
    if not items:
        return
    lines = ["reset"]
    for it in items:
        lines += it[4]
    out = ctx.model("decl_generic", lines)
    for k, (sp, how, verdict, msg, ls) in enumerate(items):
        o = out[1 + 3 * k: 4 + 3 * k]
        ctx.ev()
        case = {"family": "acceptance", "spec": sp, "variant": how}
        if o[0] != "ok" or o[1] != "ok":
            ctx.mismatch("correspondence:C05/decl_format.encoding", case, ls[:2], o[:2], "the Lean driver refused the encoded format")
            continue
        ctx.count(f"acceptance.compiler_{verdict}.accD={o[2]}")
        if (verdict == "ok") != (o[2] == "true"):
            ctx.mismatch("correspondence:C05/decl_format.accD", case, f"format compiler: {verdict} {msg}", f"accD = {o[2]}",
                         f"`{G.render_fmt(sp['fmt'])}`: the binding checks of the format compiler and accD disagree")
        elif verdict == "binding":
            ctx.nt(("acceptance", G.render_fmt(sp["fmt"]), msg))


# ---------------------------------------------------------------------------------------------
# the registered declarative formats: how many are inside the proved fragment / satisfy wfD
# ---------------------------------------------------------------------------------------------

def run_registry(ctx: core.Ctx) -> None:
    """informational (never a failure): every registered operation with an `assembly_format` is
    compiled, encoded and put to `fragD` / `wfD` (continuation classes: `}` only, and `}`/value/block
    label/string literal = what may follow a non-terminator)"""
    from xdsl.dialects import get_all_dialects
    from xdsl.irdl import IRDLOperation

    lines = ["reset"]
    names = []
    for dn, f in sorted(get_all_dialects().items()):
        try:
            d = f()
        except Exception:  # noqa: BLE001
            continue
        for op in d.operations:
            if not (isinstance(op, type) and issubclass(op, IRDLOperation)):
                continue
            od = op.get_irdl_definition()
            if od.assembly_format is None:
                continue
            ctx.count("registry.declarative_formats")
            try:
                T = G.Tables()
                fl = G.encode_fmt(G.compiled_program(op), T)
            except G.Unmodelled as e:
                ctx.count("registry.unmodelled(" + str(e).split(" ")[0][:30] + ")")
                continue
            except Exception as e:  # noqa: BLE001
                ctx.count("registry.encode_error." + core.exc_name(e))
                continue
            try:
                dl = G.defs_line(op, T) + " " + G.func_types_field(T)
            except Exception as e:  # noqa: BLE001
                ctx.count("registry.defs_error." + core.exc_name(e))
                continue
            names.append(op.name)
            lines += [dl, fl, "fragment", "why p:}", "why p:} v s a", "wfa", "acc"]
    out = ctx.model("decl_generic", lines)
    not_wf = []
    for k, n in enumerate(names):
        o = out[1 + 7 * k: 1 + 7 * k + 7]
        if o[0] != "ok" or o[1] != "ok":
            ctx.count("registry.model_refuses_encoding")
            continue
        ctx.count(f"registry.fragment={o[2]}")
        ctx.count("registry.wfD(follow=})=" + ("true" if o[3] == "ok" else "false"))
        ctx.count("registry.wfD(follow=any)=" + ("true" if o[4] == "ok" else "false"))
        ctx.count(f"registry.wfA={o[5]}")
        ctx.count(f"registry.accD={o[6]}")
        words = fl.split(" ")
        has_agg = any(w in ("oa", "ota", "rta") or w.startswith("ft:") for w in words)
        if has_agg:
            ctx.count("registry.with_aggregate_directive")
        if o[3] == "ok" and o[5] == "true":
            ctx.count("registry.in_theorem_class(follow=})")
            if has_agg:
                ctx.count("registry.in_theorem_class(follow=}).with_aggregate_directive")
        if o[3] != "ok":
            not_wf.append(f"{n}: {o[3]}")
        elif o[5] != "true":
            not_wf.append(f"{n}: wfA (aggregate directive with several variadic definitions: same-size option)")
    ctx.extra["registry_formats_rejected_by_wfD"] = not_wf[:60]


# ---------------------------------------------------------------------------------------------
# corpus and pass outputs
# ---------------------------------------------------------------------------------------------

def has_custom_op(module) -> bool:
    return any(R.format_kind(o) != "generic" for o in module.walk() if o is not module)


def check_module(ctx: core.Ctx, module, case: dict[str, Any], family: str) -> bool:
    ctx.ev()
    rt = R.roundtrip(module)
    if rt.stage == "generic":
        ctx.count(f"{family}.generic_form_broken(C04)")
        return True
    for o in module.walk():
        ctx.count(f"{family}.ops.{R.format_kind(o)}")
    sem_ok = F.check_bindings(ctx, module, rt, case, family)
    if rt.ok:
        return sem_ok
    for f in R.reduce_failure(module, rt):
        c = dict(case)
        c["op"] = f.op_name
        c["isolated"] = f.isolated
        if f.isolated:
            c["generic_text"] = f.rt.generic[:3000]
        for sig in P.refine_signatures(f):
            ctx.fail(f.call_site, sig, c,
                     f"{f.op_name}: {f.rt.detail}"[:500],
                     {"stage": f.rt.stage, "custom": f.rt.custom[:1500], "detail": f.rt.detail[:600]}, None)
        ctx.count(f"{family}.fail.{f.rt.stage}")
    return False


def run_corpus(ctx: core.Ctx, pass_names: list[str], pass_stride: int, reserve: float, ix: P.Index | None = None) -> None:
    """EVERY chunk of every tests/**/*.mlir file, in every tier (no sampling)"""
    from props import c04

    chunks = I.corpus_chunks()
    ctx.count("corpus.chunks", len(chunks))
    ctx.count("corpus.files", len({p for p, _, _ in chunks}))
    passes = c04.load_passes(pass_names)
    baseline = P.load_baseline()
    if not baseline:
        raise core.InfraError(f"baseline of verified corpus chunks missing: {P.BASELINE}")
    nmod = 0
    files_reached: set[str] = set()
    for k, (path, idx, text) in enumerate(chunks):
        if ctx.time_left() < reserve:
            ctx.count("corpus.skipped_for_time", len(chunks) - k)
            break
        m, why = P.parse_verify(text)
        if m is None:
            ctx.count("corpus.unparsed_or_unverified")
            if baseline.get(P.chunk_key(path, idx)) == P.text_hash(text):
                # it parsed and verified at the pinned state: a parser/verifier stopped accepting it
                ctx.ev()
                P.report_lost_chunk(ctx, path, idx, text, why)
            continue
        nmod += 1
        files_reached.add(path)
        ctx.count("corpus.verified")
        if P.chunk_key(path, idx) not in baseline:
            ctx.count("corpus.verified_but_not_in_baseline")
        if has_custom_op(m):
            ctx.nt(("corpus", path, idx))
        if ix is not None:
            ix.add_module(m, path, idx)
        check_module(ctx, m, {"family": "corpus", "file": path, "chunk": idx}, "corpus")
        if passes and (k % pass_stride == 0):
            for pname, pcls in passes:
                if ctx.time_left() < reserve:
                    break
                out = c04.apply_pass(pcls, text)
                if out is None:
                    ctx.count("pass.not_applicable")
                    continue
                ctx.count("pass.outputs")
                ctx.programs += 1
                ctx.nt(("pass", pname, path, idx))
                check_module(ctx, out, {"family": "pass", "pass": pname, "file": path, "chunk": idx}, "pass")
    ctx.count("corpus.files_with_a_verified_chunk", len(files_reached))
    ctx.sample({"family": "corpus", "verified_modules": nmod})


# ---------------------------------------------------------------------------------------------

def run(ctx: core.Ctx) -> None:
    timing: dict[str, float] = {}

    def timed(name: str, f, *a, **k) -> None:
        t = time.time()
        f(*a, **k)
        timing[name] = round(time.time() - t, 1)

    timed("lean", ctx.lean)
    timed("catalogue", run_catalogue, ctx)
    timed("registry", run_registry, ctx)
    from props import c04

    timed("text_catalogue", P.run_text_catalogue, ctx, check_module)
    if ctx.tier == "quick":
        timed("affine_expr", F.run_family, ctx, 900, 8, reserve=110)
    else:
        timed("affine_expr", F.run_family, ctx, 12000, 8, reserve=900)
    ix = P.Index()
    if ctx.tier == "quick":
        timed("acceptance", run_acceptance, ctx, 250, reserve=100)
        timed("generated", run_generated, ctx, 1000, 4, reserve=90, generic=1500)
        timed("corpus", run_corpus, ctx, [], 1, reserve=30, ix=ix)
        timed("funclike", P.run_funclike, ctx, ix, check_module, per_class=2, reserve=12)
        timed("perturb", P.run_perturb, ctx, ix, check_module, per_class=2, max_module_ops=40, reserve=3)
    else:
        timed("corpus", run_corpus, ctx, c04.PASSES_THOROUGH, 1, reserve=500, ix=ix)
        timed("funclike", P.run_funclike, ctx, ix, check_module, per_class=8, reserve=420)
        timed("perturb", P.run_perturb, ctx, ix, check_module, per_class=6, max_module_ops=400, reserve=300)
        timed("acceptance", run_acceptance, ctx, 4000, reserve=200)
        timed("generated", run_generated, ctx, 40000, 5, reserve=20, generic=40000)
    ctx.extra["timing_s"] = timing
    ctx.exhaustive = True
    ctx.extra["exhaustive_scope"] = (
        "corpus: every chunk of tests/**/*.mlir that parses and verifies; catalogue: every listed format × all small "
        "instances; generated formats/instances and pass outputs are random samples")


def replay(ctx: core.Ctx, body: dict) -> int:
    case = body.get("case") or {}
    fam = case.get("family")
    bad = False
    if fam == "generated":
        spec, inst = case["spec"], case["inst"]
        print("format:", G.render_fmt(spec["fmt"]))
        print("definitions:", json.dumps(spec["defs"]))
        r = G.run_case(spec, inst)
        print("status:", r.status, r.detail)
        if r.rt is not None:
            print("custom text:\n" + r.rt.custom)
            print("round trip (custom vs generic):", "ok" if r.rt.ok else f"FAILS at {r.rt.stage}: {r.rt.detail}")
            bad = not r.rt.ok
        if r.modelled:
            o = ctx.model("decl_format", ["reset"] + r.lines)[1:]
            for l, x in zip(r.lines, o):
                print(f"  model  {l[:110]:112s} => {x}")
            print("  real printed text (no whitespace):", r.impl_print)
            print("  real parsed instance:             ", r.impl_parse)
    elif fam == "malformed":
        spec, inst = case["spec"], case["inst"]
        print("format:", G.render_fmt(spec["fmt"]))
        r = G.run_case(spec, inst)
        real = G.real_parse_tokens(spec, inst, r, case["tokens"])
        o = ctx.model("decl_format", ["reset"] + r.lines[:3] + ["parse p:} " + (" ".join(case["tokens"]) or "-")])
        print("tokens:", " ".join(case["tokens"]))
        print("text:  gen.op", G.render_tokens(" ".join(case["tokens"]) or "-", r.tables, r.prog, sep=" "))
        print("real parser:", real)
        print("model:      ", o[-1])
        bad = o[-1].startswith("some ") and real != o[-1][5:]
        print("correspondence", "BROKEN" if bad else "holds", "on this case")
        return 1 if bad else 0
    elif fam == "generic":
        spec, inst = case["spec"], case["inst"]
        print("format:", G.render_fmt(spec["fmt"]))
        r = G.run_case(spec, inst, with_generic=True)
        if r.generic is None:
            print("generic leg not applicable:", r.status, r.generic_skip)
            return 0
        g = r.generic
        o = ctx.model("decl_generic", ["reset"] + r.lines + g.lines)[1:]
        mt = A.render_model_generic(o[7], g)
        real = A.real_generic_parse(r.module, r.cls, r.tables, r.nvals, r.nblocks)
        print("generic text:      ", g.text.strip()[:400])
        print("real tokens:       ", " ".join(g.real_toks))
        print("printGeneric:      ", " ".join(mt), "   (driver tokens:", o[7], ")")
        print("real generic parse:", real)
        print("parseGeneric:      ", o[8])
        print("custom (parseD):   ", o[5])
        bad = mt != g.real_toks or (real is not None and o[8] != "some " + real)
        print("correspondence", "BROKEN" if bad else "holds", "on this case")
        return 1 if bad else 0
    elif fam == "acceptance":
        spec = case["spec"]
        fmt = G.render_fmt(spec["fmt"])
        print("format:", fmt)
        print("definitions:", json.dumps(spec["defs"]), json.dumps(spec.get("opts", {})))
        cls = G.make_op(spec, with_format=False)
        verdict, msg = A.compile_verdict(cls, fmt)
        T = G.Tables()
        fl = A.encode_fmt_spec(spec, cls, T)
        dl = G.defs_line(cls, T) + " " + G.func_types_field(T)
        o = ctx.model("decl_generic", ["reset", dl, fl, "acc"])
        print("format compiler:", verdict, msg)
        print("model:", dl, "|", fl, "=> accD =", o[-1])
        bad = verdict != "other" and ((verdict == "ok") != (o[-1] == "true"))
        print("correspondence", "BROKEN" if bad else "holds", "on this case")
        return 1 if bad else 0
    elif fam == "affine-expr":
        return F.replay_case(ctx, case)
    elif fam == "lost-chunk":
        text = (core.REPO / case["file"]).read_text().split("// -----")[case["chunk"]]
        m, why = P.parse_verify(text)
        if m is None:
            print(f"{case['file']} chunk {case['chunk']} no longer {why[0]}s: {core.exc_name(why[1])}: {str(why[1]).strip()[-600:]}")
            print("property FAILS on this case (the chunk parsed and verified at the pinned state)")
            return 1
        print("the chunk parses and verifies")
        return 0
    elif fam in ("corpus", "pass", "perturb", "funclike", "text-catalogue"):
        if case.get("generic_text"):
            print("isolated operation (generic form):\n" + case["generic_text"])
            try:
                m = I.parse_module(case["generic_text"])
            except Exception as e:  # noqa: BLE001
                print("isolated text no longer parses:", e)
                m = None
        elif fam in ("perturb", "funclike", "text-catalogue"):
            print("case without an isolated operation:", json.dumps({k: v for k, v in case.items()})[:600])
            m = None
        else:
            text = (core.REPO / case["file"]).read_text().split("// -----")[case["chunk"]]
            if fam == "pass":
                from props import c04

                m = c04.apply_pass(dict(c04.load_passes([case["pass"]]))[case["pass"]], text)
            else:
                m = I.parse_verified(text)
        if m is None:
            print("module no longer available")
            return 0
        rt = R.roundtrip(m)
        print("custom text:\n" + rt.custom[:3000])
        print("round trip (custom vs generic):", "ok" if rt.ok else f"FAILS at {rt.stage}: {rt.detail}")
        bad = not rt.ok
        if rt.parsed is not None:
            for f in F.sem_check(m, rt.parsed):
                print(f.signature + ": " + f.detail)
                bad = True
    else:
        print("replay has no executable case:", body.get("kind"), body.get("theorem_or_correspondence"))
        print((body.get("description") or "")[:3000])
        return 1
    print("property", "FAILS" if bad else "holds", "on this case")
    return 1 if bad else 0
