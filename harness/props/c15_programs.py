"""C15, second half: multi-operation programs on the real interpreter vs the Lean reference semantics."""
from __future__ import annotations

from vp import core, miniir, proggen


def run_programs(ctx: core.Ctx) -> None:
    cfg = proggen.Config()
    # the known, listed op-level finding (unsigned cmpi on mixed representatives) is kept out of the
    # program stream so that any program-level difference is new; f32 arithmetic is in the stream since
    # run_addf/run_subf/run_mulf round their result to the result type
    cfg.cmpi_preds = ["eq", "ne", "slt", "sle", "sgt", "sge"]
    g = proggen.ProgGen(ctx.rng, cfg)
    nprog = 120 if ctx.tier == "quick" else 1500
    lines: list[str] = []
    expect: list[tuple[dict, list, str]] = []
    skipped = 0
    for _ in range(nprog):
        if ctx.time_left() < 20:
            break
        p = g.program()
        try:
            m = proggen.parse_module(p["text"])
            sexp = miniir.serialize(m)
        except Exception as e:  # noqa: BLE001
            skipped += 1
            ctx.count("programs.generator_rejected." + core.exc_name(e))
            continue
        lines.append("prog " + sexp)
        expect.append((p, [], "ok"))
        for vec in g.inputs(p["arg_types"], 4):
            impl = miniir.run_real(m, "main", vec)
            lines.append("run 200000 main " + " ".join(miniir.arg_text(t, v) for t, v in zip(p["arg_types"], vec)))
            expect.append((p, vec, impl))
            ctx.ev()
        ctx.programs += 1
    outs = ctx.model("sem", lines)
    for (p, vec, impl), out in zip(expect, outs):
        if not vec and impl == "ok":
            if out != "ok":
                raise core.InfraError("MiniIR serialisation rejected by the Lean parser: " + p["text"][:400])
            continue
        kind = out.split(" ")[0]
        ctx.count("programs.outcome." + kind)
        if kind in ("ub", "fuel") or impl == "raise TimeoutError":
            continue  # MLIR does not define the result / too long: excluded from the comparison
        if kind == "err":
            ctx.count("programs.unsupported_in_reference")
            continue
        ctx.disagreements_checked += 1
        ctx.nt(("prog", p["text"], tuple(map(repr, vec))))
        if impl != out:
            ctx.fail("xdsl.interpreter.Interpreter.call_op", "program result differs from the MLIR reference semantics",
                     {"program": p["text"], "args": [repr(v) for v in vec], "arg_types": p["arg_types"]},
                     "interpreting @main gave a different result / effect log than the Lean reference semantics", impl, out)
    ctx.extra["program_stream"] = {"generated": ctx.programs, "rejected_by_parser_or_serialiser": skipped}
    if expect:
        ctx.sample({"program": expect[0][0]["text"], "arg_types": expect[0][0]["arg_types"]})
