"""C15, second half: multi-operation programs on the real interpreter vs the Lean reference semantics."""
from __future__ import annotations

from typing import Any

from vp import core, miniir, proggen


def run_programs(ctx: core.Ctx) -> None:
    cfg = proggen.Config()
    # the known, listed op-level finding (unsigned cmpi on mixed representatives) is kept out of the
    # program stream so that any program-level difference is new; f32 arithmetic is in the stream since
    # run_addf/run_subf/run_mulf round their result to the result type
    cfg.cmpi_preds = ["eq", "ne", "slt", "sle", "sgt", "sge"]
    g = proggen.ProgGen(ctx.rng, cfg)
    nprog = 120 if ctx.tier == "quick" else 1500
    lines: list[str] = []
    expect: list[tuple[dict, list, str]] = []
    skipped = 0
    for _ in range(nprog):
        if ctx.time_left() < 20:
            break
        p = g.program()
        try:
            m = proggen.parse_module(p["text"])
            sexp = miniir.serialize(m)
        except Exception as e:  # noqa: BLE001
            skipped += 1
            ctx.count("programs.generator_rejected." + core.exc_name(e))
            continue
        lines.append("prog " + sexp)
        expect.append((p, [], "ok"))
        for vec in g.inputs(p["arg_types"], 4):
            impl = miniir.run_real(m, "main", vec)
            lines.append("run 200000 main " + " ".join(miniir.arg_text(t, v) for t, v in zip(p["arg_types"], vec)))
            expect.append((p, vec, impl))
            ctx.ev()
        ctx.programs += 1
    outs = ctx.model("sem", lines)
    for (p, vec, impl), out in zip(expect, outs):
        if not vec and impl == "ok":
            if out != "ok":
                raise core.InfraError("MiniIR serialisation rejected by the Lean parser: " + p["text"][:400])
            continue
        kind = out.split(" ")[0]
        ctx.count("programs.outcome." + kind)
        if kind in ("ub", "fuel") or impl == "raise TimeoutError":
            continue  # MLIR does not define the result / too long: excluded from the comparison
        if kind == "err":
            ctx.count("programs.unsupported_in_reference")
            continue
        ctx.disagreements_checked += 1
        ctx.nt(("prog", p["text"], tuple(map(repr, vec))))
        if impl != out:
            ctx.fail("xdsl.interpreter.Interpreter.call_op", "program result differs from the MLIR reference semantics",
                     {"program": p["text"], "args": [repr(v) for v in vec], "arg_types": p["arg_types"]},
                     "interpreting @main gave a different result / effect log than the Lean reference semantics", impl, out)
    ctx.extra["program_stream"] = {"generated": ctx.programs, "rejected_by_parser_or_serialiser": skipped}
    if expect:
        ctx.sample({"program": expect[0][0]["text"], "arg_types": expect[0][0]["arg_types"]})


# =================================================================================================
# Round-4 additions.  All three families run AFTER everything that existed before (so the random
# stream of the older generators is unchanged) and use the same oracles as above: the Lean reference
# semantics `sem`, or -- where MiniIR has no notion (nested symbol tables) -- a value known by
# construction.
#   (A) terminator-edge family: every way a cf terminator can forward block arguments (both
#       successors the SAME block with different / permuted operands, successors of different arity,
#       self-loops that permute their own arguments, chains), over all value types, both conditions.
#   (B) sessions: several calls (different functions, repeated inputs) on ONE Interpreter instance;
#       every call must still give the reference result (nothing may leak from one call to the next).
#   (C) symbol resolution: functions whose names only differ in HOW they are spelled (nested
#       reference @a::@b vs flat symbols "a.b", "a::b", "a_b", partially merged paths ...), each
#       computing x + its own constant; called in every order on one interpreter, as str and as
#       SymbolRefAttr, through func.call, and again after the callee was replaced in the module.
# =================================================================================================

EDGE_TYPES = ["i1", "i8", "i32", "i64", "index", "f32", "f64"]
EDGE_VALS = {"i1": [(0, -1), (-1, 0)], "i8": [(11, -22), (-128, 127)], "i32": [(11, 22), (-7, 2)],
             "i64": [(1 << 40, -5), (3, 4)], "index": [(5, 8), (-1, 0)], "f32": [(1.5, -2.0), (0.0, -0.0)],
             "f64": [(0.1, 3.0), (-1.5, 1e10)]}


def edge_programs() -> list[dict]:
    ps: list[dict] = []

    def add(name: str, arg_types: list[str], ret: str, body: str, vecs: list[list]) -> None:
        sig = ", ".join(f"%p{i}: {t}" for i, t in enumerate(arg_types))
        ps.append({"name": name, "arg_types": arg_types, "inputs": vecs,
                   "text": f"builtin.module {{\nfunc.func @main({sig}) -> ({ret}) {{\n{body}}}\n}}\n"})

    for t in EDGE_TYPES:
        vecs = [[c, a, b] for c in (0, -1) for a, b in EDGE_VALS[t]]
        at = ["i1", t, t]
        add(f"same-block/{t}", at, t,
            f"  cf.cond_br %p0, ^m(%p1 : {t}), ^m(%p2 : {t})\n^m(%r: {t}):\n  func.return %r : {t}\n", vecs)
        add(f"same-block-swapped-pair/{t}", at, f"{t}, {t}",
            f"  cf.cond_br %p0, ^m(%p1, %p2 : {t}, {t}), ^m(%p2, %p1 : {t}, {t})\n^m(%r: {t}, %s: {t}):\n"
            f"  func.return %r, %s : {t}, {t}\n", vecs)
        add(f"same-block-one-differs/{t}", at, f"{t}, {t}",
            f"  cf.cond_br %p0, ^m(%p1, %p1 : {t}, {t}), ^m(%p1, %p2 : {t}, {t})\n^m(%r: {t}, %s: {t}):\n"
            f"  func.return %r, %s : {t}, {t}\n", vecs)
        add(f"different-arity/{t}", at, f"{t}, {t}",
            f"  cf.cond_br %p0, ^a(%p2 : {t}), ^b(%p1, %p2 : {t}, {t})\n^a(%x: {t}):\n  func.return %x, %p1 : {t}, {t}\n"
            f"^b(%y: {t}, %z: {t}):\n  func.return %z, %y : {t}, {t}\n", vecs)
        add(f"then-args-only/{t}", at, t,
            f"  cf.cond_br %p0, ^a(%p1 : {t}), ^b\n^a(%x: {t}):\n  func.return %x : {t}\n^b:\n  func.return %p2 : {t}\n", vecs)
        add(f"else-args-only/{t}", at, t,
            f"  cf.cond_br %p0, ^a, ^b(%p2 : {t})\n^a:\n  func.return %p1 : {t}\n^b(%x: {t}):\n  func.return %x : {t}\n", vecs)
        add(f"chain-of-same-block/{t}", ["i1", "i1", t, t], f"{t}, {t}",
            f"  cf.cond_br %p0, ^m(%p2 : {t}), ^m(%p3 : {t})\n^m(%r: {t}):\n"
            f"  cf.cond_br %p1, ^n(%r, %p2 : {t}, {t}), ^n(%p3, %r : {t}, {t})\n^n(%u: {t}, %v: {t}):\n"
            f"  func.return %u, %v : {t}, {t}\n",
            [[c, d, a, b] for c in (0, -1) for d in (0, -1) for a, b in EDGE_VALS[t][:1]])
        add(f"br-swap/{t}", [t, t], f"{t}, {t}",
            f"  cf.br ^m(%p1, %p0 : {t}, {t})\n^m(%r: {t}, %s: {t}):\n  cf.br ^n(%s, %r, %s : {t}, {t}, {t})\n"
            f"^n(%u: {t}, %v: {t}, %w: {t}):\n  func.return %v, %w : {t}, {t}\n", [list(ab) for ab in EDGE_VALS[t]])
    # computed operands on both edges into the same block
    add("abs-diff", ["i32", "i32"], "i32",
        "  %lt = arith.cmpi slt, %p0, %p1 : i32\n  %d0 = arith.subi %p0, %p1 : i32\n  %d1 = arith.subi %p1, %p0 : i32\n"
        "  cf.cond_br %lt, ^m(%d1 : i32), ^m(%d0 : i32)\n^m(%r: i32):\n  func.return %r : i32\n",
        [[3, 10], [10, 3], [5, 5], [-7, 2], [2, -7]])
    # loops whose back edges permute the header's own arguments (parallel assignment), incl. both
    # successors of one cond_br being the header
    loop_vecs = [[n, 11, 22] for n in (0, 1, 2, 3, 4, 7)]
    add("self-loop-swap", ["i32", "i32", "i32"], "i32, i32",
        "  %z = arith.constant 0 : i32\n  %o = arith.constant 1 : i32\n  %m = arith.constant 7 : i32\n"
        "  %n = arith.andi %p0, %m : i32\n  cf.br ^h(%n, %p1, %p2 : i32, i32, i32)\n"
        "^h(%i: i32, %x: i32, %y: i32):\n  %i1 = arith.subi %i, %o : i32\n  %go = arith.cmpi ne, %i, %z : i32\n"
        "  cf.cond_br %go, ^h(%i1, %y, %x : i32, i32, i32), ^e(%x, %y : i32, i32)\n"
        "^e(%u: i32, %v: i32):\n  func.return %u, %v : i32, i32\n", loop_vecs)
    add("self-loop-both-edges", ["i32", "i32", "i32"], "i32, i32",
        "  %z = arith.constant 0 : i32\n  %o = arith.constant 1 : i32\n  %m = arith.constant 7 : i32\n"
        "  %n = arith.andi %p0, %m : i32\n  cf.br ^h(%n, %p1, %p2 : i32, i32, i32)\n"
        "^h(%i: i32, %x: i32, %y: i32):\n  %done = arith.cmpi eq, %i, %z : i32\n"
        "  cf.cond_br %done, ^e(%x, %y : i32, i32), ^b\n"
        "^b:\n  %i1 = arith.subi %i, %o : i32\n  %bit = arith.andi %i, %o : i32\n  %odd = arith.cmpi ne, %bit, %z : i32\n"
        "  %x1 = arith.addi %x, %i : i32\n"
        "  cf.cond_br %odd, ^h(%i1, %y, %x1 : i32, i32, i32), ^h(%i1, %x1, %p1 : i32, i32, i32)\n"
        "^e(%u: i32, %v: i32):\n  func.return %u, %v : i32, i32\n", loop_vecs)
    return ps


def _sem_compare(ctx: core.Ctx, kind: str, out: str, impl: str) -> bool:
    """the comparison rule of `run_programs`: True iff this (impl, reference) pair is to be compared"""
    k = out.split(" ")[0]
    ctx.count(f"{kind}.outcome." + k)
    if k in ("ub", "fuel") or impl in ("raise TimeoutError", "skipped"):
        return False
    if k == "err":
        ctx.count(f"{kind}.unsupported_in_reference")
        return False
    return True


def run_cfg_edges(ctx: core.Ctx) -> None:
    lines: list[str] = []
    expect: list[tuple[dict, list | None, str]] = []
    for p in edge_programs():
        m = proggen.parse_module(p["text"])
        lines.append("prog " + miniir.serialize(m))
        expect.append((p, None, "ok"))
        for vec in p["inputs"]:
            impl = miniir.run_real(m, "main", vec)
            lines.append("run 200000 main " + " ".join(miniir.arg_text(t, v) for t, v in zip(p["arg_types"], vec)))
            expect.append((p, vec, impl))
            ctx.ev()
        ctx.programs += 1
        ctx.count("edges.programs")
    outs = ctx.model("sem", lines)
    for (p, vec, impl), out in zip(expect, outs):
        if vec is None:
            if out != "ok":
                raise core.InfraError("MiniIR serialisation rejected by the Lean parser: " + p["text"][:400])
            continue
        if not _sem_compare(ctx, "edges", out, impl):
            continue
        ctx.disagreements_checked += 1
        ctx.nt(("edge", p["name"], tuple(map(repr, vec))))
        if impl != out:
            ctx.fail("xdsl.interpreter.Interpreter.call_op", "program result differs from the MLIR reference semantics",
                     {"program": p["text"], "args": [repr(v) for v in vec], "arg_types": p["arg_types"], "family": "edge:" + p["name"]},
                     "block arguments forwarded by a cf terminator: interpreting @main gave a different result than the Lean reference semantics",
                     impl, out)


def _helper_names(text: str) -> list[str]:
    import re
    return re.findall(r"func\.func @(helper\d+)\(", text)


def run_sessions(ctx: core.Ctx) -> None:
    cfg = proggen.Config()
    cfg.cmpi_preds = ["eq", "ne", "slt", "sle", "sgt", "sge"]
    cfg.cf_extras = True
    cfg.cf_extras_select = False     # the interpreter has no arith.select
    cfg.max_stmts = 6
    g = proggen.ProgGen(ctx.rng, cfg)
    want = 30 if ctx.tier == "quick" else 300
    lines: list[str] = []
    sessions: list[tuple[dict, list[tuple[str, list[str], list]], list[str]]] = []
    tries = 0
    # the first 30 sessions cost about a second and are not subject to the budget: what the check covers
    # must not depend on how loaded the machine is
    while len(sessions) < want and tries < 6 * want and (len(sessions) < 30 or ctx.time_left() > 20):
        tries += 1
        p = g.program()
        try:
            m = proggen.parse_module(p["text"])
            sexp = miniir.serialize(m)
        except Exception as e:  # noqa: BLE001
            ctx.count("sessions.generator_rejected." + core.exc_name(e))
            continue
        vs = g.inputs(p["arg_types"], 2)
        calls: list[tuple[str, list[str], list]] = [("main", p["arg_types"], vs[0])]
        for h in _helper_names(p["text"]):
            for hv in g.inputs(["i32", "i32"], 2):
                calls.append((h, ["i32", "i32"], hv))
        calls += [("main", p["arg_types"], vs[1]), ("main", p["arg_types"], vs[0])]
        if len(calls) > 3:
            calls.append(calls[1])
        impls = miniir.run_real_session(m, [(f, a) for f, _, a in calls])
        lines.append("prog " + sexp)
        for f, tys, a in calls:
            lines.append(f"run 200000 {f} " + " ".join(miniir.arg_text(t, v) for t, v in zip(tys, a)))
            ctx.ev()
        sessions.append((p, calls, impls))
        ctx.programs += 1
    outs = iter(ctx.model("sem", lines))
    for p, calls, impls in sessions:
        if next(outs) != "ok":
            raise core.InfraError("MiniIR serialisation rejected by the Lean parser: " + p["text"][:400])
        refs = [next(outs) for _ in calls]
        for k, (impl, out) in enumerate(zip(impls, refs)):
            if not _sem_compare(ctx, "sessions", out, impl):
                continue
            ctx.disagreements_checked += 1
            ctx.nt(("session", p["text"], k))
            if impl != out:
                # shrink: does the call fail on a fresh interpreter as well?
                f, tys, a = calls[k]
                alone = miniir.run_real_session(proggen.parse_module(p["text"]), [(f, a)])[0]
                keep = calls[k:k + 1] if alone != out else calls[:k + 1]
                ctx.fail("xdsl.interpreter.Interpreter.call_op",
                         "program result differs from the MLIR reference semantics" if alone != out
                         else "result of a call depends on earlier calls on the same Interpreter",
                         {"program": p["text"], "session": [[f2, t2, [repr(v) for v in a2]] for f2, t2, a2 in keep]},
                         f"call #{len(keep) - 1} of the session (all calls on one Interpreter) gave a different result / effect log "
                         "than the Lean reference semantics", impl, out)
                break
    ctx.count("sessions.run", len(sessions))


# ---------------------------------------------------------------------------------------- (C) symbols
SYM_SEPS = [".", "::", "_", "/", "$", ""]


def symbol_family(rng) -> list[tuple[str, ...]]:
    """paths (tuple = nesting through builtin.module symbol tables, last = func name); every path is
    unique, but many coincide once a path is flattened to one string with some separator"""
    words = rng.sample(["lib", "inc", "sub", "a", "b", "f", "main", "x0"], 3)
    r, s, l = words
    nested = [(r, l), (r, s, l), (s, l), (r, r), (r, s, r)]
    paths: list[tuple[str, ...]] = [(l,), (r + l,)]
    for p in nested:
        paths.append(p)
        for sep in SYM_SEPS:
            paths.append((sep.join(p),))
            if len(p) == 3:
                paths.append((sep.join(p[:2]), p[2]))
                paths.append((p[0], sep.join(p[1:])))
    out: list[tuple[str, ...]] = []
    for p in paths:
        # a name is either a function or a nested module in its symbol table, never both
        if p not in out and not any(q[:len(p)] == p or p[:len(q)] == q for q in out):
            out.append(p)
    return out


def symbol_module_text(paths: list[tuple[str, ...]], consts: list[int]) -> str:
    def q(n: str) -> str:
        return '@"' + n + '"'

    def table(prefix: tuple[str, ...], ind: str) -> str:
        s = ""
        subs: list[str] = []
        for p, k in zip(paths, consts):
            if p[:len(prefix)] != prefix:
                continue
            rest = p[len(prefix):]
            if len(rest) == 1:
                s += (f"{ind}func.func {q(rest[0])}(%x: i32) -> i32 {{\n{ind}  %k = arith.constant {k} : i32\n"
                      f"{ind}  %r = arith.addi %x, %k : i32\n{ind}  func.return %r : i32\n{ind}}}\n")
                if not prefix:
                    s += (f"{ind}func.func {q('call ' + rest[0])}(%x: i32) -> i32 {{\n"
                          f"{ind}  %r = func.call {q(rest[0])}(%x) : (i32) -> i32\n{ind}  func.return %r : i32\n{ind}}}\n")
            elif rest[0] not in subs:
                subs.append(rest[0])
        for name in subs:
            s += f"{ind}builtin.module {q(name)} {{\n" + table(prefix + (name,), ind + "  ") + f"{ind}}}\n"
        return s

    return "builtin.module {\n" + table((), "  ") + "}\n"


def _sym_ref(path: list[str] | tuple[str, ...], how: str) -> Any:
    from xdsl.dialects.builtin import SymbolRefAttr
    if how == "str":
        return path[0]
    if how == "call":
        return "call " + path[0]
    return SymbolRefAttr(path[0], tuple(path[1:]))


def _replace_callee(module, path, new_const: int) -> None:
    """what a rewriting pass does: the func.func named by `path` is erased and a new one with the
    same name (adding `new_const`) is inserted in its place"""
    from xdsl.dialects import arith, builtin, func
    from xdsl.traits import SymbolTable
    from xdsl.dialects.builtin import SymbolRefAttr

    old = SymbolTable.lookup_symbol(module, SymbolRefAttr(path[0], tuple(path[1:])))
    assert isinstance(old, func.FuncOp)
    new = old.clone()
    for o in new.body.block.ops:
        if isinstance(o, arith.ConstantOp):
            o.properties["value"] = builtin.IntegerAttr(new_const, builtin.i32)
    blk = old.parent_block()
    blk.insert_op_before(new, old)
    blk.erase_op(old)


def run_symbol_session(text: str, steps: list[list], parsed: Any = None) -> list[str]:
    """steps: ["call", path, how, x] | ["replace", path, new_const]; one Interpreter for all of them
    (`parsed`: the already parsed module of `text`, usable when no step edits it)"""
    m = parsed if parsed is not None and not any(st[0] == "replace" for st in steps) else proggen.parse_module(text)
    it = miniir.make_interpreter(m, [], [])
    out = []
    for st in steps:
        if st[0] == "replace":
            _replace_callee(m, st[1], st[2])
            m.verify()
            out.append("replaced")
            continue
        try:
            res = it.call_op(_sym_ref(st[1], st[2]), (st[3],))
            out.append("ok [" + ",".join(miniir.show_val("i32", v) for v in res) + "]")
        except Exception as e:  # noqa: BLE001
            out.append("raise " + core.exc_name(e))
            break
    return out


def symbol_expected(paths: list[tuple[str, ...]], consts: list[int], steps: list[list]) -> list[str]:
    cur = {tuple(p): k for p, k in zip(paths, consts)}
    out = []
    for st in steps:
        if st[0] == "replace":
            cur[tuple(st[1])] = st[2]
            out.append("replaced")
        else:
            v = (st[3] + cur[tuple(st[1])] + (1 << 31)) % (1 << 32) - (1 << 31)
            out.append(f"ok [i32:{v}]")
    return out


def run_symbols(ctx: core.Ctx) -> None:
    nfam = 2 if ctx.tier == "quick" else 12
    for fam in range(nfam):
        if fam >= 2 and ctx.time_left() < 20:     # two families (a few seconds) always run
            break
        paths = symbol_family(ctx.rng)
        consts = [1000 * (i + 1) + 7 for i in range(len(paths))]
        text = symbol_module_text(paths, consts)
        try:
            parsed = proggen.parse_module(text)
        except Exception as e:  # noqa: BLE001
            raise core.InfraError("symbol family module rejected: " + core.exc_name(e) + " " + text[:300])
        ctx.programs += 1
        entries: list[tuple[tuple[str, ...], str]] = []
        for p in paths:
            entries += [(p, "ref")] + ([(p, "str"), (p, "call")] if len(p) == 1 else [])
        ctx.count("symbols.entries", len(entries))
        sessions: list[list[list]] = [[["call", list(p), how, 5]] for p, how in entries]           # each alone
        by_flat: dict[str, list] = {}
        for e in entries:
            for sep in SYM_SEPS:
                by_flat.setdefault(sep.join(e[0]), []).append(e)
        pairs = [(a, b) for grp in by_flat.values() for a in grp for b in grp if a[0] != b[0]]      # colliding spellings
        pairs += [tuple(ctx.rng.sample(entries, 2)) for _ in range(60)]                             # and arbitrary ones
        seen = set()
        for a, b in pairs:
            if (a, b) in seen:
                continue
            seen.add((a, b))
            sessions.append([["call", list(a[0]), a[1], 5], ["call", list(b[0]), b[1], -3], ["call", list(a[0]), a[1], 2147483647]])
        for p, how in ctx.rng.sample(entries, min(12, len(entries))):                              # callee replaced between calls
            sessions.append([["call", list(p), how, 1], ["replace", list(p), 424242], ["call", list(p), how, 1]])
        full_text, reported = text, set()
        for steps in sessions:
            sig = ("a call runs a function that is no longer in the module" if any(s[0] == "replace" for s in steps)
                   else "a call runs a function other than the one its symbol names")
            if sig in reported:
                continue
            text = full_text
            got = run_symbol_session(text, steps, parsed)
            exp = symbol_expected(paths, consts, steps)
            ctx.ev()
            ctx.nt(("symbols", full_text, json_key(steps)))
            if got != exp:
                # shrink: the module with only the functions the session names
                used = [p for p in paths if any(list(p) == st[1] for st in steps)]
                for keep in (used, [p for p in paths if p in used or len(p) == 1], None):
                    if keep is None:
                        break
                    c2 = [consts[paths.index(p)] for p in keep]
                    t2 = symbol_module_text(keep, c2)
                    g2, e2 = run_symbol_session(t2, steps), symbol_expected(keep, c2, steps)
                    if g2 != e2:
                        text, got, exp = t2, g2, e2
                        break
                k = next((i for i, (x, y) in enumerate(zip(got, exp)) if x != y), min(len(got), len(exp)))
                ctx.fail("xdsl.interpreter.Interpreter.call_op",
                         sig,
                         {"program": text, "symbol_session": steps, "expected": exp},
                         f"step #{k} on one Interpreter: every function @p computes x + its own constant; the symbol must resolve through "
                         "the nested symbol tables exactly as written (MLIR symbol resolution)", got, exp)
                reported.add(sig)
        ctx.count("symbols.sessions", len(sessions))


def json_key(o: Any) -> str:
    import json
    return json.dumps(o, sort_keys=True)


def run_round4(ctx: core.Ctx) -> None:
    run_cfg_edges(ctx)
    run_symbols(ctx)
    run_sessions(ctx)


def replay_case(ctx: core.Ctx, body: dict) -> int | None:
    """replay of the program-level case kinds; None if `body` is not one of them"""
    case = body["case"]
    if "symbol_session" in case:
        got = run_symbol_session(case["program"], case["symbol_session"])
        print(case["program"])
        print("steps:", case["symbol_session"])
        print("implementation:", got)
        print("expected      :", case["expected"])
        return 0 if got == case["expected"] else 1

    def val(t: str, r: str) -> Any:
        return float(r) if t in ("f32", "f64") else int(r)

    if "session" in case or ("program" in case and "args" in case):
        calls = case.get("session") or [["main", case["arg_types"], case["args"]]]
        m = proggen.parse_module(case["program"])
        cs = [(f, [val(t, r) for t, r in zip(tys, a)]) for f, tys, a in calls]
        impls = miniir.run_real_session(m, cs)
        lines = ["prog " + miniir.serialize(m)] + [
            f"run 200000 {f} " + " ".join(miniir.arg_text(t, v) for t, v in zip(tys, vs)) for (f, vs), (_, tys, _) in zip(cs, calls)]
        refs = ctx.model("sem", lines)[1:]
        print(case["program"])
        rc = 0
        for (f, vs), i, r in zip(cs, impls, refs):
            bad = i != r and r.split(" ")[0] not in ("ub", "fuel", "err") and i not in ("raise TimeoutError", "skipped")
            print(f"@{f}{tuple(vs)}: implementation: {i}; MLIR reference semantics: {r}" + ("   <-- differs" if bad else ""))
            rc |= bad
        return int(rc)
    return None
