"""C18 — pass pipeline specifications round-trip through text."""
from __future__ import annotations

import dataclasses
import itertools
import math
import re
import struct
import types
import typing
from typing import Any

from vp import core

META = {
    "title": "Pass pipeline specifications round-trip through text",
    "category": "proof",
    "design_ref": "DESIGN.md §5 C18",
    "lean_modules": ["XdslProofs.C18", "XdslProofs.C18Typed"],
    "text": (
        "Lean theorems over the model of xdsl/utils/arg_spec.py (the ten lexer rules as matchers in "
        "priority order on List Char, the recursive-descent parser, the printer, the typed "
        "conversion): spec_roundtrip / pipeline_roundtrip — parsing the printed text of any spec / "
        "pipeline whose values are ints, bools, strings over arbitrary characters, floats (carried by "
        "their CPython repr; law float(printed repr x)=x is a stated parameter), in tuples of any "
        "length, gives back exactly that spec / pipeline; parse_total — for every input string the "
        "parser returns specs or one of the nine ArgSpecParseError messages, never asks the token "
        "generator past EOF; field_roundtrip_partial / pass_roundtrip_partial / "
        "pass_text_roundtrip_partial — from_spec∘spec (also through print and parse) is the "
        "identity on well-typed instances outside the two listed ambiguous regions, each with a "
        "…_counterexample theorem. The model is tied "
        "to /repo on every run: lexer, parser, printer, conversion, spec() and from_spec() of the "
        "real code are run on every registered pass class x generated option values, on generated "
        "pipelines, on every string up to a length bound over a 14-character alphabet (also behind "
        "the prefixes `a{` and `a{b=`) and on fuzzed strings, and compared with the Lean driver "
        "token by token / value by value / error message and position. Direct oracle only (no Lean "
        "counterpart: the model's from_spec is a pure function, so this is a fact about the Python "
        "objects): the spec parsed from a text is a value - from_spec leaves it exactly as parsed "
        "(name, option order, values, printed text), also when it ends in an option error, and a second "
        "from_spec of the same parsed spec / a second instantiation of the same parsed pipeline / a second "
        "PassPipeline.parse_spec of the same text gives the same passes or the same error."
    ),
    "technique": "Lean 4 proofs on a hand model + bounded-exhaustive and random differential correspondence + direct round-trip/totality oracle on the real classes",
    "level_note": (
        "Trusted: Lean kernel; hand-written model XdslModel/ArgSpec.lean (tied by correspondence only); "
        "CPython's float()/repr() (laws: repr(x) is in the stated grammar and float(printed text)==x, "
        "both re-checked on every generated float); Python re semantics of the ten rules (model "
        "matchers compared on all short strings and fuzz). Equality of passes is dataclass field "
        "equality with NaN equal to NaN (== is not reflexive on NaN). Strings range over Unicode "
        "scalar values in the Lean model; lone surrogates are exercised on the Python side only. "
        "Integers beyond CPython's 4300-digit str/int conversion limit are outside the quantifier. "
        "Option types are the documented ones (int, float, bool, str, Literal of strings, "
        "tuple[T, ...], unions of these, optional); `from_spec` of a class whose __post_init__ "
        "rejects the value is not counted. Two ambiguities of the text format itself are known "
        "findings, not repaired: `()` for a `tuple | None` field reads back as None, and a 1-tuple "
        "`(x,)` in a union that also admits `x` alone reads back as `x`. 'Parses back into an equal "
        "pass' is read as a statement about the text: whenever the spec parsed from it is converted - the "
        "first time or again - the pass is equal, so a conversion that consumes or edits the parsed spec "
        "is a failure even if the first result is right; no demand is made on HOW a `-` spelled option "
        "name converts, only that converting does not change the spec."
    ),
    "rule": (
        "spec level: generated ArgSpec with 0-4 parameters, 0-4 values each (ints incl. negative/huge, "
        "bools, floats incl. exponent forms/inf/nan/-0.0/subnormal/random bit patterns, strings over an "
        "alphabet with quotes, backslashes, spaces, commas, braces, brackets, control and non-BMP "
        "characters); non-trivial = contains a string with a character needing escape, or a float whose "
        "repr has an exponent or is non-finite, or a tuple of length != 1. pass level: every class of "
        "xdsl.transforms.get_all_passes() plus 4 synthetic ArgSpecConvertible passes covering float, "
        "int|float, tuple and optional-with-default fields x generated values per declared type; "
        "non-trivial = at least one field differs from its default. pipelines: 1-5 generated passes "
        "joined by ','. strings: every string of length <= L over 14 characters (also after prefixes "
        "`a{` and `a{b=`), plus random strings and mutations of printed pipelines; non-trivial = "
        "lexes to >= 3 tokens. Distinct = distinct text. reuse: every round trip converts its parsed spec "
        "twice and compares the spec before/after; per class, the specs of 8 instances in 8 typed variants "
        "(as printed, `-` option names, unknown option first/last/in the middle, an option missing, values "
        "of another type, options reversed: mostly option errors); every spec parsed from an enumerated or "
        "random string that names a registered pass; every generated pipeline parsed once and instantiated "
        "twice, and given to PassPipeline.parse_spec twice."
    ),
    "trusted_base": [
        "correspondence harness harness/props/c18.py (differential, bounded-exhaustive + random)",
        "hand-written Lean model XdslModel/ArgSpec.lean of xdsl/utils/arg_spec.py",
        "CPython float()/repr() laws (re-checked per generated float), Python `re` for the ten token rules",
    ],
    "assumptions": [
        "float(repr(x)) == x and repr(x) matches -?d+.d+ | -?d+(.d+)?e[+-]dd+ | inf | -inf | nan (CPython); checked on every generated float",
    ],
    "budget": {"quick": 150, "thorough": 1200},
}

SITE_PRINT = "xdsl.utils.arg_spec.ArgSpec._spec_parameter_type_str"
SITE_ELEM = "xdsl.utils.arg_spec._parse_parameter_value_element"
SITE_CONVERT = "xdsl.utils.arg_spec._convert_arg_to_type"
SITE_PARSE = "xdsl.utils.arg_spec.parse_pipeline"
SITE_FROM = "xdsl.utils.arg_spec.ArgSpecConvertible.from_spec"
SITE_PIPE = "xdsl.passes.PassPipeline.parse_spec"

SIG_STR = "string value printed without escaping"
SIG_FLOAT = "float printed in a form the lexer does not read back as that float"
SIG_EXC = "parse_pipeline raises something other than ArgSpecParseError"
SIG_EMPTY_UNION = "empty tuple rejected for a union that contains a tuple type"
SIG_EMPTY_NONE = "empty tuple for an optional tuple field reads back as None"
SIG_ONE_TUPLE = "1-tuple collapses to its element when the element alone satisfies the union type"
SIG_OTHER = "printed spec does not parse back to an equal value"
SIG_REUSE = "converting a parsed spec alters it or gives a different result the second time"
SIG_REPARSE = "parsing the same pipeline text a second time gives a different result"

MSG_IDS = {
    "Unknown token": "unknown-token",
    "Expected pass name here": "expected-pass-name",
    "Expected a comma after pass argument dict here": "expected-comma",
    "Expected `mlir-opt` to mark an MLIR pipeline here": "expected-mlir-opt",
    "Expected a comma or pass arguments here": "expected-comma-or-args",
    "Expected argument name here": "expected-arg-name",
    "Expected equals, space or end of arguments here": "expected-eq-space-end",
    "Malformed pass arguments, expected either a space or `}` here": "malformed-args",
    "Unknown argument value, wrap argument in quotes to pass arbitrary string values": "unknown-value",
}

# ---------------------------------------------------------------------------------------------
# encodings shared with the Lean driver
# ---------------------------------------------------------------------------------------------

def enc_text(s: str) -> str:
    return "x" + ".".join(f"{ord(c):x}" for c in s)


def dec_text(w: str) -> str:
    assert w[0] == "x", w
    return "" if w == "x" else "".join(chr(int(h, 16)) for h in w[1:].split("."))


def has_surrogate(s: str) -> bool:
    return any(0xD800 <= ord(c) <= 0xDFFF for c in s)


def fbits(x: float) -> str:
    return "nan" if x != x else struct.pack(">d", x).hex()


def canon_val(v: Any) -> tuple:
    """type-strict canonical form; floats by bit pattern, every NaN alike"""
    if isinstance(v, bool):
        return ("b", v)
    if isinstance(v, int):
        return ("i", v)
    if isinstance(v, float):
        return ("f", fbits(v))
    if isinstance(v, str):
        return ("s", v)
    if v is None:
        return ("N",)
    if isinstance(v, tuple):
        return ("U", tuple(canon_val(x) for x in v))
    return ("?", repr(v))


def enc_val(v: Any) -> str:
    if isinstance(v, bool):
        return "b:1" if v else "b:0"
    if isinstance(v, int):
        return f"i:{v}"
    if isinstance(v, float):
        return "f:" + enc_text(repr(v))
    assert isinstance(v, str)
    return "s:" + enc_text(v)


def enc_vals(vs) -> str:
    return " ".join([str(len(vs))] + [enc_val(v) for v in vs])


def enc_spec(name: str, params: dict) -> str:
    return " ".join(["S", enc_text(name), str(len(params))] + [f"K {enc_text(k)} {enc_vals(vs)}" for k, vs in params.items()])


def enc_pipe(specs) -> str:
    return " ".join(["P", str(len(specs))] + [enc_spec(s.name, s.parameters) for s in specs])


def enc_fval(v: Any) -> str:
    if v is None:
        return "N"
    if isinstance(v, tuple):
        return "U " + enc_vals(v)
    return "V " + enc_val(v)


class Words:
    def __init__(self, line: str):
        self.w = line.split(" ")
        self.i = 0

    def next(self) -> str:
        x = self.w[self.i]
        self.i += 1
        return x

    def done(self) -> bool:
        return self.i == len(self.w)


def dec_val(w: str) -> Any:
    k, t = w.split(":", 1)
    if k == "s":
        return dec_text(t)
    if k == "i":
        return int(t)
    if k == "b":
        return t == "1"
    return float(dec_text(t))


def dec_vals(ws: Words) -> tuple:
    return tuple(dec_val(ws.next()) for _ in range(int(ws.next())))


def dec_spec(ws: Words) -> tuple[str, list]:
    assert ws.next() == "S"
    name = dec_text(ws.next())
    params = []
    for _ in range(int(ws.next())):
        assert ws.next() == "K"
        k = dec_text(ws.next())
        params.append((k, dec_vals(ws)))
    return name, params


def dec_pipe(ws: Words) -> list:
    assert ws.next() == "P"
    return [dec_spec(ws) for _ in range(int(ws.next()))]


def dec_fval(ws: Words) -> Any:
    k = ws.next()
    if k == "N":
        return None
    if k == "V":
        return dec_val(ws.next())
    return dec_vals(ws)


def canon_specs(specs: list[tuple[str, list]]) -> list:
    return [[n, [[k, [list(canon_val(v)) for v in vs]] for k, vs in ps]] for n, ps in specs]


def model_parse_obs(line: str) -> Any:
    """canonical observation from a model `parse` output line"""
    if line.startswith("ok "):
        return ["ok", canon_specs(dec_pipe(Words(line[3:])))]
    return line


# ---------------------------------------------------------------------------------------------
# real-code adapters
# ---------------------------------------------------------------------------------------------
_patched = False


def _patch() -> None:
    """record token and message on ArgSpecParseError (the message text is otherwise only available
    inside a rendered diagnostic)"""
    global _patched
    if _patched:
        return
    from xdsl.utils.exceptions import ArgSpecParseError

    orig = ArgSpecParseError.__init__

    def init(self, token, msg):  # type: ignore[no-untyped-def]
        self.vp_token, self.vp_msg = token, msg
        orig(self, token, msg)

    ArgSpecParseError.__init__ = init  # type: ignore[method-assign]
    _patched = True


def err_line(e: BaseException) -> str:
    from xdsl.utils.exceptions import ArgSpecParseError

    if isinstance(e, ArgSpecParseError) and hasattr(e, "vp_token"):
        tok = e.vp_token
        return f"err {MSG_IDS.get(e.vp_msg, 'other:' + e.vp_msg)} {tok.span.start} {tok.kind.name}"
    return "raise " + core.exc_name(e)


def py_lex(s: str) -> str:
    from xdsl.utils.arg_spec import PipelineLexer
    from xdsl.utils.exceptions import ArgSpecParseError

    _patch()
    out = []
    try:
        for t in PipelineLexer._generator(s):
            out.append(f"{t.kind.name}:{t.span.start}:{t.span.end}")
    except ArgSpecParseError as e:
        out.append(f"BAD:{e.vp_token.span.start}")
    except BaseException as e:  # noqa: BLE001
        out.append("raise " + core.exc_name(e))
    return " ".join(out)


def py_parse(s: str) -> tuple[Any, Any]:
    """(observation, specs or None)"""
    from xdsl.utils.arg_spec import parse_pipeline

    _patch()
    try:
        specs = tuple(parse_pipeline(s))
    except BaseException as e:  # noqa: BLE001  (ArgSpecParseError derives from BaseException)
        if isinstance(e, (KeyboardInterrupt, SystemExit)):
            raise
        return err_line(e), None
    return ["ok", canon_specs([(sp.name, list(sp.parameters.items())) for sp in specs])], specs


def ident_ok(s: str) -> bool:
    """the two identifier shapes of the Lean predicate `IsName` (what `spec_roundtrip` covers)"""
    return bool(re.fullmatch(r"[A-Za-z_][A-Za-z0-9_-]*|[0-9]+[A-Za-z_-][A-Za-z0-9_-]*", s))


# ---------------------------------------------------------------------------------------------
# generators
# ---------------------------------------------------------------------------------------------
STR_ALPHA = list("ab1 .,=-_+{}[]()'\"\\e") + ["\n", "\t", "\r", "\x0b", "\x0c", "\x00", "\x1c", "\x85", "\xa0", "é", "λ",
                                                  " ", " ", "\U0001F600", "\\n", '\\"', "\\\\"]
SPECIAL_STRS = ["", '"', "\\", 'a"b', "a\\b", "a b", "a,b", "{a}", "a\nb", "\\n", '\\"', "true", "false", "inf", "nan", "1", "1.5",
                "1e-05", "-", "--x", "[x]", "é", "\U0001F600", "\x0c", "\x0cfa", "\r", "\x0b", "\t", "a=b", " ", "}", "{", "\\f", "x" * 40]
SPECIAL_FLOATS = [0.0, -0.0, 1.0, -1.5, 0.1, 1e-05, 1e16, 1e22, -1e-07, 1.5e-07, 1.5e+300, 5e-324, 2.2250738585072014e-308,
                  1.7976931348623157e308, float("inf"), float("-inf"), float("nan"), 123456789.123, 1e15, 9999999999999998.0,
                  0.0001, 0.00001234, 1e100, -1e-100, 3.14]
SPECIAL_INTS = [0, 1, -1, 7, -12, 10, 255, 2**31, -2**63, 10**18, 10**40, -10**25 + 1, 1000000]
FLOAT_REPR_RE = re.compile(r"-?[0-9]+\.[0-9]+|-?[0-9]+(\.[0-9]+)?e[-+][0-9][0-9]+|inf|-inf|nan")


def gen_str(rng, surrogates: bool = False) -> str:
    r = rng.random()
    if r < 0.25:
        return rng.choice(SPECIAL_STRS)
    s = "".join(rng.choice(STR_ALPHA) for _ in range(rng.randint(0, 8)))
    if r > 0.93:
        s += chr(rng.choice([rng.randrange(0x20, 0x7F), rng.randrange(0x80, 0xD800), rng.randrange(0xE000, 0x110000)]))
    if surrogates and r > 0.985:
        s += chr(rng.randrange(0xD800, 0xE000))
    return s


def gen_float(rng) -> float:
    r = rng.random()
    if r < 0.4:
        return rng.choice(SPECIAL_FLOATS)
    if r < 0.7:
        return struct.unpack(">d", rng.getrandbits(64).to_bytes(8, "big"))[0]
    if r < 0.85:
        return rng.choice([1, -1]) * rng.randint(1, 9999) * 10.0 ** rng.randint(-30, 30)
    return round(rng.uniform(-1000, 1000), rng.randint(0, 6))


def gen_int(rng) -> int:
    r = rng.random()
    if r < 0.4:
        return rng.choice(SPECIAL_INTS)
    if r < 0.9:
        return rng.randint(-1000, 1000)
    return rng.choice([1, -1]) * rng.getrandbits(rng.randint(1, 200))


def gen_ident(rng) -> str:
    r = rng.random()
    if r < 0.5:
        return rng.choice(["a", "b", "x_1", "arg-1", "pass-name", "k", "true", "inf", "_p", "A9", "e", "x-y_z"])
    if r < 0.6:
        return str(rng.randint(0, 99)) + rng.choice(["d-slice", "x", "_", "-a", "e-05"])
    return rng.choice("abxyzE_") + "".join(rng.choice("abe019_-XY") for _ in range(rng.randint(0, 6)))


def gen_pval(rng, surrogates: bool = False) -> Any:
    k = rng.randrange(4)
    return [gen_int, gen_float, lambda r: r.random() < 0.5, lambda r: gen_str(r, surrogates)][k](rng)


def val_interesting(v: Any) -> bool:
    if isinstance(v, str):
        return any(c in '"\\\n\r\t\x0b\x0c' for c in v)
    if isinstance(v, float):
        return "e" in repr(v) or v != v or math.isinf(v)
    return False


# ---------------------------------------------------------------------------------------------
# spec level:  parse_pipeline(str(ArgSpec)) == (ArgSpec,)
# ---------------------------------------------------------------------------------------------

def spec_roundtrip_obs(name: str, params: dict) -> tuple[str, Any, Any]:
    """(printed text or 'raise X', observed, expected)"""
    from xdsl.utils.arg_spec import ArgSpec

    spec = ArgSpec(name, params)
    try:
        text = str(spec)
    except Exception as e:  # noqa: BLE001
        return "raise " + core.exc_name(e), "raise", "text"
    obs, _ = py_parse(text)
    want = ["ok", canon_specs([(name, list(params.items()))])]
    return text, obs, want


def shrink_value(name: str, key: str, v: Any) -> Any:
    def bad(x: Any) -> bool:
        t, o, w = spec_roundtrip_obs(name, {key: (x,)})
        return o != w

    if isinstance(v, str) and len(v) > 1:
        return "".join(core.shrink_list(list(v), lambda cs: bad("".join(cs))))
    return v


def classify_spec_failure(ctx: core.Ctx, name: str, params: dict) -> None:
    """shrink to one parameter / one value and report with a signature by value kind"""
    for k, vs in params.items():
        for v in vs:
            t, o, w = spec_roundtrip_obs("p", {"k": (v,)})
            if o != w:
                v2 = shrink_value("p", "k", v)
                t, o, w = spec_roundtrip_obs("p", {"k": (v2,)})
                if isinstance(v2, str):
                    site, sig = SITE_PRINT, SIG_STR
                elif isinstance(v2, float):
                    site, sig = SITE_PRINT, SIG_FLOAT
                else:
                    site, sig = SITE_PRINT, SIG_OTHER
                if isinstance(o, str) and o.startswith("raise "):
                    site, sig = SITE_ELEM, SIG_EXC
                ctx.fail(site, sig, {"level": "spec", "name": "p", "params": [["k", [enc_val(v2)]]]},
                         f"str(ArgSpec('p', {{'k': ({v2!r},)}})) = {t!r} does not parse back to the same spec", o, w)
                return
    t, o, w = spec_roundtrip_obs(name, params)
    ctx.fail(SITE_PRINT, SIG_OTHER, {"level": "spec", "name": name, "params": [[k, [enc_val(v) for v in vs]] for k, vs in params.items()]},
             f"{t!r} does not parse back to the same spec", o, w)


def run_spec_level(ctx: core.Ctx, n: int) -> None:
    rng = ctx.rng
    cases: list[tuple[str, dict]] = []
    # the suspects first, one value each (kept in the enumeration so that a regression is re-found)
    for v in SPECIAL_STRS + SPECIAL_FLOATS + SPECIAL_INTS + [True, False]:
        cases.append(("p", {"k": (v,)}))
    cases.append(("p", {}))
    cases.append(("p", {"k": ()}))
    cases.append(("p", {"a": (), "b": (1, 2), "c": ()}))
    for _ in range(n):
        params: dict = {}
        for _ in range(rng.choice([0, 1, 1, 2, 2, 3, 4])):
            key = gen_ident(rng)
            params[key] = tuple(gen_pval(rng, surrogates=True) for _ in range(rng.choice([0, 1, 1, 1, 2, 3, 4])))
        cases.append((gen_ident(rng), params))
    lines: list[str] = []
    expect: list[Any] = []
    for name, params in cases:
        ctx.ev()
        text, obs, want = spec_roundtrip_obs(name, params)
        vals = [v for vs in params.values() for v in vs]
        if any(val_interesting(v) for v in vals) or any(len(vs) != 1 for vs in params.values()):
            ctx.nt(("spec", text))
        for v in vals:
            if isinstance(v, float):
                ctx.count("float_law_checked")
                r = repr(v)
                if not FLOAT_REPR_RE.fullmatch(r) or fbits(float(r)) != fbits(v):
                    raise core.InfraError(f"CPython float law violated for {r}")
        if obs != want:
            classify_spec_failure(ctx, name, params)
        # correspondence: printer and parser of the model on the same spec (Lean chars exclude surrogates)
        if not any(isinstance(v, str) and has_surrogate(v) for v in vals):
            lines.append("print P 1 " + enc_spec(name, params))
            expect.append(("print", (name, params), text))
            if not text.startswith("raise "):
                lines.append("parse " + enc_text(text))
                expect.append(("parse", text, obs))
    ctx.count("spec_level.cases", len(cases))
    model = ctx.model("arg_spec", lines)
    for (kind, inp, impl), m in zip(expect, model):
        if kind == "print":
            mo = dec_text(m) if m.startswith("x") else m
            if mo != impl:
                ctx.mismatch("correspondence:C18/arg_spec.print", {"level": "print", "name": inp[0], "params": [[k, [enc_val(v) for v in vs]] for k, vs in inp[1].items()]}, impl, mo)
                break
        else:
            mo = model_parse_obs(m)
            if mo != impl:
                ctx.mismatch("correspondence:C18/arg_spec.parse", {"level": "string", "text": enc_text(inp)}, impl, mo)
                break
    name, params = cases[len(cases) - 3]
    ctx.sample({"level": "spec", "text": spec_roundtrip_obs(name, params)[0]})


# ---------------------------------------------------------------------------------------------
# pass level
# ---------------------------------------------------------------------------------------------
_SYN: list[type] | None = None


def synthetic_classes() -> list[type]:
    """ArgSpecConvertible passes covering the documented field types no registered pass uses"""
    global _SYN
    if _SYN is not None:
        return _SYN
    from props import c18_syn

    _SYN = list(c18_syn.CLASSES)
    return _SYN


def all_classes() -> dict[str, type]:
    from xdsl.transforms import get_all_passes

    d = {n: f() for n, f in sorted(get_all_passes().items())}
    for c in synthetic_classes():
        d[c.name] = c
    return d


class Unsupported(Exception):
    pass


def base_of(h: Any) -> list[str]:
    """encoding of a scalar hint as a list of model `Base` encodings (a union of scalars gives several)"""
    if h is int:
        return ["int"]
    if h is float:
        return ["float"]
    if h is bool:
        return ["bool"]
    if h is str:
        return ["str"]
    o = typing.get_origin(h)
    if o is typing.Literal:
        args = typing.get_args(h)
        if not all(isinstance(a, str) for a in args):
            raise Unsupported(str(h))
        return ["L " + " ".join([str(len(args))] + [enc_text(a) for a in args])]
    if o in (typing.Union, types.UnionType):
        return [b for a in typing.get_args(h) for b in base_of(a)]
    raise Unsupported(str(h))


def alts_of(h: Any) -> list[tuple[str, Any]]:
    """flattened union alternatives: (model encoding, hint)"""
    o = typing.get_origin(h)
    if o in (typing.Union, types.UnionType):
        return [x for a in typing.get_args(h) for x in alts_of(a)]
    if h is type(None):
        return [("none", h)]
    if o is tuple:
        args = typing.get_args(h)
        if len(args) != 2 or args[1] is not Ellipsis:
            raise Unsupported(str(h))
        bs = base_of(args[0])
        return [("T " + " ".join([str(len(bs))] + bs), h)]
    return [(b, h) for b in base_of(h)]


def enc_ty(h: Any) -> str:
    a = alts_of(h)
    return " ".join([str(len(a))] + [e for e, _ in a])


def gen_for_hint(rng, h: Any) -> Any:
    o = typing.get_origin(h)
    if o in (typing.Union, types.UnionType):
        return gen_for_hint(rng, rng.choice(typing.get_args(h)))
    if h is type(None):
        return None
    if h is int:
        return gen_int(rng)
    if h is float:
        return gen_float(rng)
    if h is bool:
        return rng.random() < 0.5
    if h is str:
        return gen_str(rng)
    if o is typing.Literal:
        return rng.choice(typing.get_args(h))
    if o is tuple:
        (eh, _) = typing.get_args(h)
        return tuple(gen_for_hint(rng, eh) for _ in range(rng.choice([0, 1, 1, 2, 3, 4])))
    raise Unsupported(str(h))


def init_fields(cls: type) -> list[tuple[dataclasses.Field, Any]]:
    hints = typing.get_type_hints(cls)
    return [(f, hints[f.name]) for f in dataclasses.fields(cls) if f.name != "name" and f.init]


def field_default(f: dataclasses.Field) -> tuple[bool, Any]:
    if f.default is not dataclasses.MISSING:
        return True, f.default
    if f.default_factory is not dataclasses.MISSING:
        return True, f.default_factory()
    return False, None


def enc_class(cls: type) -> str:
    fs = init_fields(cls)
    out = ["C", enc_text(cls.name), str(len(fs))]
    for f, h in fs:
        has, d = field_default(f)
        if has and not (d is None or isinstance(d, (bool, int, float, str)) or (isinstance(d, tuple) and all(isinstance(x, (bool, int, float, str)) for x in d))):
            raise Unsupported(f"default {d!r}")
        out += ["F", enc_text(f.name), enc_ty(h), ("D " + enc_fval(d)) if has else "R"]
    return " ".join(out)


def inst_values(inst: Any) -> list[Any]:
    return [getattr(inst, f.name) for f, _ in init_fields(type(inst))]


def same_instance(a: Any, b: Any) -> bool:
    """'an equal pass': same class, every init field == (NaN equal to NaN, also inside tuples)"""
    if type(a) is not type(b):
        return False

    def eq(x: Any, y: Any) -> bool:
        if isinstance(x, float) and isinstance(y, float) and x != x and y != y:
            return True
        if isinstance(x, tuple) and isinstance(y, tuple):
            return len(x) == len(y) and all(eq(p, q) for p, q in zip(x, y))
        return type(x) is type(y) and x == y if isinstance(x, (bool, str)) or isinstance(y, (bool, str)) else x == y

    return all(eq(p, q) for p, q in zip(inst_values(a), inst_values(b)))


def spec_snapshot(spec: Any) -> tuple:
    """everything observable of an ArgSpec: name, parameter order, canonical values, printed text"""
    try:
        text = str(spec)
    except Exception as e:  # noqa: BLE001
        text = "raise " + core.exc_name(e)
    return (spec.name, tuple((k, tuple(canon_val(v) for v in vs)) for k, vs in spec.parameters.items()), text)


def convert_outcome(cls: type, spec: Any) -> Any:
    """instance, or 'raise X: message' (option errors are ValueErrors)"""
    try:
        return cls.from_pass_spec(spec)
    except Exception as e:  # noqa: BLE001
        return "raise " + core.exc_name(e) + ": " + str(e)[:80]


def same_outcome(a: Any, b: Any) -> bool:
    if isinstance(a, str) or isinstance(b, str):
        return isinstance(a, str) and isinstance(b, str) and a == b
    return same_instance(a, b)


def convert_reusing(cls: type, spec: Any) -> tuple[Any, str | None]:
    """`from_pass_spec` on ONE parsed spec, used the way a value is used: converted, looked at, converted
    again.  -> (first outcome, None | description of how the spec / the second outcome differ).
    The text determines the pass: a spec that is changed by being converted, or that converts to something
    else the second time, makes `parse` of the printed text yield an unequal pass on that later use."""
    before = spec_snapshot(spec)
    first = convert_outcome(cls, spec)
    after = spec_snapshot(spec)
    if after != before:
        return first, f"the parsed spec `{before[2]}` reads `{after[2]}` after from_spec"
    second = convert_outcome(cls, spec)
    if not same_outcome(first, second):
        d = lambda o: o if isinstance(o, str) else describe_values(o)  # noqa: E731
        return first, f"the second from_spec of the same parsed spec gives {d(second)}, the first gave {d(first)}"
    if spec_snapshot(spec) != before:
        return first, f"the parsed spec `{before[2]}` reads `{spec_snapshot(spec)[2]}` after two from_spec calls"
    return first, None


def pass_roundtrip(inst: Any, include_default: bool) -> tuple[str, Any, str | None]:
    """(text, result instance or 'raise X', failing stage)"""
    from xdsl.utils.arg_spec import parse_pipeline

    cls = type(inst)
    text = str(inst.pipeline_pass_spec(include_default=include_default))
    try:
        specs = tuple(parse_pipeline(text))
    except BaseException as e:  # noqa: BLE001
        if isinstance(e, (KeyboardInterrupt, SystemExit)):
            raise
        return text, "raise " + core.exc_name(e), "parse"
    if len(specs) != 1:
        return text, f"{len(specs)} specs", "parse"
    back, reuse = convert_reusing(cls, specs[0])
    if isinstance(back, str):
        return text, back, "from_spec"
    if reuse is not None:
        return text, reuse, "reuse"
    return text, back, None


def describe_values(inst: Any) -> dict:
    return {f.name: (enc_fval(v) if v is None or isinstance(v, (bool, int, float, str, tuple)) else repr(v))
            for (f, _), v in zip(init_fields(type(inst)), inst_values(inst))}


def report_pass_failure(ctx: core.Ctx, inst: Any, include_default: bool) -> None:
    """shrink to a single non-default field and classify"""
    cls = type(inst)
    fs = init_fields(cls)
    base_kwargs = {f.name: v for (f, _), v in zip(fs, inst_values(inst))}

    reuse = pass_roundtrip(inst, include_default)[2] == "reuse"

    def fails(kwargs: dict) -> bool:
        try:
            i2 = cls(**kwargs)
        except Exception:  # noqa: BLE001
            return False
        t, back, stage = pass_roundtrip(i2, include_default)
        if reuse:  # stay on this failure: shrinking must not wander to values the field type does not admit
            return stage == "reuse"
        return stage is not None or not same_instance(i2, back)

    # reset fields to defaults / simple values one by one while it still fails
    kw = dict(base_kwargs)
    for f, h in fs:
        has, d = field_default(f)
        for simple in ([d] if has else []) + simple_values(h):
            trial = dict(kw)
            trial[f.name] = simple
            if trial != kw and fails(trial):
                kw = trial
                break
    # shrink strings / tuples in the remaining culprit fields
    for f, h in fs:
        v = kw[f.name]
        if isinstance(v, tuple) and len(v) > 1:
            kw[f.name] = tuple(core.shrink_list(list(v), lambda l: fails({**kw, f.name: tuple(l)})))
        v = kw[f.name]
        if isinstance(v, str) and len(v) > 1:
            kw[f.name] = "".join(core.shrink_list(list(v), lambda l: fails({**kw, f.name: "".join(l)})))
    small = cls(**kw)
    text, back, stage = pass_roundtrip(small, include_default)
    # classification
    site, sig = SITE_FROM, SIG_OTHER
    culprit = None
    for (f, h), v in zip(fs, inst_values(small)):
        has, d = field_default(f)
        bv = getattr(back, f.name, None) if stage is None else None
        differs = stage is not None or not same_instance_value(v, bv)
        if not differs and stage is None:
            continue
        o = typing.get_origin(h)
        is_union = o in (typing.Union, types.UnionType)
        if stage is None and v == () and bv is None:
            site, sig, culprit = SITE_CONVERT, SIG_EMPTY_NONE, f.name
            break
        if stage is None and isinstance(v, tuple) and len(v) == 1 and same_instance_value(v[0], bv):
            site, sig, culprit = SITE_CONVERT, SIG_ONE_TUPLE, f.name
            break
        if stage == "from_spec" and v == () and is_union and "must contain a value" in str(back):
            site, sig, culprit = SITE_CONVERT, SIG_EMPTY_UNION, f.name
            break
    if culprit is None:
        vals = [x for v in inst_values(small) for x in (v if isinstance(v, tuple) else (v,))]
        if stage == "reuse":
            site, sig = SITE_FROM, SIG_REUSE
        elif stage == "parse" and isinstance(back, str) and not back.startswith("raise ArgSpecParseError"):
            site, sig = SITE_ELEM, SIG_EXC
        elif any(isinstance(x, str) and val_interesting(x) for x in vals):
            site, sig = SITE_PRINT, SIG_STR
        elif any(isinstance(x, float) and val_interesting(x) for x in vals):
            site, sig = SITE_PRINT, SIG_FLOAT
    if stage == "reuse":
        ctx.fail(site, sig,
                 {"level": "pass", "class": cls.name, "include_default": include_default, "values": describe_values(small)},
                 f"{cls.name}: printed `{text}`, parsed once: {back} (the spec parsed from the printed text must keep giving an equal pass)",
                 back, describe_values(small))
        return
    ctx.fail(site, sig,
             {"level": "pass", "class": cls.name, "include_default": include_default, "values": describe_values(small)},
             f"{cls.name}: printed `{text}`; reading it back gives {back if isinstance(back, str) else describe_values(back)}"
             f" instead of {describe_values(small)}" + (f" (field {culprit})" if culprit else ""),
             back if isinstance(back, str) else describe_values(back), describe_values(small))


def same_instance_value(x: Any, y: Any) -> bool:
    return canon_val(x) == canon_val(y) or (not isinstance(x, (bool, str, tuple)) and not isinstance(y, (bool, str, tuple)) and x is not None and y is not None and x == y)


def simple_values(h: Any) -> list[Any]:
    o = typing.get_origin(h)
    if o in (typing.Union, types.UnionType):
        return [x for a in typing.get_args(h) for x in simple_values(a)][:3]
    if h is type(None):
        return [None]
    if h is int:
        return [0]
    if h is float:
        return [1.5]
    if h is bool:
        return [False]
    if h is str:
        return ["a"]
    if o is typing.Literal:
        return [typing.get_args(h)[0]]
    if o is tuple:
        return [()]
    return []


def gen_instance(rng, cls: type, p_default: float) -> Any | None:
    kwargs = {}
    for f, h in init_fields(cls):
        has, d = field_default(f)
        if has and rng.random() < p_default:
            kwargs[f.name] = d
        else:
            kwargs[f.name] = gen_for_hint(rng, h)
    try:
        return cls(**kwargs)
    except Exception:  # noqa: BLE001  (a __post_init__ that rejects the generated value)
        return None


def fromspec_model_obs(line: str) -> Any:
    if line.startswith("ok "):
        ws = Words(line[3:])
        return ["ok", [list(canon_val(dec_fval(ws))) for _ in range(int(ws.next()))]]
    return line


OPT_ERRS = [("Spec name mismatch", "name-mismatch"), ("requires argument", "missing-required"),
            ("Argument must contain a value", "must-contain-value"), ("Incompatible types", "incompatible"),
            ("Provided arguments", "unknown-args")]


def spec_variants(sp: Any) -> list[Any]:
    """specs a user could have typed for the same class: option names with `-` (normalised by from_spec),
    an option the class does not have, a missing option, a value of another type, the options reversed.
    Some convert, most are option errors; all of them must come out of from_spec as they went in."""
    from xdsl.utils.arg_spec import ArgSpec

    items = list(sp.parameters.items())
    out = [ArgSpec(sp.name, dict(items))]
    if any("_" in k for k, _ in items):
        out.append(ArgSpec(sp.name, {k.replace("_", "-"): v for k, v in items}))
    out.append(ArgSpec(sp.name, dict(items + [("vp_no_such_option", (1,))])))
    out.append(ArgSpec(sp.name, dict([("vp-no-such-option", ())] + items)))
    if items:
        out.append(ArgSpec(sp.name, dict(items[1:])))
        out.append(ArgSpec(sp.name, dict(items[:-1] + [(items[-1][0], ("vp zz", 1, 2.5))])))
        out.append(ArgSpec(sp.name, dict(items[:1] + [("vp_no_such_option", ())] + items[1:])))
    if len(items) > 1:
        out.append(ArgSpec(sp.name, dict(reversed(items))))
    return out


def check_spec_reuse(ctx: core.Ctx, cls: type, spec: Any) -> bool:
    """reuse oracle on one (class, spec); reports shrunk to the fewest options. -> ok"""
    from xdsl.utils.arg_spec import ArgSpec

    ctx.ev()
    items = list(spec.parameters.items())  # as parsed: a faulty from_spec may alter `spec`
    _, why = convert_reusing(cls, spec)
    if why is None:
        return True
    if len(items) > 1:
        small = core.shrink_list(items, lambda c: convert_reusing(cls, ArgSpec(spec.name, dict(c)))[1] is not None)
        why2 = convert_reusing(cls, ArgSpec(spec.name, dict(small)))[1]
        if why2 is not None:
            items, why = small, why2
    ctx.fail(SITE_FROM, SIG_REUSE, {"level": "convert", "class": cls.name, "spec": enc_spec(spec.name, dict(items))},
             f"{cls.name}.from_spec: {why}", why, "the spec is unchanged and converts to the same result again")
    return False


def run_pass_level(ctx: core.Ctx, per_class: int) -> list[Any]:
    from xdsl.utils.arg_spec import ArgSpec, _convert_arg_to_type

    rng = ctx.rng
    classes = all_classes()
    made: list[Any] = []
    lines: list[str] = []
    expect: list[tuple[str, Any, Any]] = []
    unsupported = 0
    ctx.count("pass_level.classes", len(classes))
    for cname, cls in classes.items():
        try:
            fs = init_fields(cls)
            cenc = enc_class(cls)
        except Unsupported:
            unsupported += 1
            cenc = None
            fs = init_fields(cls)
        if not ident_ok(cname):
            ctx.fail(SITE_PARSE, "registered pass name is not a single IDENT token", {"level": "name", "name": cname},
                     f"pass name {cname!r} does not lex as one identifier", None, None)
        insts = []
        if not fs:
            insts.append(cls())
        else:
            try:
                insts.append(cls(**{f.name: field_default(f)[1] for f, _ in fs if field_default(f)[0]}))
            except Exception:  # noqa: BLE001  (required fields)
                pass
            # every field once with the boundary values of its type, others default/simple
            for f, h in fs:
                for v in boundary_values(h):
                    kw = {}
                    for g, gh in fs:
                        has, d = field_default(g)
                        kw[g.name] = v if g is f else (d if has else (simple_values(gh) or [None])[0])
                    try:
                        insts.append(cls(**kw))
                    except Exception:  # noqa: BLE001
                        pass
            for _ in range(per_class):
                i = gen_instance(rng, cls, rng.choice([0.0, 0.3, 0.7]))
                if i is not None:
                    insts.append(i)
        reuse_ok = True
        for inst in insts[:6] + insts[-2:]:
            for incl in (False, True):
                for var in spec_variants(inst.pipeline_pass_spec(include_default=incl)):
                    if reuse_ok and not any(isinstance(v, str) and has_surrogate(v) for vs in var.parameters.values() for v in vs):
                        ctx.count("pass_level.reuse_variants")
                        reuse_ok = check_spec_reuse(ctx, cls, var)
        for inst in insts:
            made.append(inst)
            vals = inst_values(inst)
            nondefault = any(not (field_default(f)[0] and same_instance_value(field_default(f)[1], v)) for (f, _), v in zip(fs, vals))
            for incl in (False, True):
                ctx.ev()
                text, back, stage = pass_roundtrip(inst, incl)
                if nondefault:
                    ctx.nt(("pass", cname, text))
                if stage is not None or not same_instance(inst, back):
                    report_pass_failure(ctx, inst, incl)
            # correspondence of spec(), from_spec, convert
            flat = [x for v in vals for x in (v if isinstance(v, tuple) else (v,))]
            if cenc is None or any(isinstance(x, str) and has_surrogate(x) for x in flat):
                continue
            if any(isinstance(x, float) and x == 0.0 for x in flat) or any(isinstance(v, bool) != isinstance(field_default(f)[1], bool) and field_default(f)[0] and v == field_default(f)[1] for (f, _), v in zip(fs, vals)):
                # Python's == identifies 0.0/-0.0 and True/1; the model's default test is structural
                continue
            for incl in (False, True):
                sp = inst.pipeline_pass_spec(include_default=incl)
                lines.append(f"tospec {1 if incl else 0} {cenc} " + " ".join([str(len(vals))] + [enc_fval(v) for v in vals]))
                expect.append(("tospec", (cname, describe_values(inst), incl), canon_specs([(sp.name, list(sp.parameters.items()))])))
                lines.append(f"fromspec {cenc} " + enc_spec(sp.name, sp.parameters))
                try:
                    back = cls.from_pass_spec(sp)
                    obs: Any = ["ok", [list(canon_val(v)) for v in inst_values(back)]]
                except ValueError as e:
                    obs = "err " + next((i for m, i in OPT_ERRS if m in str(e)), "other:" + str(e)[:40])
                expect.append(("fromspec", (cname, enc_spec(sp.name, sp.parameters)), obs))
    # conversion table: every field type seen x small value lists
    seen_types: dict[str, Any] = {}
    for cls in classes.values():
        for f, h in init_fields(cls):
            try:
                seen_types.setdefault(enc_ty(h), h)
            except Unsupported:
                pass
    conv_vals: list[tuple] = [(), (1,), (True,), (1.5,), ("a",), ("fast",), ("x",), (1, 2), (1, 2.5), ("a", "b"), (True, False), (1, "a"), ("static",), ("wse2",), ("y z",)]
    for tenc, h in sorted(seen_types.items()):
        for vs in conv_vals:
            ctx.ev()
            lines.append(f"convert {tenc} {enc_vals(vs)}")
            try:
                r = _convert_arg_to_type(vs, h)
                obs = "ok " + enc_fval(r)
            except ValueError as e:
                obs = "err " + next((i for m, i in OPT_ERRS if m in str(e)), "other:" + str(e)[:40])
            expect.append(("convert", (tenc, [enc_val(v) for v in vs]), obs))
    ctx.count("pass_level.instances", len(made))
    ctx.count("pass_level.classes_not_modelled", unsupported)
    ctx.count("pass_level.field_types", len(seen_types))
    model = ctx.model("arg_spec", lines)
    for (kind, inp, impl), m, line in zip(expect, model, lines):
        if kind == "tospec":
            mo: Any = canon_specs([dec_spec(Words(m))]) if m.startswith("S ") else m
        elif kind == "fromspec":
            mo = fromspec_model_obs(m)
        else:
            mo = m
        if mo != impl:
            ctx.mismatch(f"correspondence:C18/arg_spec.{kind}", {"level": "model-line", "line": line}, impl, mo)
            break
    if made:
        ctx.sample({"level": "pass", "text": str(made[len(made) // 2].pipeline_pass_spec())})
    return made


def boundary_values(h: Any) -> list[Any]:
    o = typing.get_origin(h)
    if o in (typing.Union, types.UnionType):
        from xdsl.utils.hints import isa

        out = [x for a in typing.get_args(h) for x in boundary_values(a)]
        # 1-tuples of the scalar alternatives, where the union also has a tuple type admitting them
        scalars = [x for x in out if x is not None and not isinstance(x, tuple)]
        out += [(x,) for x in scalars[:4] if isa((x,), h)]
        return out
    if h is type(None):
        return [None]
    if h is int:
        return [0, -1, 10**20]
    if h is float:
        return [1e-05, 1e16, float("inf"), float("-inf"), float("nan"), -0.0, 2.5]
    if h is bool:
        return [True, False]
    if h is str:
        return ["", 'a"b', "a\\b", "a b", "a\nb", "x", "true", "é{,}"]
    if o is typing.Literal:
        return list(typing.get_args(h))
    if o is tuple:
        (eh, _) = typing.get_args(h)
        bv = boundary_values(eh)
        return [(), (bv[0],), tuple(bv[:3]), tuple(bv)]
    return []


# ---------------------------------------------------------------------------------------------
# pipelines
# ---------------------------------------------------------------------------------------------

def run_pipelines(ctx: core.Ctx, made: list[Any], n: int) -> None:
    from xdsl.passes import PassPipeline

    rng = ctx.rng
    classes = all_classes()
    avail = {name: (lambda c=c: c) for name, c in classes.items()}
    # instances that round-trip alone (the others are already reported at pass level)
    good = []
    for inst in made:
        t, back, stage = pass_roundtrip(inst, False)
        if stage is None and same_instance(inst, back):
            good.append(inst)
    if not good:
        return
    lines, expect = [], []
    for _ in range(n):
        ps = [rng.choice(good) for _ in range(rng.randint(1, 5))]
        text = ",".join(str(p.pipeline_pass_spec()) for p in ps)
        ctx.ev()
        ctx.nt(("pipe", text))
        try:
            got = PassPipeline.parse_spec(avail, text).passes
            ok = len(got) == len(ps) and all(same_instance(a, b) for a, b in zip(ps, got))
            obs: Any = [describe_values(g) for g in got]
        except BaseException as e:  # noqa: BLE001
            if isinstance(e, (KeyboardInterrupt, SystemExit)):
                raise
            ok, obs = False, "raise " + core.exc_name(e)
        if not ok:
            small = core.shrink_list(ps, lambda c: not pipeline_ok(avail, c))
            ctx.fail(SITE_PIPE, "pipeline of individually round-tripping passes does not round-trip",
                     {"level": "pipeline", "text": enc_text(",".join(str(p.pipeline_pass_spec()) for p in small))},
                     f"pipeline text {text!r} does not give back the same passes", obs, [describe_values(p) for p in ps])
        if ok:
            why = pipeline_reuse_problem(avail, classes, text, ps)
            if why is not None:
                small = core.shrink_list(ps, lambda c: pipeline_ok(avail, c) and pipeline_reuse_problem(
                    avail, classes, ",".join(str(p.pipeline_pass_spec()) for p in c), c) is not None)
                stext = ",".join(str(p.pipeline_pass_spec()) for p in small)
                why = pipeline_reuse_problem(avail, classes, stext, small) or why
                ctx.fail(SITE_FROM if why[0] == SIG_REUSE else SITE_PIPE, why[0], {"level": "pipeline", "text": enc_text(stext)},
                         f"pipeline text {stext!r}: {why[1]}", why[1], [describe_values(p) for p in small])
        if not has_surrogate(text):
            o, specs = py_parse(text)
            lines.append("parse " + enc_text(text))
            expect.append((text, o))
            if specs is not None:
                lines.append("print " + enc_pipe(specs))
                expect.append((None, text))
    ctx.count("pipelines", n)
    model = ctx.model("arg_spec", lines)
    for (inp, impl), m in zip(expect, model):
        mo = model_parse_obs(m) if inp is not None else (dec_text(m) if m.startswith("x") else m)
        if mo != impl:
            ctx.mismatch("correspondence:C18/arg_spec.pipeline", {"level": "string", "text": enc_text(inp if inp is not None else impl)}, impl, mo)
            break
    ctx.sample({"level": "pipeline", "text": expect[0][0] if expect else ""})


def pipeline_reuse_problem(avail: dict, classes: dict, text: str, ps: list[Any] | None) -> tuple[str, str] | None:
    """the pipeline text parsed ONCE and instantiated twice (one parsed pipeline run on two modules), and the
    text given to PassPipeline.parse_spec twice: every use yields the same passes (`ps` when given) and leaves
    the parsed specs as they were.  -> None | (signature, description)"""
    from xdsl.passes import PassPipeline
    from xdsl.utils.arg_spec import parse_pipeline

    try:
        specs = tuple(parse_pipeline(text))
    except BaseException as e:  # noqa: BLE001
        if isinstance(e, (KeyboardInterrupt, SystemExit)):
            raise
        return None  # reported by the round-trip / totality oracles
    before = [spec_snapshot(sp) for sp in specs]
    rounds = []
    for _ in range(2):
        rounds.append([convert_outcome(classes[sp.name], sp) if sp.name in classes else "unregistered" for sp in specs])
        after = [spec_snapshot(sp) for sp in specs]
        if after != before:
            i = next(i for i, (a, b) in enumerate(zip(before, after)) if a != b)
            return SIG_REUSE, f"parsed spec {i} `{before[i][2]}` reads `{after[i][2]}` after from_spec"
    d = lambda o: o if isinstance(o, str) else describe_values(o)  # noqa: E731
    for i, (a, b) in enumerate(zip(*rounds)):
        if not same_outcome(a, b):
            return SIG_REUSE, f"instantiating the parsed pipeline a second time gives {d(b)} for spec {i} `{before[i][2]}`, the first time {d(a)}"
    if ps is not None and (len(ps) != len(specs) or not all(same_outcome(a, b) for a, b in zip(ps, rounds[0]))):
        return None  # not a round-tripping pipeline: the round-trip oracle's business
    outs = []
    for _ in range(2):
        try:
            outs.append(list(PassPipeline.parse_spec(avail, text).passes))
        except BaseException as e:  # noqa: BLE001
            if isinstance(e, (KeyboardInterrupt, SystemExit)):
                raise
            outs.append("raise " + core.exc_name(e) + ": " + str(e)[:80])
    a, b = outs
    if isinstance(a, str) or isinstance(b, str):
        same = a == b
    else:
        same = len(a) == len(b) and all(same_instance(x, y) for x, y in zip(a, b))
    if not same:
        dd = lambda o: o if isinstance(o, str) else [d(x) for x in o]  # noqa: E731
        return SIG_REPARSE, f"PassPipeline.parse_spec gives {dd(b)} the second time, {dd(a)} the first"
    return None


def pipeline_ok(avail: dict, ps: list[Any]) -> bool:
    from xdsl.passes import PassPipeline

    text = ",".join(str(p.pipeline_pass_spec()) for p in ps)
    try:
        got = PassPipeline.parse_spec(avail, text).passes
    except BaseException as e:  # noqa: BLE001
        if isinstance(e, (KeyboardInterrupt, SystemExit)):
            raise
        return False
    return len(got) == len(ps) and all(same_instance(a, b) for a, b in zip(ps, got))


# ---------------------------------------------------------------------------------------------
# arbitrary strings: totality + lexer/parser differential
# ---------------------------------------------------------------------------------------------
SMALL_ALPHA = ["a", "1", "-", ".", "e", '"', "\\", "{", "}", "=", ",", " ", "[", "]"]
FUZZ_ALPHA = list("ab1-_.eE+\"\\[]{}=, ntf") + ["\n", "\x0c", "\t", "é", " ", "\x1c", "true", "inf", "mlir-opt", "0", "9", "#", "(", ")"]


def string_cases(ctx: core.Ctx, maxlen: int, prefixed_len: int, nrandom: int, printed: list[str]) -> list[str]:
    rng = ctx.rng
    out: list[str] = []
    for n in range(0, maxlen + 1):
        out.extend("".join(t) for t in itertools.product(SMALL_ALPHA, repeat=n))
    ctx.count("strings.exhaustive", len(out))
    k = len(out)
    for prefix in ("a{", "a{b=", "a{b=1,", "mlir-opt"):
        for n in range(1, prefixed_len + 1):
            out.extend(prefix + "".join(t) for t in itertools.product(SMALL_ALPHA, repeat=n))
    ctx.count("strings.exhaustive_prefixed", len(out) - k)
    for _ in range(nrandom):
        r = rng.random()
        if r < 0.5 or not printed:
            s = "".join(rng.choice(FUZZ_ALPHA) for _ in range(rng.randint(1, 14)))
        else:
            s = rng.choice(printed)
            for _ in range(rng.randint(1, 3)):
                i = rng.randrange(len(s) + 1)
                m = rng.random()
                if m < 0.4 and s:
                    s = s[:i] + s[i + 1:]
                elif m < 0.8:
                    s = s[:i] + rng.choice(FUZZ_ALPHA) + s[i:]
                else:
                    j = rng.randrange(len(s) + 1)
                    s = s[:min(i, j)] + s[max(i, j):]
        out.append(s)
    ctx.count("strings.random", nrandom)
    return out


def run_strings(ctx: core.Ctx, maxlen: int, prefixed_len: int, nrandom: int, printed: list[str]) -> None:
    from xdsl.passes import PassPipeline

    cases = string_cases(ctx, maxlen, prefixed_len, nrandom, printed)
    classes = all_classes()
    avail = {name: (lambda c=c: c) for name, c in classes.items()}
    lines: list[str] = []
    impl: list[Any] = []
    reuse_on = True
    for idx, s in enumerate(cases):
        ctx.ev()
        toks = py_lex(s)
        obs, specs = py_parse(s)
        if toks.count(" ") >= 2:
            ctx.nt(s)
        if isinstance(obs, str) and not obs.startswith("err "):
            small = "".join(core.shrink_list(list(s), lambda cs: (lambda o: isinstance(o, str) and not o.startswith("err "))(py_parse("".join(cs))[0]))) if len(s) > 1 else s
            ctx.fail(SITE_ELEM if "Error" in obs else SITE_PARSE, SIG_EXC, {"level": "string", "text": enc_text(small)},
                     f"parse_pipeline({small!r}) raised {py_parse(small)[0]} (only ArgSpecParseError is a pipeline parse error)", py_parse(small)[0], "ok | err")
        if isinstance(obs, str) and obs.startswith("err other:"):
            ctx.fail(SITE_PARSE, "unlisted ArgSpecParseError message", {"level": "string", "text": enc_text(s)}, obs, obs, "one of the nine messages")
        # every parsed spec naming a registered pass: conversion (mostly an option error here) leaves it intact
        if specs is not None and reuse_on:
            for sp in specs:
                if sp.name in classes:
                    ctx.count("strings.reuse_checked")
                    if not check_spec_reuse(ctx, classes[sp.name], sp):
                        reuse_on = False
                        break
        # PassPipeline.parse_spec: parse error or option error only (sampled: it constructs passes)
        if specs is not None and idx % 7 == 0:
            try:
                PassPipeline.parse_spec(avail, s)
            except ValueError:
                pass
            except BaseException as e:  # noqa: BLE001
                if isinstance(e, (KeyboardInterrupt, SystemExit)):
                    raise
                ctx.fail(SITE_PIPE, "exception other than ArgSpecParseError/ValueError from PassPipeline.parse_spec",
                         {"level": "pipeline-string", "text": enc_text(s)}, f"PassPipeline.parse_spec({s!r}) raised {core.exc_name(e)}",
                         "raise " + core.exc_name(e), "passes | ArgSpecParseError | ValueError")
        if not has_surrogate(s):
            lines.append("lex " + enc_text(s))
            impl.append(toks)
            lines.append("parse " + enc_text(s))
            impl.append(obs)
    model = ctx.model("arg_spec", lines)
    for line, i, m in zip(lines, impl, model):
        mo = model_parse_obs(m) if line.startswith("parse ") else m
        if mo != i:
            ctx.mismatch("correspondence:C18/arg_spec." + line.split(" ")[0], {"level": "string", "text": line.split(" ")[1], "op": line.split(" ")[0]}, i, mo)
            break
    ctx.sample({"level": "string", "text": cases[len(cases) // 2], "lex": py_lex(cases[len(cases) // 2]), "parse": py_parse(cases[len(cases) // 2])[0]})


def run_charclasses(ctx: core.Ctx) -> None:
    """`\\s` of the SPACE rule against the model's `isSpace`, for every code point"""
    pat = re.compile(r"\s")
    want = [c for c in range(0x110000) if not 0xD800 <= c <= 0xDFFF and pat.match(chr(c))]
    got = ctx.model("arg_spec", ["spaces 0 1114112"])[0].split(" ")
    if got[0] != "spaces" or [int(x) for x in got[1:]] != want:
        diff = sorted(set(want) ^ {int(x) for x in got[1:] if x.isdigit()})
        ctx.mismatch("correspondence:C18/arg_spec.isspace", {"level": "codepoint", "cp": diff[0] if diff else -1}, want[:40], got[:41])
    ctx.count("codepoints.isspace", 0x110000 - 0x800)


# ---------------------------------------------------------------------------------------------

def run(ctx: core.Ctx) -> None:
    ctx.lean()
    quick = ctx.tier == "quick"
    run_spec_level(ctx, 1500 if quick else 60000)
    made = run_pass_level(ctx, 12 if quick else 300)
    run_pipelines(ctx, made, 300 if quick else 10000)
    printed = []
    for inst in made[:: max(1, len(made) // 400)]:
        try:
            printed.append(str(inst.pipeline_pass_spec(include_default=True)))
        except Exception:  # noqa: BLE001
            pass
    run_strings(ctx, 4 if quick else 5, 3 if quick else 4, 6000 if quick else 400000, printed)
    run_charclasses(ctx)
    ctx.exhaustive = True
    ctx.extra["exhaustive_scope"] = (
        f"all strings of length <= {4 if quick else 5} over {SMALL_ALPHA} and of length <= {3 if quick else 4} after the prefixes "
        "`a{`, `a{b=`, `a{b=1,`, `mlir-opt`; every registered pass class; every code point for \\s; random beyond")


def replay(ctx: core.Ctx, body: dict) -> int:
    case = body["case"]
    lvl = case.get("level")
    bad = False
    if lvl == "spec":
        params = {k: tuple(dec_val(v) for v in vs) for k, vs in case["params"]}
        text, obs, want = spec_roundtrip_obs(case["name"], params)
        print("printed       :", repr(text))
        print("implementation:", obs)
        print("expected      :", want)
        if not text.startswith("raise ") and not has_surrogate(text):
            print("lean model    :", model_parse_obs(ctx.model("arg_spec", ["parse " + enc_text(text)])[0]))
        bad = obs != want
    elif lvl == "pass":
        cls = all_classes()[case["class"]]
        kw = {k: dec_fval(Words(v)) for k, v in case["values"].items()}
        inst = cls(**kw)
        text, back, stage = pass_roundtrip(inst, case.get("include_default", False))
        print("printed       :", repr(text))
        print("implementation:", back if isinstance(back, str) else describe_values(back))
        print("expected      :", describe_values(inst))
        bad = stage is not None or not same_instance(inst, back)
    elif lvl == "convert":
        from xdsl.utils.arg_spec import ArgSpec

        cls = all_classes()[case["class"]]
        name, params = dec_spec(Words(case["spec"]))
        spec = ArgSpec(name, dict(params))
        print("spec          :", str(spec))
        first, why = convert_reusing(cls, spec)
        print("from_spec     :", first if isinstance(first, str) else describe_values(first))
        print("spec afterwards:", str(spec))
        print("used twice    :", why or "spec unchanged, same result again")
        bad = why is not None
    elif lvl in ("string", "pipeline", "pipeline-string"):
        s = dec_text(case["text"])
        obs, _ = py_parse(s)
        print("text          :", repr(s))
        print("tokens        :", py_lex(s))
        print("implementation:", obs)
        if not has_surrogate(s):
            m = ctx.model("arg_spec", ["lex " + enc_text(s), "parse " + enc_text(s)])
            print("lean tokens   :", m[0])
            print("lean model    :", model_parse_obs(m[1]))
            bad = m[0] != py_lex(s) or model_parse_obs(m[1]) != obs
        bad = bad or (isinstance(obs, str) and not obs.startswith("err "))
        if lvl != "string":
            from xdsl.passes import PassPipeline

            classes = all_classes()
            try:
                got = PassPipeline.parse_spec({n: (lambda c=c: c) for n, c in classes.items()}, s).passes
                print("passes        :", [(type(g).name, describe_values(g)) for g in got])
                back = ",".join(str(g.pipeline_pass_spec()) for g in got)
                bad = bad or (lvl == "pipeline" and back != s)
                why = pipeline_reuse_problem({n: (lambda c=c: c) for n, c in classes.items()}, classes, s, None)
                print("used twice    :", why[1] if why else "same passes, specs unchanged")
                bad = bad or why is not None
            except BaseException as e:  # noqa: BLE001
                print("parse_spec    : raise", core.exc_name(e))
                bad = bad or not isinstance(e, ValueError) and core.exc_name(e) != "ArgSpecParseError"
    else:
        line = case.get("line") or (f"isspace {case['cp']}" if "cp" in case else None)
        if line:
            print("model line    :", line)
            print("lean model    :", ctx.model("arg_spec", [line])[0])
        print("implementation:", body.get("impl_observation"))
        bad = body.get("impl_observation") != body.get("model_observation")
    print("property", "FAILS" if bad else "holds", "on this case")
    return 1 if bad else 0
