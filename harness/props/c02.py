"""C02 — cloning yields an independent equivalent copy and leaves other IR untouched."""
from __future__ import annotations

import copy as _copy
import json
from typing import Any

from vp import core

META = {
    "title": "Cloning yields an independent equivalent copy and leaves other IR untouched",
    "category": "proof",
    "design_ref": "DESIGN.md §5 C02",
    "lean_modules": ["XdslProofs.C02", "XdslProofs.C02Op"],
    "text": (
        "Lean model XdslModel/Clone.lean of the two-phase clone algorithm (clone_without_regions, clone, "
        "clone_into/Region.clone with value_mapper/block_mapper threading exactly as the Python, phase-2 "
        "operand assignment and follow-up edits modelled as updates by object identity over every tree of "
        "the universe). Theorems (XdslProofs/C02.lean, C02Op.lean) for every IR tree with distinct "
        "values/blocks and the verifier's successor rule (srcOK_of_verified), every insert index and every "
        "caller-supplied mapper: clone_into_iso / clone_op_iso / region_clone_iso (copy = source renamed by "
        "the final mappers, operands and successors included, forward references too), "
        "clone_*_mapper_inside (internal definitions map injectively to new objects) and _outside (caller's "
        "mapper untouched elsewhere), clone_into_source_unchanged / clone_op_source_unchanged, "
        "clone_into_dest_frame (destination = old[:i] ++ copy ++ old[i:], old blocks untouched) and "
        "clone_into_frame (any tree of old objects untouched), clone_into_fresh / clone_op_fresh (every "
        "identity of the copy incl. its attribute/property dict objects is new and distinct), "
        "clone_*_edit_independence and apply_to_clone_frame (edits addressed to copy objects never change old "
        "trees and vice versa), clone_without_regions_spec, clone_into_pinned_counterexample (the pinned "
        "zip-with-whole-destination walk). Tie: generated IR x entry point x insert index x mappers x 0-10 "
        "follow-up edits run on the real objects, on an independent reference clone over snapshots (oracle) "
        "and on the Lean model (correspondence, canonical text), plus an identity-level frame check of every "
        "pre-existing object and apply_to_clone of registered passes on corpus modules."
    ),
    "technique": "Lean 4 proofs on a hand-written model + differential correspondence + direct oracle on real objects",
    "level_note": (
        "Trusted: Lean kernel; the hand-written model (tied by correspondence only); Python object identity is "
        "modelled by Nat identities, dict copies by fresh dict identities. Excluded from the iso clause (the "
        "frame clauses are still checked): IR in which an op has a successor block that belongs to the cloned "
        "part but not to the op's own region (rejected by Operation.verify: 'branching to a block of a "
        "different region'), clone_operands=False (documented as producing ops without operands), an "
        "insert_index outside 0..len(dest.blocks) (Region.insert_block silently inserts nothing), a destination "
        "nested inside the source. name hints and locations are not observed. apply_to_clone: explored on a "
        "sample of passes x corpus modules, not proved beyond the model theorem for Operation.clone."
    ),
    "rule": (
        "A case = (IR tree spec, entry point, insert index, mapper variant, edit list). Non-trivial = the source "
        "contains at least one reference (operand or successor) to something defined inside the cloned part "
        "AND at least one of: forward reference, multi-block region, non-empty destination, caller-supplied "
        "mapper, nested region, follow-up edit. Distinct = distinct JSON of the case."
    ),
    "trusted_base": [
        "correspondence harness harness/props/c02.py (generated cases; real objects vs reference clone vs Lean model)",
        "hand-written Lean model XdslModel/Clone.lean of xdsl/ir/core.py clone functions",
    ],
    "budget": {"quick": 150, "thorough": 1100},
}

NAMES = ["test.op", "test.termop", "test.pureop"]

# ---------------------------------------------------------------------------------------------
# building real IR from a spec
# ---------------------------------------------------------------------------------------------


def _types():
    from xdsl.dialects.builtin import IndexType, i1, i32, i64

    return [i1, i32, i64, IndexType()]


def _opclass(code: int):
    from xdsl.dialects import test

    return [test.TestOp, test.TestTermOp, test.TestPureOp][code]


class World:
    """Real objects of one case + harness identities."""

    def __init__(self, case: dict):
        from xdsl.dialects.builtin import IntAttr
        from xdsl.ir import Block, Region

        self.case = case
        self.ids: dict[int, int] = {}      # id(obj) -> harness identity
        self.keep: list[Any] = []          # keeps every numbered object alive
        self.newtok: dict[int, str] = {}   # id(obj) -> token for objects created later
        T = _types()
        self.T = T
        self.tcode = {id(t): i for i, t in enumerate(T)}
        pending: list[tuple[Any, dict]] = []   # (op, spec) for the operand pass

        def mk_blocks(bspecs):
            return [Block(arg_types=[T[t] for t in b["args"]]) for b in bspecs]

        def fill(blocks, bspecs, table, host):
            for blk, b in zip(blocks, bspecs):
                table.append(blk)
                for o in b["ops"]:
                    blk.add_op(mk_op(o, table, host))

        def mk_op(o, table, host):
            regions = []
            if host is not None and host["left"] == 0 and host["region"] is not None:
                host["left"] = -1
                regions.append(host["region"])
                host["region"] = None
            else:
                if host is not None:
                    host["left"] -= 1
                for g in o["g"]:
                    bl = mk_blocks(g)
                    r = Region(bl)
                    fill(bl, g, table, host)
                    regions.append(r)
            op = _opclass(o["n"]).create(
                result_types=[T[t] for t in o["r"]],
                attributes={f"k{k}": IntAttr(v) for k, v in o["a"]},
                properties={f"k{k}": IntAttr(v) for k, v in o["p"]},
                regions=regions,
            )
            pending.append((op, o))
            return op

        # holder with external values / blocks
        self.outer = Block(arg_types=[T[t] for t in case["ext_vals"]])
        self.ext_blocks = [Block() for _ in range(case["ext_blocks"])]
        self.holder = _opclass(0).create(regions=[Region([self.outer, *self.ext_blocks])])
        self.src_blocks_tbl: list[Any] = []
        self.dst_blocks_tbl: list[Any] = []
        entry = case["entry"]
        self.src_op = None
        self.src_region = None
        self.dst_region = None
        if entry in ("clone", "clonenr"):
            self.src_op = mk_op(case["src"], self.src_blocks_tbl, None)
            if case.get("src_attached", True):
                self.outer.add_op(self.src_op)
        else:
            bl = mk_blocks(case["src"])
            self.src_region = Region(bl)
            fill(bl, case["src"], self.src_blocks_tbl, None)
        if entry == "into":
            host = None
            if case.get("nested") is not None:
                host = {"left": case["nested"], "region": self.src_region}
            bl = mk_blocks(case["dst"])
            self.dst_region = Region(bl)
            fill(bl, case["dst"], self.dst_blocks_tbl, host)
            if host is not None and host["region"] is not None:
                raise core.InfraError("nested host index out of range")
            if case.get("dst_attached", True):
                self.outer.add_op(_opclass(0).create(regions=[self.dst_region]))
        if self.src_region is not None and self.src_region.parent is None and case.get("src_attached", True):
            self.outer.add_op(_opclass(0).create(regions=[self.src_region]))
        # definition lists (pre-order), then operands / successors
        self.src_defs = self._defvals(self._src_roots())
        self.dst_defs = self._defvals(([], list(self.dst_region.blocks))) if self.dst_region is not None else []
        for op, o in pending:
            op.operands = [self._val(r) for r in o["u"]]
            op.successors = [self._blk(r) for r in o["s"]]
        # harness identities
        for v in self.outer.args:
            self._number(v)
        for b in self.ext_blocks:
            self._number(b)
        self._number(self.outer)
        for roots in (self._src_roots(), ([], list(self.dst_region.blocks) if self.dst_region is not None else [])):
            self._number_tree(*roots)
        self.next = len(self.keep)

    # -- helpers ---------------------------------------------------------------------------
    def _src_roots(self):
        if self.src_op is not None:
            return [self.src_op], []
        return [], list(self.src_region.blocks)

    def _out_roots(self):
        if self.case["entry"] in ("clone", "clonenr"):
            return ([self.out_op] if self.out_op is not None else []), []
        return [], (list(self.out_region.blocks) if self.out_region is not None else [])

    def roots(self, side: int):
        return self._src_roots() if side == 0 else self._out_roots()

    @staticmethod
    def _defvals(roots) -> list[Any]:
        out: list[Any] = []

        def op_(o):
            out.extend(o.results)
            for r in o.regions:
                for b in r.blocks:
                    blk_(b)

        def blk_(b):
            out.extend(b.args)
            for o in b.ops:
                op_(o)

        for o in roots[0]:
            op_(o)
        for b in roots[1]:
            blk_(b)
        return out

    @staticmethod
    def _defblocks(roots) -> list[Any]:
        out: list[Any] = []

        def op_(o):
            for r in o.regions:
                for b in r.blocks:
                    blk_(b)

        def blk_(b):
            out.append(b)
            for o in b.ops:
                op_(o)

        for o in roots[0]:
            op_(o)
        for b in roots[1]:
            blk_(b)
        return out

    @staticmethod
    def _walk(roots) -> list[Any]:
        out: list[Any] = []
        for o in roots[0]:
            out.extend(o.walk())
        for b in roots[1]:
            out.extend(b.walk())
        return out

    def _val(self, r):
        k, n = r
        if k == "v":
            return self.src_defs[n]
        if k == "d":
            return self.dst_defs[n]
        return self.outer.args[n]

    def _blk(self, r):
        k, n = r
        if k == "b":
            return self.src_blocks_tbl[n]
        if k == "e":
            return self.dst_blocks_tbl[n]
        return self.ext_blocks[n]

    def _number(self, obj) -> None:
        if id(obj) not in self.ids:
            self.ids[id(obj)] = len(self.keep)
            self.keep.append(obj)

    def _number_tree(self, ops, blocks) -> None:
        def op_(o):
            self._number(o)
            self._number(o.attributes)
            self._number(o.properties)
            for r in o.results:
                self._number(r)
            for r in o.regions:
                for b in r.blocks:
                    blk_(b)

        def blk_(b):
            self._number(b)
            for a in b.args:
                self._number(a)
            for o in b.ops:
                op_(o)

        for o in ops:
            op_(o)
        for b in blocks:
            blk_(b)

    def tok(self, obj):
        i = self.ids.get(id(obj))
        if i is not None:
            return i
        t = self.newtok.get(id(obj))
        if t is None:
            t = f"n{len(self.newtok)}"
            self.newtok[id(obj)] = t
            self.keep.append(obj)
        return t

    # -- snapshots (plain data, identities as tokens) ------------------------------------------
    def snap_op(self, o) -> dict:
        from xdsl.dialects.builtin import IntAttr

        def d(m):
            out = []
            for k, v in m.items():
                out.append([int(k[1:]) if k[:1] == "k" and k[1:].isdigit() else -1,
                            v.data if isinstance(v, IntAttr) else -1])
            return out

        return {
            "t": self.tok(o), "n": NAMES.index(o.name) if o.name in NAMES else -1,
            "ar": self.tok(o.attributes), "a": d(o.attributes), "pr": self.tok(o.properties), "p": d(o.properties),
            "r": [[self.tok(r), self.tcode.get(id(r.type), -1)] for r in o.results],
            "u": [self.tok(v) for v in o.operands],
            "s": [self.tok(b) for b in o.successors],
            "g": [[self.snap_block(b) for b in r.blocks] for r in o.regions],
        }

    def snap_block(self, b) -> dict:
        return {"t": self.tok(b), "args": [[self.tok(a), self.tcode.get(id(a.type), -1)] for a in b.args],
                "ops": [self.snap_op(o) for o in b.ops]}

    def snap(self, side: int):
        ops, blocks = self.roots(side)
        return [self.snap_op(o) for o in ops], [self.snap_block(b) for b in blocks]


# ---------------------------------------------------------------------------------------------
# canonical text of snapshots (same format as Xdsl.Clone.canon / World.show)
# ---------------------------------------------------------------------------------------------

def s_defvals(ops, blocks) -> list:
    out: list = []

    def op_(o):
        out.extend(r[0] for r in o["r"])
        for g in o["g"]:
            for b in g:
                blk_(b)

    def blk_(b):
        out.extend(a[0] for a in b["args"])
        for o in b["ops"]:
            op_(o)

    for o in ops:
        op_(o)
    for b in blocks:
        blk_(b)
    return out


def s_defblocks(ops, blocks) -> list:
    out: list = []

    def op_(o):
        for g in o["g"]:
            for b in g:
                blk_(b)

    def blk_(b):
        out.append(b["t"])
        for o in b["ops"]:
            op_(o)

    for o in ops:
        op_(o)
    for b in blocks:
        blk_(b)
    return out


def s_walk(ops, blocks) -> list[dict]:
    out: list[dict] = []

    def op_(o):
        out.append(o)
        for g in o["g"]:
            for b in g:
                for x in b["ops"]:
                    op_(x)

    for o in ops:
        op_(o)
    for b in blocks:
        for o in b["ops"]:
            op_(o)
    return out


def s_allblocks(ops, blocks) -> list[dict]:
    out: list[dict] = []

    def op_(o):
        for g in o["g"]:
            for b in g:
                blk_(b)

    def blk_(b):
        out.append(b)
        for o in b["ops"]:
            op_(o)

    for o in ops:
        op_(o)
    for b in blocks:
        blk_(b)
    return out


def _ref(pre: str, ext: str, idx: dict, x) -> str:
    i = idx.get(x)
    if i is not None:
        return f"{pre}{i}"
    return f"{ext}{x}" if isinstance(x, int) else f"{ext}?"


def _index(defs: list) -> dict:
    idx: dict = {}
    for i, d in enumerate(defs):
        idx.setdefault(d, i)
    return idx


def s_canon(ops, blocks) -> str:
    dv = _index(s_defvals(ops, blocks))
    db = _index(s_defblocks(ops, blocks))

    def dct(l):
        return ",".join(f"{k}={v}" for k, v in sorted(l, key=lambda p: p[0]))

    def typed(l):
        return " ".join(f"{_ref('v', 'x', dv, t)}:{ty}" for t, ty in l)

    def op_(o) -> str:
        return ("(o" + str(o["n"]) + " a{" + dct(o["a"]) + "} p{" + dct(o["p"]) + "} r[" + typed(o["r"]) + "] u["
                + " ".join(_ref("v", "x", dv, v) for v in o["u"]) + "] s["
                + " ".join(_ref("b", "y", db, b) for b in o["s"]) + "]"
                + "".join("(r" + "".join(blk_(b) for b in g) + ")" for g in o["g"]) + ")")

    def blk_(b) -> str:
        return "(" + _ref("b", "y", db, b["t"]) + " [" + typed(b["args"]) + "]" + "".join(op_(o) for o in b["ops"]) + ")"

    return "".join(op_(o) for o in ops) + "#" + "".join(blk_(b) for b in blocks)


def s_show(src, out, maps) -> str:
    """maps: None or (vm: dict tok->tok, bm: dict tok->tok, vkeys, bkeys)"""
    s = "S " + s_canon(*src) + " | O " + s_canon(*out)
    if maps is not None:
        vm, bm, vkeys, bkeys = maps
        dv = _index(s_defvals(*out))
        db = _index(s_defblocks(*out))
        s += " | vm " + ",".join(f"{k}>" + (_ref("v", "x", dv, vm[k]) if k in vm else "-") for k in vkeys)
        s += " | bm " + ",".join(f"{k}>" + (_ref("b", "y", db, bm[k]) if k in bm else "-") for k in bkeys)
    return s


# ---------------------------------------------------------------------------------------------
# reference clone and edits on snapshots: the property, stated directly
# ---------------------------------------------------------------------------------------------

class Ref:
    """Independent statement of the property on plain data: the copy is the source with every internal
    definition replaced by a new token, internal references redirected, everything else as the caller's
    mapper says or unchanged; source and destination are not touched; edits act on the identity they
    are addressed to and on nothing else."""

    def __init__(self):
        self.n = 0

    def fresh(self) -> str:
        self.n += 1
        return f"c{self.n}"

    def clone(self, ops, blocks, vm: dict, bm: dict, co: bool, with_regions: bool = True):
        """returns (new ops, new blocks, final vm, final bm); vm/bm are the caller's (copied)"""
        vm, bm = dict(vm), dict(bm)
        if with_regions:
            for v in s_defvals(ops, blocks):
                vm[v] = self.fresh()
            for b in s_defblocks(ops, blocks):
                bm[b] = self.fresh()
        else:
            for o in ops:
                for r in o["r"]:
                    vm[r[0]] = self.fresh()
        def op_(o):
            return {"t": self.fresh(), "n": o["n"], "ar": self.fresh(), "a": [list(p) for p in o["a"]],
                    "pr": self.fresh(), "p": [list(p) for p in o["p"]],
                    "r": [[vm[t], ty] for t, ty in o["r"]],
                    "u": [vm.get(v, v) for v in o["u"]] if co else [],
                    "s": [bm.get(b, b) for b in o["s"]],
                    "g": [[blk_(b) for b in g] if with_regions else [] for g in o["g"]]}

        def blk_(b):
            return {"t": bm[b["t"]], "args": [[vm[t], ty] for t, ty in b["args"]], "ops": [op_(o) for o in b["ops"]]}

        return [op_(o) for o in ops], [blk_(b) for b in blocks], vm, bm

    def edit(self, universe: list, e: list) -> None:
        """universe = [(ops, blocks) of the source side, (ops, blocks) of the out side]; `e` is the positional
        edit; it is resolved to the identity it addresses and applied to that identity wherever it occurs"""
        kind, side = e[0], e[1]
        if kind == "setop":
            tgt = s_walk(*universe[side])[e[2]]["t"]
            val = e[5] if e[4] == 2 else s_defvals(*universe[e[4]])[e[5]]
        elif kind == "erase":
            tgt = s_walk(*universe[side])[e[2]]["t"]
        elif kind == "addarg":
            tgt = s_defblocks(*universe[side])[e[2]]
            val = self.fresh()
        else:
            tgt = s_walk(*universe[side])[e[2]]["ar" if kind == "attr" else "pr"]
        for ops, blocks in universe:
            if kind == "setop":
                for o in s_walk(ops, blocks):
                    if o["t"] == tgt and e[3] < len(o["u"]):
                        o["u"][e[3]] = val
            elif kind == "erase":
                def prune(lst):
                    lst[:] = [o for o in lst if o["t"] != tgt]
                    for o in lst:
                        for g in o["g"]:
                            for b in g:
                                prune(b["ops"])
                prune(ops)
                for b in blocks:
                    prune(b["ops"])
            elif kind == "addarg":
                for b in s_allblocks(ops, blocks):
                    if b["t"] == tgt:
                        b["args"].append([val, e[3]])
            else:
                for o in s_walk(ops, blocks):
                    for refk, dk in (("ar", "a"), ("pr", "p")):
                        if o[refk] == tgt:
                            o[dk][:] = [p for p in o[dk] if p[0] != e[3]] + [[e[3], e[4]]]


# ---------------------------------------------------------------------------------------------
# Lean protocol tokens
# ---------------------------------------------------------------------------------------------

def tk_list(l) -> list:
    return [len(l), *l]


def tk_pairs(l) -> list:
    return [len(l), *[x for p in l for x in p]]


def tk_op(o) -> list:
    out = [o["t"], o["n"], o["ar"], *tk_pairs(o["a"]), o["pr"], *tk_pairs(o["p"]), *tk_pairs(o["r"]),
           *tk_list(o["u"]), *tk_list(o["s"]), len(o["g"])]
    for g in o["g"]:
        out.extend(tk_blocks(g))
    return out


def tk_blocks(bs) -> list:
    out = [len(bs)]
    for b in bs:
        out.extend([b["t"], *tk_pairs(b["args"]), len(b["ops"])])
        for o in b["ops"]:
            out.extend(tk_op(o))
    return out


def _all_int(l) -> bool:
    return all(isinstance(x, int) and x >= 0 for x in l)


# ---------------------------------------------------------------------------------------------
# identity-level frame check: nothing that existed before the call may change
# ---------------------------------------------------------------------------------------------

def collect_objects(w: World):
    """every op/block/region/value reachable from the holder and the detached roots"""
    ops: list = []
    blocks: list = []
    regions: list = []
    seen: set[int] = set()

    def reg(r):
        if id(r) in seen:
            return
        seen.add(id(r))
        regions.append(r)
        for b in r.blocks:
            blk(b)

    def blk(b):
        if id(b) in seen:
            return
        seen.add(id(b))
        blocks.append(b)
        for o in b.ops:
            op(o)

    def op(o):
        if id(o) in seen:
            return
        seen.add(id(o))
        ops.append(o)
        for r in o.regions:
            reg(r)

    op(w.holder)
    if w.src_op is not None:
        op(w.src_op)
    if w.src_region is not None:
        reg(w.src_region)
    if w.dst_region is not None:
        reg(w.dst_region)
    return ops, blocks, regions


def frame_state(w: World):
    ops, blocks, regions = collect_objects(w)
    st: dict[int, Any] = {}
    uses: dict[int, set] = {}
    for o in ops:
        st[id(o)] = ("op", o.name, tuple(map(id, o.operands)), tuple(map(id, o.results)), tuple(map(id, o.successors)),
                     tuple(map(id, o.regions)), id(o.parent), id(o.attributes), id(o.properties),
                     tuple((k, id(v)) for k, v in o.attributes.items()), tuple((k, id(v)) for k, v in o.properties.items()),
                     tuple(id(r.type) for r in o.results))
        for r in o.results:
            uses[id(r)] = {(id(u.operation), u.index) for u in r.uses}
    for b in blocks:
        st[id(b)] = ("block", tuple(map(id, b.args)), tuple(map(id, b.ops)), id(b.parent), tuple(id(a.type) for a in b.args))
        for a in b.args:
            uses[id(a)] = {(id(u.operation), u.index) for u in a.uses}
        uses[id(b)] = {(id(u.operation), u.index) for u in b.uses}
    for r in regions:
        st[id(r)] = ("region", tuple(map(id, r.blocks)), id(r.parent))
    return st, uses, (ops, blocks, regions)


def frame_check(w: World, before, after_region_expected: tuple[int, list[int]] | None) -> str | None:
    """compare pre-existing objects with `before`; the destination region may have gained blocks at one place"""
    st0, uses0, keep = before
    st1, uses1, _ = frame_state(w)
    old = set(st0)
    for k, v in st0.items():
        v1 = st1.get(k)
        if v1 == v:
            continue
        if v[0] == "region" and after_region_expected is not None and k == after_region_expected[0]:
            # old[:i] + new + old[i:]
            oldb = list(v[1])
            newb = list(v1[1]) if v1 else []
            fresh = [b for b in newb if b not in old]
            rest = [b for b in newb if b in old]
            if rest != oldb or v1[2] != v[2]:
                return "destination region lost or reordered pre-existing blocks"
            continue
        if v1 is None:
            return f"pre-existing {v[0]} is no longer reachable"
        fields = {"op": ["kind", "name", "operands", "results", "successors", "regions", "parent", "attributes dict",
                         "properties dict", "attribute entries", "property entries", "result types"],
                  "block": ["kind", "args", "ops", "parent", "arg types"],
                  "region": ["kind", "blocks", "parent"]}[v[0]]
        diff = [fields[i] for i in range(len(v)) if v[i] != v1[i]]
        return f"pre-existing {v[0]} changed: {', '.join(diff)}"
    for k, u in uses0.items():
        u1 = uses1.get(k, set())
        if u - u1:
            return "a pre-existing value/block lost a use"
        if any(op in old for op, _ in (u1 - u)):
            return "a pre-existing value/block gained a use by a pre-existing op"
    return None


# ---------------------------------------------------------------------------------------------
# running one case
# ---------------------------------------------------------------------------------------------

class CaseResult:
    def __init__(self):
        self.lines: list[str] = []       # protocol input for the Lean model
        self.impl: list[str] = []        # what the real objects show
        self.expect: list[str] = []      # what the reference (property) says
        self.complaints: list[tuple[str, str, str]] = []   # (call_site, signature, description)
        self.edits: list[list] = []      # edits actually applied (for replay)
        self.stats: dict[str, int] = {}


SITE = {
    "clone": "xdsl.ir.core.Operation.clone",
    "clonenr": "xdsl.ir.core.Operation.clone_without_regions",
    "rclone": "xdsl.ir.core.Region.clone",
    "into": "xdsl.ir.core.Region.clone_into",
}


def run_case(case: dict, rng=None, n_edits: int = 0, fixed_flag: int = 1) -> CaseResult:
    """Execute `case` on the real objects.  Edits: the recorded ones in case['edits'] if present,
    otherwise `n_edits` new ones drawn from `rng` (they are recorded in the result)."""
    from xdsl.dialects.builtin import IntAttr
    from xdsl.ir import Region

    res = CaseResult()
    w = World(case)
    entry = case["entry"]
    site = SITE[entry]
    malformed = bool(case.get("malformed"))
    ref = Ref()
    src0 = w.snap(0)
    w.out_op = None
    w.out_region = w.dst_region
    dst0 = w.snap(1) if entry == "into" else ([], [])
    res.lines.append("reset")
    if entry in ("clone", "clonenr"):
        res.lines.append("srcop " + " ".join(map(str, tk_op(src0[0][0]))))
    else:
        res.lines.append("srcreg " + " ".join(map(str, tk_blocks(src0[1]))))
    if entry == "into":
        res.lines.append("dst " + " ".join(map(str, tk_blocks(dst0[1]))))
    res.impl += ["ok"] * len(res.lines)
    res.expect += ["ok"] * len(res.lines)
    # mappers
    maps = case.get("maps")
    vm_pairs = [(w._val(k), w._val(v)) for k, v in maps["vm"]] if maps else []
    bm_pairs = [(w._blk(k), w._blk(v)) for k, v in maps["bm"]] if maps else []
    vm = {k: v for k, v in vm_pairs} if maps else None
    bm = {k: v for k, v in bm_pairs} if maps else None
    tvm = [(w.tok(k), w.tok(v)) for k, v in vm_pairs]
    tbm = [(w.tok(k), w.tok(v)) for k, v in bm_pairs]
    co = True if entry == "rclone" else case.get("co", True)
    idx = case.get("idx")
    maptoks = [w.next, *tk_pairs(tvm), *tk_pairs(tbm)]
    sm = 1 if maps is not None else 0
    if entry == "clone":
        res.lines.append(f"clone {int(co)} {sm} " + " ".join(map(str, maptoks)))
    elif entry == "clonenr":
        res.lines.append(f"clonenr {int(co)} {sm} " + " ".join(map(str, maptoks)))
    else:
        res.lines.append(f"into {fixed_flag} {0 if idx is None else idx + 1} {int(co)} {sm} " + " ".join(map(str, maptoks)))
    before = frame_state(w)
    # ---- the call on the real code
    try:
        kw: dict[str, Any] = {}
        if not co:
            kw["clone_operands"] = False
        if entry == "clone":
            w.out_op = w.src_op.clone(vm, bm, **kw)
        elif entry == "clonenr":
            w.out_op = w.src_op.clone_without_regions(vm, bm, **kw)
        elif entry == "rclone":
            w.out_region = w.src_region.clone()
        else:
            w.src_region.clone_into(w.dst_region, idx, vm, bm, **kw)
    except Exception as e:  # noqa: BLE001
        res.impl.append("raise " + core.exc_name(e))
        res.expect.append("(no exception)")
        res.complaints.append((site, "clone raises", f"{entry} raised {core.exc_name(e)}: {e}"))
        return res
    # ---- reference
    r_ops, r_blocks, r_vm, r_bm = ref.clone(src0[0], src0[1], dict(tvm), dict(tbm), co, with_regions=(entry != "clonenr"))
    uni_src = _copy.deepcopy(src0)
    if entry in ("clone", "clonenr"):
        uni_out = (r_ops, [])
    elif entry == "rclone":
        uni_out = ([], r_blocks)
    else:
        old = _copy.deepcopy(dst0[1])
        i = len(old) if idx is None else idx
        uni_out = ([], old[:i] + r_blocks + old[i:] if 0 <= i <= len(old) else old)
    vkeys = sorted({k for k, _ in tvm} | set(s_defvals(*src0)))
    bkeys = sorted({k for k, _ in tbm} | set(s_defblocks(*src0)))

    def observe(first: bool):
        m_impl = m_ref = None
        if maps is not None:
            ivm = {w.tok(k): w.tok(v) for k, v in vm.items()}
            ibm = {w.tok(k): w.tok(v) for k, v in bm.items()}
            m_impl = (ivm, ibm, vkeys, bkeys)
            m_ref = (r_vm, r_bm, vkeys, bkeys)
            if first:
                extra = [k for k in list(ivm) + list(ibm) if not isinstance(k, int)]
                if extra or set(ivm) - set(vkeys) or set(ibm) - set(bkeys):
                    res.complaints.append((site, "mapper has keys that are neither the caller's nor source definitions",
                                           "value_mapper/block_mapper contains unexpected keys after the call"))
        res.impl.append(s_show(w.snap(0), w.snap(1), m_impl))
        res.expect.append(s_show(uni_src, uni_out, m_ref))

    observe(True)
    # ---- direct oracle, clause by clause
    exp_src = res.expect[-1].split(" | ")[0]
    got = res.impl[-1].split(" | ")
    if got[0] != exp_src:
        res.complaints.append((site, "source modified by clone", "canonical form of the source differs after the call"))
    region_exp = (id(w.dst_region), []) if entry == "into" else None
    fc = frame_check(w, before, region_exp)
    if fc is not None:
        sig = "pre-existing IR modified by clone"
        res.complaints.append((site, sig, fc))
    base_ok = got[1:] == res.expect[-1].split(" | ")[1:]
    if not malformed:
        if got[1] != res.expect[-1].split(" | ")[1]:
            if entry == "into" and len(dst0[1]) > 0:
                sig = "clone into non-empty destination: copy not equivalent / destination IR rewired"
            elif entry == "clonenr":
                sig = "clone_without_regions: operand referring to the op's own result not remapped"
            else:
                sig = "copy not equivalent to source under the mapping"
            res.complaints.append((site, sig, "canonical form of the clone/destination differs from the reference clone"))
        elif maps is not None and got[2:] != res.expect[-1].split(" | ")[2:]:
            res.complaints.append((site, "mapper content wrong after clone", "value_mapper/block_mapper differ from old->copy"))
    # identities: everything the copy defines is new, dicts are not shared
    old_ids = set(w.ids)
    new_ops = [o for o in World._walk(w._out_roots()) if id(o) not in old_ids]
    seen: set[int] = set()
    for o in new_ops:
        things = [o.attributes, o.properties, *o.results]
        for t in things:
            if id(t) in old_ids or id(t) in seen:
                res.complaints.append((site, "copy shares an object with pre-existing IR",
                                       "attribute/property dict or result object of the copy is not new"))
            seen.add(id(t))
    if entry != "into" and w._out_roots() != ([], []):
        if any(id(o) in old_ids for o in World._walk(w._out_roots())):
            res.complaints.append((site, "copy shares an object with pre-existing IR", "an op of the copy is a source op"))
    # ---- follow-up edits
    recorded = case.get("edits")
    todo = list(recorded) if recorded is not None else None
    count = len(todo) if todo is not None else n_edits
    for _ in range(count):
        e = todo.pop(0) if todo is not None else gen_edit(w, rng, case)
        if e is None:
            break
        r = apply_edit(w, e, ref, [uni_src, uni_out])
        if r is not None:
            try:
                ref.edit([uni_src, uni_out], e)
            except IndexError:
                pass   # the real universe has a different shape than the reference: already reported
        if r is None:
            if todo is not None:
                continue
            break
        res.edits.append(e)
        res.lines.append("edit " + " ".join(map(str, e)))
        observe(False)
        if base_ok and res.impl[-1] != res.expect[-1] and not res.complaints:
            side = "copy" if e[1] == 1 else "source"
            res.complaints.append((site, "edit after clone visible elsewhere / aliasing",
                                   f"after `{e[0]}` on the {side} side the universe differs from the reference"))
    return res


def _erasable(w: World, op, side: int) -> bool:
    if op.parent is None:
        return False
    roots = w.roots(side)
    if op in roots[0]:
        return False
    # must not contain the source / destination roots (nested case)
    for reg in (w.src_region, w.dst_region, getattr(w, "out_region", None)):
        p = reg.parent if reg is not None else None
        while p is not None:
            if p is op:
                return False
            p = p.parent_op()
    inside = {id(o) for o in op.walk()}
    for o in op.walk():
        for r in o.results:
            if any(id(u.operation) not in inside for u in r.uses):
                return False
        for reg in o.regions:
            for b in reg.blocks:
                if any(id(u.operation) not in inside for u in b.uses):
                    return False
                for a in b.args:
                    if any(id(u.operation) not in inside for u in a.uses):
                        return False
    return True


def gen_edit(w: World, rng, case) -> list | None:
    for _ in range(8):
        side = rng.randint(0, 1)
        roots = w.roots(side)
        ops = World._walk(roots)
        kind = rng.choice(["setop", "setop", "erase", "addarg", "attr", "prop"])
        if kind == "setop":
            cand = [i for i, o in enumerate(ops) if len(o.operands) > 0]
            if not cand:
                continue
            oi = rng.choice(cand)
            defs = World._defvals(roots)
            if defs and rng.random() < 0.6:
                return ["setop", side, oi, rng.randrange(len(ops[oi].operands)), side, rng.randrange(len(defs))]
            if len(w.outer.args) > 0:
                return ["setop", side, oi, rng.randrange(len(ops[oi].operands)), 2, w.ids[id(rng.choice(list(w.outer.args)))]]
        elif kind == "erase":
            if case.get("malformed"):
                continue
            cand = [i for i, o in enumerate(ops) if _erasable(w, o, side)]
            if cand:
                return ["erase", side, rng.choice(cand)]
        elif kind == "addarg":
            blocks = World._defblocks(roots)
            if blocks:
                return ["addarg", side, rng.randrange(len(blocks)), rng.randrange(4)]
        elif ops:
            return [kind, side, rng.randrange(len(ops)), rng.randrange(4), rng.randrange(6)]
    return None


def apply_edit(w: World, e: list, ref: Ref, universe: list) -> bool | None:
    """apply to the real objects and (by token) to the reference universe; None = not applicable"""
    from xdsl.dialects.builtin import IntAttr

    kind, side = e[0], e[1]
    roots = w.roots(side)
    ops = World._walk(roots)
    if kind == "setop":
        _, _, oi, i, vside, n = e
        if oi >= len(ops) or i >= len(ops[oi].operands):
            return None
        if vside == 2:
            if n >= len(w.keep):
                return None
            v = w.keep[n]
        else:
            defs = World._defvals(w.roots(vside))
            if n >= len(defs):
                return None
            v = defs[n]
        ops[oi].operands[i] = v
    elif kind == "erase":
        if e[2] >= len(ops) or not _erasable(w, ops[e[2]], side):
            return None
        o = ops[e[2]]
        o.parent.erase_op(o)
    elif kind == "addarg":
        blocks = World._defblocks(roots)
        if e[2] >= len(blocks):
            return None
        b = blocks[e[2]]
        b.insert_arg(w.T[e[3]], len(b.args))
    else:
        if e[2] >= len(ops):
            return None
        o = ops[e[2]]
        d = o.attributes if kind == "attr" else o.properties
        d[f"k{e[3]}"] = IntAttr(e[4])
    return True


# ---------------------------------------------------------------------------------------------
# generator
# ---------------------------------------------------------------------------------------------

def gen_tree(rng, depth: int, nblocks_max: int, nops_max: int):
    """a region spec without operands/successors"""

    def dct():
        return [[k, rng.randrange(4)] for k in sorted(rng.sample(range(4), rng.choice([0, 0, 1, 2])))]

    def op_(d):
        regs = []
        if d > 0 and rng.random() < 0.45:
            regs = [region(d - 1) for _ in range(rng.choice([1, 1, 2]))]
        return {"n": rng.choice([0, 0, 2]), "a": dct(), "p": dct(), "r": [rng.randrange(4) for _ in range(rng.choice([0, 1, 1, 2]))],
                "u": [], "s": [], "g": regs}

    def region(d):
        return [{"args": [rng.randrange(4) for _ in range(rng.choice([0, 0, 1, 2]))],
                 "ops": [op_(d) for _ in range(rng.randint(0, nops_max))]} for _ in range(rng.randint(0, nblocks_max))]

    return region, op_


def spec_defs(ops: list, blocks: list):
    """(number of value defs, list of (block index, region key, block spec), ops in walk order with region key)"""
    nvals = 0
    blist: list = []
    olist: list = []
    counter = [0]

    def op_(o, rkey):
        nonlocal nvals
        nvals += len(o["r"])
        olist.append((o, rkey))
        for g in o["g"]:
            counter[0] += 1
            k = counter[0]
            for b in g:
                blk_(b, k)

    def blk_(b, rkey):
        nonlocal nvals
        blist.append((rkey, b))
        nvals += len(b["args"])
        for o in b["ops"]:
            op_(o, rkey)

    for o in ops:
        op_(o, -1)
    for b in blocks:
        blk_(b, 0)
    return nvals, blist, olist


def wire(rng, ops, blocks, kind: str, n_ext: int, n_ext_blocks: int, other_vals: int, other_kind: str,
         malformed: bool) -> None:
    """fill operands and successors. kind = 'v' (source tree) or 'd' (destination tree)"""
    nvals, blist, olist = spec_defs(ops, blocks)
    bkind = "b" if kind == "v" else "e"
    for o, rkey in olist:
        for _ in range(rng.choice([0, 1, 1, 2, 3])):
            r = rng.random()
            if nvals and r < 0.6:
                o["u"].append([kind, rng.randrange(nvals)])
            elif n_ext and r < 0.85:
                o["u"].append(["x", rng.randrange(n_ext)])
            elif other_vals:
                o["u"].append([other_kind, rng.randrange(other_vals)])
    # successors: last op of a block only
    regions: dict[int, list[int]] = {}
    for i, (rkey, _b) in enumerate(blist):
        regions.setdefault(rkey, []).append(i)
    for i, (rkey, b) in enumerate(blist):
        if not b["ops"] or rng.random() < 0.45:
            continue
        o = b["ops"][-1]
        for _ in range(rng.choice([1, 1, 2])):
            r = rng.random()
            if malformed and r < 0.5 and len(blist) > 0:
                o["s"].append([bkind, rng.randrange(len(blist))])
            elif r < 0.8:
                o["s"].append([bkind, rng.choice(regions[rkey])])
            elif n_ext_blocks:
                o["s"].append(["y", rng.randrange(n_ext_blocks)])
        if o["s"]:
            o["n"] = 1
    for o, rkey in olist:
        if rkey == -1 and n_ext_blocks and rng.random() < 0.3:
            o["s"].append(["y", rng.randrange(n_ext_blocks)])
            o["n"] = 1


def gen_case(rng, big: bool = False) -> dict:
    entry = rng.choice(["clone", "clonenr", "rclone", "into", "into", "into"])
    malformed = rng.random() < 0.08
    depth = rng.choice([0, 1, 1, 2, 3 if big else 2])
    region, op_ = gen_tree(rng, depth, 3 if not big else 4, 3 if not big else 5)
    case: dict[str, Any] = {"entry": entry, "ext_vals": [rng.randrange(4) for _ in range(rng.randint(0, 3))],
                            "ext_blocks": rng.randint(0, 2), "co": rng.random() > 0.05,
                            "src_attached": rng.random() < 0.7}
    n_ext, n_eb = len(case["ext_vals"]), case["ext_blocks"]
    if malformed:
        case["malformed"] = True
    if entry in ("clone", "clonenr"):
        o = op_(depth)
        if not o["g"] and depth > 0:
            o["g"] = [region(depth - 1)]
        case["src"] = o
        wire(rng, [o], [], "v", n_ext, n_eb, 0, "d", malformed)
    else:
        case["src"] = region(depth)
        if not case["src"] and rng.random() < 0.8:
            case["src"] = region(depth) or [{"args": [], "ops": [op_(0)]}]
        dst_vals = 0
        if entry == "into":
            dregion, dop = gen_tree(rng, rng.choice([0, 1]), 3, 3)
            case["dst"] = dregion(1) if rng.random() < 0.8 else []
            dst_vals, _, dolist = spec_defs([], case["dst"])
            hosts = [i for i, (o, _) in enumerate(dolist) if not o["g"]]
            if hosts and rng.random() < 0.2:
                case["nested"] = rng.choice(hosts)
                case["src_attached"] = True
            case["dst_attached"] = rng.random() < 0.7
            n = len(case["dst"])
            r = rng.random()
            case["idx"] = None if r < 0.25 else rng.randint(0, n)
            if r > 0.97:
                case["idx"] = n + rng.randint(1, 2)
                case["bad_idx"] = True
        src_vals, _, _ = spec_defs([], case["src"])
        wire(rng, [], case["src"], "v", n_ext, n_eb, dst_vals, "d", malformed)
        if entry == "into":
            wire(rng, [], case["dst"], "d", n_ext, n_eb, src_vals if case.get("nested") is not None else 0, "v", False)
            if case.get("nested") is not None:
                # the host op carries the source region: spec has no regions for it
                pass
    # mappers
    r = rng.random()
    if entry != "rclone" and r < 0.5:
        vm, bm = [], []
        if r < 0.3:
            srcv = spec_defs(*(([case["src"]], []) if entry in ("clone", "clonenr") else ([], case["src"])))
            for _ in range(rng.randint(0, 2)):
                if n_ext >= 1:
                    vm.append([["x", rng.randrange(n_ext)], ["x", rng.randrange(n_ext)]])
            for _ in range(rng.randint(0, 1)):
                if n_eb >= 1:
                    bm.append([["y", rng.randrange(n_eb)], ["y", rng.randrange(n_eb)]])
            if rng.random() < 0.15 and srcv[0] and n_ext:
                vm.append([["v", rng.randrange(srcv[0])], ["x", rng.randrange(n_ext)]])   # stale entry, overwritten
        case["maps"] = {"vm": vm, "bm": bm}
    return case


TEMPLATES: list[dict] = []


def _tmpl():
    """small fixed cases first (so that the first failing input is small)"""
    def op(n=0, r=(), u=(), s=(), g=(), a=(), p=()):
        return {"n": n, "a": [list(x) for x in a], "p": [list(x) for x in p], "r": list(r), "u": [list(x) for x in u],
                "s": [list(x) for x in s], "g": [list(x) for x in g]}

    def blk(ops, args=()):
        return {"args": list(args), "ops": ops}

    out = []
    two = [blk([op(r=[1]), op(r=[1], u=[["v", 0]])])]
    two_d = [blk([op(r=[1]), op(r=[1], u=[["d", 0]])])]
    base = {"ext_vals": [1], "ext_blocks": 1, "co": True, "src_attached": True, "dst_attached": True}
    # DESIGN §9: 2-op region into a region that already holds 2 ops
    for idx in (None, 0, 1):
        out.append({**base, "entry": "into", "src": two, "dst": two_d, "idx": idx})
    out.append({**base, "entry": "into", "src": two, "dst": [], "idx": None})
    out.append({**base, "entry": "into", "src": two, "dst": [blk([])], "idx": 0})
    out.append({**base, "entry": "into", "src": [blk([op(r=[1], u=[["x", 0]])])], "dst": [blk([op(r=[1])])], "idx": 1})
    out.append({**base, "entry": "rclone", "src": two})
    # forward block reference + graph-region use before def + self use
    cfg = [blk([op(n=1, u=[["v", 2]], s=[["b", 1]])], args=[1]), blk([op(r=[1], u=[["v", 0], ["v", 1]]), op(n=1, s=[["b", 0], ["y", 0]])], args=[2])]
    out.append({**base, "entry": "rclone", "src": cfg})
    out.append({**base, "entry": "into", "src": cfg, "dst": two_d, "idx": 1})
    out.append({**base, "entry": "clone", "src": op(r=[1], u=[["x", 0]], g=[cfg], a=[[0, 1]], p=[[1, 2]])})
    out.append({**base, "entry": "clone", "src": op(r=[1], u=[["v", 0]])})
    out.append({**base, "entry": "clonenr", "src": op(r=[1], u=[["x", 0]], g=[two], a=[[0, 1]])})
    out.append({**base, "entry": "clonenr", "src": op(r=[1], u=[["v", 0]])})
    out.append({**base, "entry": "clone", "src": op(r=[1], u=[["x", 0]], s=[["y", 0]], n=1),
                "maps": {"vm": [[["x", 0], ["x", 0]]], "bm": [[["y", 0], ["y", 0]]]}})
    out.append({**base, "ext_vals": [1, 1], "entry": "into", "src": [blk([op(r=[1], u=[["x", 0], ["x", 1]])])], "dst": two_d, "idx": 0,
                "maps": {"vm": [[["x", 0], ["x", 1]]], "bm": []}})
    # nested: the source region sits inside an op of the destination (inlining shape)
    out.append({**base, "entry": "into", "src": two, "dst": [blk([op(r=[1]), op(u=[["d", 0]])])], "nested": 1, "idx": 1})
    return out


# ---------------------------------------------------------------------------------------------
# apply_to_clone on corpus modules
# ---------------------------------------------------------------------------------------------

def run_apply_to_clone(ctx: core.Ctx, n_modules: int, n_passes: int, budget_s: float) -> None:
    import contextlib
    import io
    import time
    import warnings

    from xdsl.context import Context
    from xdsl.dialects import get_all_dialects
    from xdsl.parser import Parser
    from xdsl.printer import Printer
    from xdsl.transforms import get_all_passes

    t_end = time.time() + budget_s
    files = sorted((core.REPO / "tests" / "filecheck").rglob("*.mlir"))
    ctx.rng.shuffle(files)
    passes = sorted(get_all_passes().items())

    def mkctx():
        c = Context(allow_unregistered=True)
        for name, f in get_all_dialects().items():
            c.register_dialect(name, f)
        return c

    def text(m) -> str:
        s = io.StringIO()
        Printer(stream=s, print_generic_format=True).print_op(m)
        return s.getvalue()

    done = 0
    pairs = 0
    for f in files:
        if done >= n_modules or time.time() > t_end:
            break
        try:
            chunk = f.read_text().split("// -----")[0]
            c = mkctx()
            m = Parser(c, chunk).parse_module()
            before = text(m)
        except Exception:  # noqa: BLE001
            continue
        done += 1
        chosen = ctx.rng.sample(passes, min(n_passes, len(passes)))
        for pname, factory in chosen:
            if time.time() > t_end:
                break
            try:
                p = factory()()
            except Exception:  # noqa: BLE001
                continue
            try:
                with warnings.catch_warnings(), contextlib.redirect_stdout(io.StringIO()), \
                        contextlib.redirect_stderr(io.StringIO()):
                    warnings.simplefilter("ignore")
                    _, m2 = p.apply_to_clone(c, m)
                same_obj = m2 is m
            except BaseException as e:  # noqa: BLE001
                if isinstance(e, KeyboardInterrupt):
                    raise
                same_obj = False
            pairs += 1
            ctx.ev()
            after = text(m)
            if after != before or same_obj:
                ctx.fail("xdsl.passes.ModulePass.apply_to_clone", "original module changed by apply_to_clone",
                         {"kind": "apply_to_clone", "file": str(f.relative_to(core.REPO)), "pass": pname},
                         "printed original module differs after apply_to_clone", after[:400], before[:400])
                before = after
            else:
                ctx.nt(("atc", str(f.name), pname))
    ctx.count("apply_to_clone.modules", done)
    ctx.count("apply_to_clone.module_pass_pairs", pairs)


# ---------------------------------------------------------------------------------------------
# driver
# ---------------------------------------------------------------------------------------------

def nontrivial(case: dict) -> bool:
    src = case["src"]
    ops, blocks = ([src], []) if case["entry"] in ("clone", "clonenr") else ([], src)
    _, blist, olist = spec_defs(ops, blocks)
    internal = any(r[0] == "v" for o, _ in olist for r in o["u"]) or any(r[0] == "b" for o, _ in olist for r in o["s"])
    feature = (len(blist) > 1 or bool(case.get("dst")) or bool(case.get("maps") and (case["maps"]["vm"] or case["maps"]["bm"]))
               or any(o["g"] for o, _ in olist) or bool(case.get("edits")))
    return internal and feature


def shrink_case(case: dict, sig: tuple[str, str]) -> dict:
    """cheap shrinking: fewer edits, no mappers, attached flags; structure stays (templates come first)"""
    def fails(c) -> bool:
        try:
            r = run_case(c)
        except Exception:  # noqa: BLE001
            return False
        return any((a, b) == sig for a, b, _ in r.complaints)

    cur = _copy.deepcopy(case)
    if cur.get("edits"):
        for cand_edits in ([], cur["edits"][:1], cur["edits"][:-1]):
            c = {**cur, "edits": cand_edits}
            if fails(c):
                cur = c
                break
        if len(cur.get("edits", [])) > 1:
            cur["edits"] = core.shrink_list(cur["edits"], lambda es: fails({**cur, "edits": es}), max_steps=60)
    if cur.get("maps") is not None:
        c = {k: v for k, v in cur.items() if k != "maps"}
        if fails(c):
            cur = c
    return cur


_BEST: dict[tuple[str, str], int] = {}


def run_cases(ctx: core.Ctx, cases: list[dict], with_edits: bool) -> None:
    all_lines: list[str] = []
    all_impl: list[str] = []
    spans: list[tuple[int, int, dict]] = []
    for case in cases:
        if ctx.time_left() < 15:
            break
        n_edits = 0
        if with_edits and "edits" not in case:
            n_edits = ctx.rng.choice([0, 0, 1, 2, 3, 5, 10])
        try:
            res = run_case(case, ctx.rng, n_edits)
        except core.InfraError:
            raise
        full = dict(case)
        if res.edits:
            full["edits"] = res.edits
        ctx.ev()
        ctx.count("entry." + case["entry"])
        ctx.count("edits", len(res.edits))
        if case.get("maps") is not None:
            ctx.count("with_mappers")
        if case.get("dst"):
            ctx.count("nonempty_dest")
        if case.get("nested") is not None:
            ctx.count("source_nested_in_dest")
        if case.get("malformed"):
            ctx.count("malformed")
        if nontrivial(full):
            ctx.nt(json.dumps(full, sort_keys=True))
        for site, sig, desc in res.complaints:
            size = len(json.dumps(full))
            if size >= _BEST.get((site, sig), 1 << 60):
                continue
            small = shrink_case(full, (site, sig))
            _BEST[(site, sig)] = len(json.dumps(small))
            r2 = run_case(small)
            ctx.fail(site, sig, small, desc, r2.impl[-3:], r2.expect[-3:])
        spans.append((len(all_lines), len(res.lines), full))
        all_lines.extend(res.lines)
        all_impl.extend(res.impl)
        if len(ctx.samples) < 4 and nontrivial(full) and ctx.rng.random() < 0.02:
            ctx.sample({"case": full, "impl": res.impl[-1][:300]})
    if not all_lines:
        return
    model = ctx.model("clone", all_lines)
    i = core.diff_streams(all_impl, model)
    if i is not None:
        start, n, case = next(s for s in spans if s[0] <= i < s[0] + s[1])
        ctx.mismatch("correspondence:C02/clone", case, all_impl[start:start + n], model[start:start + n])


def run(ctx: core.Ctx) -> None:
    ctx.lean()
    quick = ctx.tier == "quick"
    tm = _tmpl()
    run_cases(ctx, tm, with_edits=False)
    # the same templates with follow-up edits
    run_cases(ctx, [dict(t) for t in tm for _ in range(3)], with_edits=True)
    n = 5000 if quick else 60000
    batch = 500
    done = 0
    reserve = 20 if quick else 300
    while done < n and ctx.time_left() > reserve + 15:
        cases = [gen_case(ctx.rng, big=(not quick and done % 3 == 0)) for _ in range(batch)]
        run_cases(ctx, cases, with_edits=True)
        done += batch
    ctx.count("generated_cases", done)
    run_apply_to_clone(ctx, n_modules=30 if quick else 400, n_passes=4 if quick else 8,
                       budget_s=min(15 if quick else 400, max(5, ctx.time_left() - 8)))
    ctx.exhaustive = False
    ctx.sample({"case": tm[0], "note": "DESIGN §9 shape: 2-op region into a region that already holds 2 ops"})


def replay(ctx: core.Ctx, body: dict) -> int:
    case = body["case"]
    if case.get("kind") == "apply_to_clone":
        print("apply_to_clone case:", case)
        return 1
    res = run_case(case)
    model = ctx.model("clone", res.lines)
    pinned = ctx.model("clone", [l.replace("into 1 ", "into 0 ", 1) if l.startswith("into ") else l for l in res.lines])
    for l, a, b, c, d in zip(res.lines, res.impl, res.expect, model, pinned):
        print("line          :", l[:200])
        print("implementation:", a)
        print("reference     :", b)
        print("lean model    :", c)
        if d != c:
            print("lean model of the pinned (unrepaired) clone_into:", d)
    for site, sig, desc in res.complaints:
        print("oracle:", site, "|", sig, "|", desc)
    bad = bool(res.complaints)
    print("property", "FAILS" if bad else "holds", "on this case")
    return 1 if bad else 0
