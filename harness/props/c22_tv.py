"""
C22 leg (B), translation validation with the proved validator (`lean/XdslModel/RiscVValidate.lean`,
theorem `validate_sound` in `lean/XdslProofs/C22Validate.lean`): protocol text of a loop-free,
call-free `func.func @main` over `i32` (the `Src` of the validator) and of the instruction list the
pipeline emitted for it.  Everything outside that class returns None (those programs stay on the
stage-wise execution path only).
"""
from __future__ import annotations

from typing import Any

from props import c22_rv as rv

BIN = {"arith.addi": "addi", "arith.subi": "subi", "arith.muli": "muli", "arith.andi": "andi", "arith.ori": "ori",
       "arith.xori": "xori", "arith.shli": "shli", "arith.shrsi": "shrsi", "arith.shrui": "shrui", "arith.divsi": "divsi",
       "arith.remsi": "remsi", "arith.divui": "divui", "arith.remui": "remui"}


def src_of(module: Any) -> tuple[str, int, int] | None:
    """(`<nargs> <ret>… | <ops>`, nargs, nrets) for a module that consists of one straight-line i32 function"""
    from xdsl.dialects import arith, func
    from xdsl.dialects.builtin import IntegerAttr, IntegerType

    funcs = [o for o in module.walk() if isinstance(o, func.FuncOp)]
    if len(funcs) != 1 or funcs[0].sym_name.data != "main" or len(funcs[0].body.blocks) != 1:
        return None
    blk = funcs[0].body.blocks.first

    def is_i32(t: Any) -> bool:
        return isinstance(t, IntegerType) and t.width.data == 32

    if not all(is_i32(a.type) for a in blk.args) or len(blk.args) > 8:
        return None
    idx: dict[int, int] = {id(a): i for i, a in enumerate(blk.args)}
    i1: set[int] = set()
    ops: list[str] = []
    rets: list[int] | None = None
    for op in blk.ops:
        if isinstance(op, func.ReturnOp):
            if any(id(v) not in idx for v in op.operands) or len(op.operands) > 8:
                return None
            rets = [idx[id(v)] for v in op.operands]
            break
        if len(op.results) != 1 or op.regions or any(id(v) not in idx or id(v) in i1 for v in op.operands):
            return None
        r = op.results[0]
        if isinstance(op, arith.ConstantOp):
            if not (isinstance(op.value, IntegerAttr) and is_i32(r.type)):
                return None
            ops.append(f"c {op.value.value.data}")
        elif op.name in BIN and is_i32(r.type):
            ops.append(f"b {BIN[op.name]} {idx[id(op.operands[0])]} {idx[id(op.operands[1])]}")
        elif isinstance(op, arith.CmpiOp) and is_i32(op.operands[0].type):
            ops.append(f"p {op.predicate.value.data} {idx[id(op.operands[0])]} {idx[id(op.operands[1])]}")
            i1.add(id(r))
        else:
            return None
        idx[id(r)] = len(idx)
    if rets is None:
        return None
    return (f"{len(blk.args)} {' '.join(map(str, rets))} | {' ; '.join(ops)}", len(blk.args), len(rets))


def body_of(prog: list[tuple[str, list[Any]]]) -> str | None:
    """the instructions of `main` without label and final `ret`, in Lean protocol text; None when the
    emitted text has another label, a second function or no final `ret`"""
    if not prog or prog[0] != ("label", ["main"]) or prog[-1][0] != "ret":
        return None
    body = prog[1:-1]
    if any(m == "label" for m, _ in body):
        return None
    try:
        return ";".join(rv.lean_instr(i, {}) for i in body)
    except (ValueError, KeyError):
        return None


def tv_line(src: str, body: str) -> str:
    return f"tv {src} | {body}"


def ev_line(src: str, args: list[int]) -> str:
    return f"ev {src} | " + " ".join(str(a & rv.M32) for a in args)
