"""C05 extension (aggregate directives, generic form):

(a) the BINDING CHECKS of the format compiler (`FormatParser`: "… is already bound", "'operands' cannot be
    used with other operand directives", "'operands' is ambiguous with multiple variadic operands",
    "'operands' should not be used when there are no operands", `verify_operands/_results/_regions/
    _successors`) against the decidable `accD` of XdslModel/DeclFormat.lean — on formats the compiler
    accepts AND on deliberately broken variants it refuses (the format is encoded from the spec, not from
    the compiled program);
(b) the GENERIC FORM of a generated instance: the token stream the Lean model predicts
    (`DeclGeneric.printGeneric`, C04 skeleton tokens) against the real generic printer's (lexed and
    collapsed by harness/props/c04_sk.py), and the instance the model reads off the generic text
    (`parseGeneric`) against what the real generic parser + the op's accessors give.
"""
from __future__ import annotations

import copy
import re
from io import StringIO
from typing import Any

from props import c04_sk as SK
from props import c05_gen as G

# ---------------------------------------------------------------------------------------------
# (a) acceptance by the format compiler
# ---------------------------------------------------------------------------------------------

_BINDING_ERRORS = [
    re.compile(r"operand '[^']*' is already bound"),
    re.compile(r"type of '[^']*' is already bound"),
    re.compile(r"region '[^']*' is already bound"),
    re.compile(r"successor '[^']*' is already bound"),
    re.compile(r"'operands' cannot be used with other operand directives"),
    re.compile(r"'operands' cannot be used in a type directive with other operand type directives"),
    re.compile(r"'results' cannot be used in a type directive with other result type directives"),
    re.compile(r"'operands' should not be used when there are no operands"),
    re.compile(r"'results' should not be used when there are no results"),
    re.compile(r"'operands' is ambiguous with multiple variadic operands"),
    re.compile(r"'results' is ambiguous with multiple variadic results"),
    re.compile(r"operand '[^']*' not found"),
    re.compile(r"type of operand '[^']*' cannot be inferred"),
    re.compile(r"type of result '[^']*' cannot be inferred"),
    re.compile(r"region '[^']*' not found"),
    re.compile(r"successor '[^']*' not found"),
]


def compile_verdict(cls, fmt: str) -> tuple[str, str]:
    """('ok' | 'binding' | 'other', message): what `FormatProgram.from_str` says about the format"""
    from xdsl.irdl.declarative_assembly_format import FormatProgram

    try:
        FormatProgram.from_str(fmt, cls.get_irdl_definition())
        return "ok", ""
    except Exception as e:  # noqa: BLE001
        msg = str(e)
        for rx in _BINDING_ERRORS:
            if rx.search(msg):
                return "binding", rx.pattern
        last = msg.strip().splitlines()[-1] if msg.strip() else type(e).__name__
        return "other", last[:80]


def _idx_kind(spec, cat: str, n: str) -> tuple[int, str]:
    for i, e in enumerate(spec["defs"][cat]):
        if e[0] == n:
            return i, {"single": "s", "opt": "o", "var": "v"}[e[1]]
    raise KeyError(n)


def spec_word(spec, cls, d: dict[str, Any], T: G.Tables) -> str | None:
    """one spec directive → model word (what `G.encode_sdir` gives for the compiled directive object)"""
    from xdsl.dialects.builtin import UnitAttr
    from xdsl.irdl import OptionalDef

    k = d["k"]
    if k == "ws":
        return None
    if k == "kw":
        return "k:" + d["s"]
    if k == "punct":
        return "p:" + G._lit_enc(d["s"])
    if k == "operand":
        i, kd = _idx_kind(spec, "operands", d["n"])
        return f"o:{i}:{kd}"
    if k == "type":
        cat = "operands" if d["of"] == "operand" else "results"
        i, kd = _idx_kind(spec, cat, d["n"])
        return f"{'ot' if d['of'] == 'operand' else 'rt'}:{i}:{kd}"
    if k == "operands":
        return "oa"
    if k == "type_operands":
        return "ota"
    if k == "type_results":
        return "rta"
    if k == "functype":
        def ref(t):
            if t[0] == "operands":
                return "O"
            if t[0] == "results":
                return "R"
            cat = "operands" if t[0] == "operand" else "results"
            i, kd = _idx_kind(spec, cat, t[1])
            return f"{'o' if t[0] == 'operand' else 'r'}.{i}.{kd}"
        return f"ft:{ref(d['ins'])}:{ref(d['outs'])}"
    if k == "region":
        i, kd = _idx_kind(spec, "regions", d["n"])
        return f"g:{i}:{kd}"
    if k == "succ":
        i, kd = _idx_kind(spec, "succs", d["n"])
        return f"sc:{i}:{kd}"
    if k in ("attr", "qattr"):
        od = cls.get_irdl_definition()
        n = d["n"]
        is_prop = n in od.properties
        adef = od.properties[n] if is_prop else od.attributes[n]
        bases = adef.constr.get_bases()
        if k == "attr" and bases is not None and len(bases) == 1 and next(iter(bases)) == UnitAttr:
            return f"u:{n}:{int(is_prop)}:{T.attr(n, UnitAttr())}"
        dflt = "-" if adef.default_value is None else str(T.attr(n, adef.default_value))
        return f"a:{n}:{int(is_prop)}:{int(isinstance(adef, OptionalDef))}:{dflt}"
    if k == "attrdict":
        return f"ad:{int(d['kw'])}:-:-"
    raise G.Unmodelled(k)


def encode_fmt_spec(spec, cls, T: G.Tables) -> str:
    words: list[str] = []
    for d in spec["fmt"]:
        if d["k"] == "group":
            then_nw = [e for e in d["then"] if e["k"] != "ws"]
            if any(e["k"] == "group" for e in d["then"] + d["else"]):
                raise G.Unmodelled("nested group")
            anchor = d["then"][d["anchor"]]
            ai = next(k for k, e in enumerate(then_nw) if e is anchor)
            words += ["(", str(ai)] + [w for e in then_nw if (w := spec_word(spec, cls, e, T)) is not None] + ["|"]
            words += [w for e in d["else"] if (w := spec_word(spec, cls, e, T)) is not None] + [")"]
        else:
            w = spec_word(spec, cls, d, T)
            if w is not None:
                words.append(w)
    return "fmt " + " ".join(words)


def _strip_ad(line: str) -> str:
    return " ".join("ad" if w.startswith("ad:") else w for w in line.split(" "))


def same_encoding(a: str, b: str) -> bool:
    return _strip_ad(a) == _strip_ad(b)


def _binders(spec) -> list[tuple[int, int | None]]:
    """positions (top-level index, index inside group or None) of directives that bind an operand, a type,
    a region or a successor"""
    out = []
    kinds = ("operand", "type", "operands", "type_operands", "type_results", "functype", "region", "succ")
    for i, d in enumerate(spec["fmt"]):
        if d["k"] == "group":
            for j, e in enumerate(d["then"]):
                if e["k"] in kinds and j != d["anchor"]:
                    out.append((i, j))
        elif d["k"] in kinds:
            out.append((i, None))
    return out


def break_spec(rng, spec) -> tuple[dict[str, Any], str] | None:
    """a variant of a compilable spec that (usually) violates a binding check of the format compiler"""
    s = copy.deepcopy(spec)
    fmt = s["fmt"]
    item = max((d.get("item", 0) for d in fmt), default=0) + 1
    defs = s["defs"]
    choice = rng.choice(["dup", "dup", "drop", "drop", "add_operands", "add_type_operands", "add_type_results",
                         "add_functype", "two_variadics", "no_operands", "dup_in_type"])
    bs = _binders(s)
    top = [(i, j) for i, j in bs if j is None]

    def kwd():
        return {"k": "kw", "s": "zz" + str(rng.randrange(1000)), "item": item}

    if choice == "dup":
        if not top:
            return None
        i, _ = rng.choice(top)
        fmt += [kwd(), dict(copy.deepcopy(fmt[i]), item=item)]
    elif choice == "drop":
        if not bs:
            return None
        i, j = rng.choice(bs)
        if j is None:
            del fmt[i]
        else:
            g = fmt[i]
            del g["then"][j]
            if j < g["anchor"]:
                g["anchor"] -= 1
    elif choice == "add_operands":
        fmt.insert(rng.randint(0, len(fmt)), {"k": "operands", "item": item})
        fmt.insert(0, kwd())
    elif choice == "add_type_operands":
        fmt += [kwd(), {"k": "type_operands", "item": item}]
    elif choice == "add_type_results":
        fmt += [kwd(), {"k": "type_results", "item": item}]
    elif choice == "add_functype":
        ins = rng.choice([["operands"]] + [["operand", e[0]] for e in defs["operands"]])
        outs = rng.choice([["results"]] + [["result", e[0]] for e in defs["results"]])
        fmt += [kwd(), {"k": "functype", "ins": ins, "outs": outs, "item": item}]
    elif choice == "two_variadics":
        cat = rng.choice(["operands", "results"])
        singles = [e for e in defs[cat] if e[1] == "single"]
        if not singles or sum(1 for e in defs[cat] if e[1] != "single") < 1:
            return None
        singles[0][1] = rng.choice(["opt", "var"])
        if singles[0][2] == "T":
            singles[0][2] = "any"
    elif choice == "no_operands":
        cat, key, word = rng.choice([("operands", "operand", "operands"), ("results", "result", "type_results")])
        if defs[cat]:
            return None
        fmt += [kwd(), {"k": word, "item": item}]
    elif choice == "dup_in_type":
        if not defs["operands"]:
            return None
        n = rng.choice(defs["operands"])[0]
        fmt += [kwd(), {"k": "type", "of": "operand", "n": n, "item": item}, kwd(),
                {"k": "type", "of": "operand", "n": n, "item": item}]
    return s, choice


# ---------------------------------------------------------------------------------------------
# (b) the generic form
# ---------------------------------------------------------------------------------------------

class _PrintedText:
    """what `c04_sk.collapse` needs of a `Printed`"""

    def __init__(self, text: str, spans) -> None:
        self.text, self.spans = text, spans


def _span_print(f) -> _PrintedText:
    if SK._SP is None:
        SK._SP = SK.span_printer_class()
    io = StringIO()
    p = SK._SP(stream=io, print_generic_format=True)
    f(p)
    return _PrintedText(io.getvalue(), p.sk_spans)


_HINTED = re.compile(r"^([%^])(rb|ra)\d+(.*)$")


def _norm_tok(t: str) -> str:
    m = _HINTED.match(t)
    return f"{m.group(1)}{m.group(2)}{re.sub(r'[0-9]+', '', m.group(3))}" if m else t


def seg_modes(cls) -> tuple[str, str] | None:
    """(operand mode, result mode) in the model's letters u/p/a; None: an option the model does not have"""
    from xdsl.irdl import (AttrSizedOperandSegments, AttrSizedRegionSegments, AttrSizedResultSegments,
                           AttrSizedSuccessorSegments, SameVariadicSize)

    mo = mr = "u"
    for o in cls.get_irdl_definition().options:
        if isinstance(o, SameVariadicSize) or isinstance(o, (AttrSizedRegionSegments, AttrSizedSuccessorSegments)):
            return None
        if isinstance(o, AttrSizedOperandSegments):
            mo = "p" if o.as_property else "a"
        if isinstance(o, AttrSizedResultSegments):
            mr = "p" if o.as_property else "a"
    return mo, mr


class GenericCase:
    __slots__ = ("lines", "real_toks", "problem", "keys", "tb", "real_parse", "tables", "text")

    def __init__(self) -> None:
        self.lines: list[str] = []
        self.real_toks: list[str] = []
        self.problem: str | None = None
        self.keys: list[str] = []
        self.tb: SK.Tables | None = None
        self.real_parse: str | None = None
        self.tables: G.Tables | None = None
        self.text = ""


def _dec_sizes(n: int) -> list[int]:
    out = []
    while n:
        x = 0
        while n % 2 == 0:
            n //= 2
            x += 1
        out.append(x)
        n = (n - 1) // 2
    return out


def prepare_generic(op, cls, T: G.Tables, modes: tuple[str, str]) -> GenericCase:
    """real generic tokens of the operation alone + the lines that make the model predict them"""
    from xdsl.dialects.builtin import UnitAttr

    c = GenericCase()
    c.tables = T
    tb = SK.Tables()
    c.tb = tb
    pr = _span_print(lambda p: p.print_op(op))
    c.text = pr.text
    toks, c.problem = SK.collapse(pr, tb)  # type: ignore[arg-type]
    if toks and toks[0].startswith("%") and "=" in toks:
        toks = toks[toks.index("=") + 1:]
    c.real_toks = [_norm_tok(t) for t in toks]
    keys = [n for n in op.properties] + [n for n in op.attributes if n not in op.properties]
    for n in ("operandSegmentSizes", "resultSegmentSizes"):
        if n not in keys:
            keys.append(n)
    c.keys = keys
    units = sorted({T.attr(n, v) for d in (op.properties, op.attributes) for n, v in d.items()
                    if isinstance(v, UnitAttr) and n not in G.SEG_NAMES})
    c.lines = [f"gcfg MO={modes[0]} MR={modes[1]} UNITS={','.join(map(str, units)) or '-'} KEYS={','.join(keys)}",
               "gprint", "groundtrip"]
    return c


def render_model_generic(line: str, c: GenericCase) -> list[str]:
    """model token line (driver codec: S0 = the op name, I<i>/S<i> = key i, A/F<3n> = type n, <3n+1> =
    attribute value n, <3n+2> = the size array, `{ S<k+1> ( ) : ( ) -> ( ) }` = region k) → tokens in the
    space of `c04_sk.collapse` for this case"""
    from xdsl.dialects.builtin import DenseArrayBase, i32
    from xdsl.printer import Printer

    T, tb = c.tables, c.tb
    assert T is not None and tb is not None
    ws = [] if line == "-" else line.split(" ")
    out: list[str] = []
    i = 0

    def gtext(a) -> str:
        io = StringIO()
        Printer(stream=io, print_generic_format=True).print_attribute(a)
        return io.getvalue()

    while i < len(ws):
        w = ws[i]
        if i == 0 and w == "S0":
            out.append("S" + str(tb.name("gen.op")))
        elif w == "{" and i + 2 < len(ws) and re.fullmatch(r"S\d+", ws[i + 1]) and ws[i + 2] == "(":
            rid = int(ws[i + 1][1:]) - 1
            reg = T.region_objs[rid]
            rp = _span_print(lambda p: p.print_region(reg))
            rt, prob = SK.collapse(rp, tb)  # type: ignore[arg-type]
            if prob:
                c.problem = c.problem or prob
            out += [_norm_tok(t) for t in rt]
            i += 11
            continue
        elif re.fullmatch(r"[IS]\d+", w):
            out.append(w[0] + str(tb.name(c.keys[int(w[1:])])))
        elif re.fullmatch(r"[AF]\d+", w):
            n = int(w[1:])
            if n % 3 == 0:
                text = gtext(T.type_objs[n // 3])
            elif n % 3 == 1:
                text = gtext(T.attr_objs[n // 3][1])
            else:
                text = gtext(DenseArrayBase.from_list(i32, _dec_sizes(n // 3)))
            out.append(w[0] + str(tb.opq(text)))
        else:
            out.append(_norm_tok(w))
        i += 1
    return out


def real_generic_parse(module, cls, T: G.Tables, nvals: int, nblocks: int) -> str | None:
    """generic print → real parser in a fresh Context → the accessors' view of gen.op, as `show_op`"""
    from props import c04_ir as I

    try:
        m2 = I.parse_module(I.print_generic(module), G.context_factory(cls)())
    except Exception:  # noqa: BLE001
        return None
    op2 = G.find_gen_op(m2)
    if op2 is None:
        return None
    blk = op2.parent
    vals2 = list(blk.first_op.results) if nvals and blk is not None and blk.first_op is not op2 else []
    blocks2 = list(blk.parent.blocks)[1:] if nblocks and blk is not None and blk.parent is not None else []
    try:
        e2 = G.encode_op(op2, T, vals2, blocks2)
    except G.Unmodelled:
        return "unencodable"
    od = cls.get_irdl_definition()
    pd = {n: T.attr(n, d.default_value) for n, d in od.properties.items() if d.default_value is not None}
    ad = {n: T.attr(n, d.default_value) for n, d in od.attributes.items() if d.default_value is not None}
    return G.show_op(e2, pd, ad)
