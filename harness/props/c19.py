"""C19 — register allocation never gives one register to two live values.

Pipeline per case:  abstract program (JSON)  --build-->  real riscv / x86 IR (unallocated register
types, some pre-allocated)  --real allocator-->  register of every value (read back by position)
--> independent oracle:
  (1) backward liveness (loops: values live across a loop are live throughout it); at every point no
      two distinct live values share a register; a definition never clobbers a live value; values in
      the hard-wired `zero` register are constant 0;
  (2) pre-assigned registers kept, only registers of the pool (or `zero` for constant 0, or j_N when
      infinite registers are allowed) handed out, structural register ties (in/out, loop-carried);
      registers that an operation ANYWHERE in the function (top level, loop body, frep body, any depth)
      reserves for itself — Snitch stream registers ft0..ft2 of riscv_snitch.read / write, or the
      registers of the harness-defined `c19.reserve` — are never handed out: a value sits in one only
      when the input pre-assigns it or ties it to a pre-assigned value;
  (3) differential execution: SSA semantics vs register machine (loop lowered exactly as
      convert-riscv-scf-to-riscv-cf does) on random inputs.
"Register" always means the PHYSICAL register: x5 / t0, rax / eax / ax / al, xmm3 / ymm3 / zmm3 are names of one
register each (tables `CLASSES`, function `phys`, transcribed from the ISA manuals); liveness clashes, pool
membership, reservations, ties and the register file of the machine are keyed by it, never by name or type.
Lean: the proved validator (`XdslProofs.C19.validator_sound`) is run on every straight-line real
allocation and the model of the backward block-naive allocator is compared register by register.
"""
from __future__ import annotations

import json
from typing import Any

from vp import core

META = {
    "title": "Register allocation never gives one register to two live values",
    "category": "proof",
    "design_ref": "DESIGN.md §5 C19",
    "lean_modules": ["XdslProofs.C19", "XdslProofs.C19Stack", "XdslProofs.C19Excluded", "XdslProofs.C19Loop",
                     "XdslProofs.C19Phys"],
    "text": (
        "Lean theorems over straight-line blocks of operations with ins/outs/in-out pairs, for EVERY instruction "
        "semantics (opcode meaning is a parameter), all inputs and all initial register contents: "
        "validator_sound (no interference found => register-machine execution = SSA execution, arguments read "
        "from / results delivered in the assigned registers), no_shared_register (at every program point two "
        "different live values have different registers unless both are in the hard-wired zero register), "
        "zero_reg_sound (a value in `zero` is 0), validator_sound_pre (pre-assigned registers kept); and for the "
        "model of the backward block-naive allocator (BlockNaiveAllocator + HasRegisterConstraints."
        "allocate_registers + ValueAllocator + LIFO RegisterStack with pool exclusion of pre-assigned registers, "
        "in/out pairs via allocate_values_same_reg, RISC-V zero-register rule, infinite registers) "
        "alloc_no_interference_partial: on every straight-line SSA block (at most one in/out pair per operation) "
        "that admits some valid allocation extending its pre-assignment, a successful allocation passes the "
        "validator, keeps pre-assigned registers and assigns every value; stack_inv: at every point of the "
        "backward walk the available registers are duplicate-free, disjoint from the registers of the live "
        "values, come from the pool minus pre-assigned registers (or are infinite registers created so far) and "
        "no two live values share a register. RegisterStack itself (XdslProofs.C19Stack, model RStack: push/pop/"
        "include/exclude/reserve/unreserve with reservation counts and the AssertionError of pop): for every "
        "configuration, state and operation sequence a reserved register is never returned by pop and never made "
        "available by push (pop_never_reserved, push_reserved_noop, reserved_window), an excluded finite register "
        "neither until it is included again (push_excluded_noop, excluded_window), counts go up/down by one and a key "
        "is present iff its count is positive, under the documented contract (never reserve an available register) "
        "no AssertionError arises (contract_no_assertion), and the allocator model's push/pop are this stack without "
        "reservations (push_eq_spush, pop_eq_spop). "
        "Reserved registers (XdslProofs.C19Excluded): all_excluded_registers is modelled as the walk over a tree of "
        "operations (declared registers, nested operations); mem_allExcluded_iff: a register is collected iff an "
        "operation of the body or one nested in it at ANY depth declares it (allExcluded_nested2, allExcluded_sorted; "
        "shallowExcluded_subset / shallowExcluded_misses_nested: looking at the top-level operations only is a "
        "strict under-approximation); allocate_func with the collected registers excluded (allocateX, initStX = "
        "exclude_register after RegisterStack.get; initStX_eq / allocateX_eq: the same as building the stack "
        "without them) never hands one out: excluded_respected_partial (a value that was not pre-assigned sits in "
        "a declared register only if in/out ties with pre-assigned values force it), excluded_never_assigned "
        "(never, on a target without in/out pairs), alloc_origin_partial (where every register comes from: pool "
        "minus pre-assigned, infinite, zero for constant 0, or forced by ties), exclOk_sound (reading of the "
        "validator's reserved-register check). "
        "Tie to /repo: every generated function (riscv and x86 dialect ops, pre-assigned registers, restricted "
        "pools, infinite registers, riscv_scf.for loops incl. nested, x86 after x86-regalloc-legalize) is built as "
        "real IR and allocated by the real pass/allocator; the registers are read back and (a) judged by an "
        "independent Python liveness/interference oracle + differential execution on a register machine, "
        "(b) validated by the proved Lean validator (translation validation): loop-free blocks directly, "
        "functions with riscv_scf.for loops after unrolling the loops along their execution path (all generated "
        "loops have constant bounds; every copy of a value keeps its register), and "
        "(c) for loop-free integer blocks compared register by register with the Lean model allocator "
        "(incl. registers declared as excluded by c19.reserve operations), "
        "including the failure kind (OutOfRegisters / DiagnosticException); (e) for EVERY generated function the "
        "real RegisterAllocatableOperation.all_excluded_registers(func.body) is compared with the Lean model "
        "allExcluded of its operation tree (driver model excluded_walk); (d) the real RegisterStack API is "
        "driven directly through every call sequence of the small scope and compared, result and complete state "
        "after every call, with the Lean model (driver model register_stack). "
        "Physical identity (XdslProofs.C19Phys, model XdslModel/PhysReg.lean, driver model physreg): a register is "
        "named in the IR through a typed name of some width (t0 / x5; rax / eax / ax / al; xmm3 / ymm3 / zmm3; infinite "
        "registers of every class); PhysReg.phys maps a name to the register of the machine = the number used on the "
        "protocol of all C19 models; phys_width_irrelevant, phys_eq_iff (same number iff same file, index, finiteness), "
        "pool_key_iff_phys (the key (register_pool_key, index) under which RegisterStack keeps a name must identify "
        "exactly the physical register: one pool per register FILE), validator_sound_names (an assignment of NAMES whose "
        "physical registers the validator accepts: register execution = SSA execution and at no program point two "
        "different live values are views of one register, whatever the widths of their names). Tie: every register "
        "name of both targets (324 names incl. numeric riscv spelling and infinite registers): harness table = real "
        "RegisterType.from_name(..).index = Lean phys / poolIndex, and the real (register_pool_key, index) partitions "
        "the names exactly as PhysReg does. "
        "Blocks with loops (XdslProofs.C19Loop, model XdslModel/RegAllocLoop.lean, driver model regalloc_loop): the "
        "allocator is modelled over a tree of operations with riscv_scf.for / riscv_snitch.frep_outer nodes exactly as "
        "the code runs — live_ins_per_block (ordered), allocate_value of the live-ins, allocate_values_same_reg of every "
        "(block argument, iter_arg, yield operand, result), induction variable, ub, step (frep: max_rep), "
        "reserve_registers(iter_args.types) around the body on the RegisterStack with reservation counts and the "
        "assertion of pop, free_value(induction variable), allocate_value(lb); get_constant_value is asked in the "
        "current allocation state. Theorems: validatorL_sound (the validator for blocks with loops, validateL, is sound: "
        "an accepted assignment makes the register machine with loops lowered as convert-riscv-scf-to-riscv-cf does "
        "return the SSA results for every instruction semantics, loop test, increment, frep count, input and EVERY trip "
        "count), validateL_flat (it is the straight-line validator on loop-free blocks), reserved_never_handed_out "
        "(any nesting depth: no pop made while a loop body is allocated returns a register of an iter_arg, and it is "
        "still reserved afterwards; allocT_restored: every block restores all reservation counts), "
        "reserved_window_body (the same through reserved_window of C19Stack: the logged stack calls are a run of the "
        "RegisterStack model, allocT_replays), live_ins_keep_register / allocT_ext (every value that has a register "
        "keeps it through every block at every depth; live-ins have theirs before the body is entered), "
        "undisciplined_accepted_counterexample (the known finding on the model: undisciplined input accepted, block "
        "argument and live-in share t0, validator rejects, register machine returns 20 instead of 5); "
        "alloc_loops_no_interference_partial / disciplined_alloc_sound_partial (loop nests of ANY depth, every pool and "
        "stack order: if the input is disciplined, passes the decidable side conditions thmHyps — SSA and scoping, "
        "riscv_scf.for only, no in/out instructions, loop-carried values local to their loop, none of them a zero "
        "constant — and the allocator succeeds, then validateL accepts the result, pre-assigned registers are kept, every "
        "value has a register and register execution = SSA execution for every trip count; proof: the invariant LInv = "
        "stack_inv of the straight-line allocator + reserved registers are unavailable + a live value shares a register "
        "with a protected block argument / iter_arg only if the feasibility witness ties them, through "
        "allocate_values_same_reg on every combination of already allocated group members). The in/out "
        "discipline is the decidable predicate Disciplined (the most permissive assignment — ties + pre-assignment — "
        "passes validateL), evaluated by the Lean driver on EVERY generated case of both targets and cross-checked "
        "against the Python feasibility classification. Tie: every generated riscv function with loops and / or "
        "float registers is allocated by the Lean model (one query per register class: the pools are independent) and "
        "compared with the real allocator register by register, including the kind of failure; live_ins_per_block of "
        "the real allocator is compared with the model (ordered); validateL is run on every real allocation of a "
        "function with loops that the Python oracle accepts; the hypotheses of the allocator theorem are evaluated by "
        "the driver on every loop function (integer class) together with its claim (hypotheses + discipline + success "
        "=> validateL accepts)."
    ),
    "technique": "Lean 4 proved validator + proved model of the block-naive allocator; translation validation of "
                 "every real allocation; independent Python liveness/interference oracle and differential execution",
    "level_note": (
        "Registers are compared by PHYSICAL identity (x5 = t0, rax = eax = ax = al, xmm3 = ymm3 = zmm3, infinite "
        "registers of one file with one number): the name tables are transcribed in this file from the ISA manuals, not "
        "taken from index_by_name / register_pool_key. x86 values have a class (64/32/16/8-bit general-purpose, 128/256/"
        "512-bit vector); on both machines a value is cut to the width of its class when written and read, a write "
        "through a narrow name replaces the whole physical register (zero-extended; real 8/16-bit writes keep the upper "
        "bits, which no live value can observe when the property holds); vector instructions get an arbitrary fixed "
        "meaning on 512-bit words; x86 loads return an arbitrary fixed word per (address, width) or the last store of "
        "that width to that address, stores are the observable result of vector functions. In/out pairs keep one class "
        "(one register operand of one instruction); AVX-512 mask registers and rflags are not generated (the default "
        "stack has none to hand out). The Lean allocator models have one stack: functions over several register files "
        "are compared per file (projection), the validator runs on the whole function with physical numbers. "
        "Partial points: the allocator theorem (alloc_no_interference_partial, stack_inv) covers straight-line "
        "blocks incl. in/out pairs; the loop part of the allocator (ForRofOperation / FRepOperation.allocate_registers, "
        "register reservation, live_ins_per_block) is modelled in Lean (XdslModel/RegAllocLoop.lean) and compared with "
        "the real allocator on every generated loop function; proved about it: soundness of the loop validator for all "
        "trip counts, reservations, stability of registers, the counterexample, and alloc_loops_no_interference_partial "
        "(not covered by that theorem: frep loops, loop-carried groups containing a zero constant such as "
        "iter_args(%acc = %zero), yields of values that are live throughout the loop, x86 in/out ops in loop nests); "
        "functions with loops are judged by the "
        "Python oracle (loop lowering of convert-riscv-scf-to-riscv-cf transcribed by hand in exec_regs / unroll), by the "
        "proved straight-line validator on their unrolled execution path and by the proved loop validator validateL on "
        "the loop structure itself. The Lean validator for loops never takes a loop-bound value (induction variable, "
        "block argument, result) to be the constant 0: allocations that put a loop-carried group into `zero` (accepted "
        "by the Python oracle through its fixpoint rule) are counted apart (zero-carried-corner) and the discipline is "
        "cross-checked against the Python classification computed with the same conservative rule. x86_scf loops are "
        "not generated. Excluded from the quantifier: inputs whose pre-assignment itself makes "
        "two interfering values share a register (the generator repairs them); x86 inputs violating the documented "
        "in/out discipline are passed through the real x86-regalloc-legalize first. OutOfRegisters / "
        "DiagnosticException / any pass exception = reported failure (allowed). Trusted: Lean kernel; the "
        "hand-written models XdslModel/{RegMachine,RegAlloc}.lean (tied by correspondence on every generated "
        "case); the builder/extractor between the JSON program and xDSL IR; the per-opcode read/write table of "
        "this file (independent of get_register_constraints); float instructions get an arbitrary deterministic "
        "bit semantics (same on both machines). Reserved registers: the property's clause is read as 'a register "
        "that some operation of the function declares through iter_excluded_registers is not handed out'; the table "
        "of what riscv_snitch.read / write reserve (ft0, ft1, ft2) is transcribed in this file, and c19.reserve is an "
        "operation DEFINED BY THE HARNESS against xDSL's public interface (HasRegisterConstraints without operands / "
        "results + iter_excluded_registers) so that int / float / x86 registers can be reserved at any depth; a value "
        "in a reserved register is accepted when the input pre-assigns it or ties it (in/out pair, loop-carried group) "
        "to a pre-assigned value. Stream reads / writes are opaque to the Lean validator (a definition / a use); on "
        "both Python machines the n-th read of a stream delivers the same arbitrary word and written words are "
        "observable output. riscv_snitch.frep_outer: body replayed rep+1 times, count read once (transcribed from "
        "xdsl/interpreters/riscv_snitch.py), unrolled for the Lean validator like riscv_scf.for. Values that a "
        "loop-carried group ties to a pre-assigned block argument / result count as pre-assigned in the unrolled program."
    ),
    "rule": (
        "One evaluation = one generated function run through the real allocator and judged. Streams: riscv "
        "straight-line DAGs (int+float, parallel moves, get_register zero), riscv loops (riscv_scf.for with "
        "iter_args, nested, pass-through / fresh yields), riscv loops violating the in/out discipline (small "
        "share), fans with k=1..17 simultaneously live values against pools of k-1..k+1 registers, x86 "
        "straight-line with in/out ops (disciplined) and arbitrary ones after x86-regalloc-legalize, half of them with "
        "values of the 32/16/8-bit classes (x86.*.widths); x86.vector / x86.vector-legalized: functions over the vector "
        "file with simultaneously live xmm / ymm / zmm values (loads, broadcasts from general-purpose registers, "
        "three-address and fma in/out instructions, moves across widths, stores), x86v.fan: k = 2..34 vector values of "
        "mixed widths against pools of k-1..k+1 vector registers named under mixed widths; pre-assigned registers are "
        "spelled in the class of the value (riscv: 20% numerically, x5 / f10), restricted pools and reserved registers "
        "are named under any of the names of the register; alias.*: EVERY ordered pair of value classes of one x86 "
        "register file x {both free, first / second pre-assigned to the register handed out first, pool = one physical "
        "register named once per class, register reserved under the other class's name} and the two spellings of riscv "
        "registers (133 cases, every run); physreg: every register name; riscv.streams: "
        "functions with Snitch stream reads / writes (ports ft0..ft2 pre-assigned as the snitch lowering does) at the "
        "top level and / or ONLY inside riscv_scf.for bodies / riscv_snitch.frep_outer bodies (depth 1..3) together "
        "with ordinary float values, frep_outer loops with float iter_args; 12% of all non-fan cases additionally get "
        "1..3 c19.reserve operations (1..3 int / float / x86 registers each, mostly the ones the stack hands out first) "
        "at the top level and / or only in loop bodies; 35% with "
        "extra pre-assigned registers, 35% with restricted pools of 1..8 registers, some with infinite "
        "registers. Plus the RegisterStack API stream: every sequence of push/pop/include/exclude/reserve/unreserve "
        "over t0,t1,t2,j_0 with and without infinite registers up to the stated length (one evaluation per call; "
        "non-trivial = a pop that returns a register or a push/include of a reserved register). "
        "Non-trivial = allocation succeeded, oracle passed and at least 2 values without "
        "pre-assigned register are simultaneously live; distinct = distinct case JSON."
    ),
    "trusted_base": [
        "correspondence harness harness/props/c19.py (IR builder, extractor by position, Python oracle)",
        "hand-written Lean models XdslModel/RegMachine.lean, XdslModel/RegAlloc.lean, XdslModel/RegAllocLoop.lean "
        "(tied on every generated loop function: registers, failures, live-ins, discipline)",
        "loop lowering semantics transcribed from convert_riscv_scf_to_riscv_cf.py (Python oracle only)",
        "hand-written Lean model XdslModel/Excluded.lean (operation tree walk), tied on every generated function",
        "harness-defined operation c19.reserve (iter_excluded_registers = its attribute) and the transcribed table "
        "of registers reserved by riscv_snitch.read / write",
    ],
    "budget": {"quick": 60, "thorough": 900},
}

# =============================================================================================
# Targets: register names / numbering used on the Lean protocol
# =============================================================================================
RV_INT = ["zero", "ra", "sp", "gp", "tp", "t0", "t1", "t2", "s0", "s1", "a0", "a1", "a2", "a3", "a4", "a5", "a6",
          "a7", "s2", "s3", "s4", "s5", "s6", "s7", "s8", "s9", "s10", "s11", "t3", "t4", "t5", "t6"]
RV_FLT = ["ft0", "ft1", "ft2", "ft3", "ft4", "ft5", "ft6", "ft7", "fs0", "fs1", "fa0", "fa1", "fa2", "fa3", "fa4",
          "fa5", "fa6", "fa7", "fs2", "fs3", "fs4", "fs5", "fs6", "fs7", "fs8", "fs9", "fs10", "fs11", "ft8", "ft9",
          "ft10", "ft11"]
X86_GPR = ["rax", "rcx", "rdx", "rbx", "rsp", "rbp", "rsi", "rdi", "r8", "r9", "r10", "r11", "r12", "r13", "r14",
           "r15"]
RV_POOL_I = ["t0", "t1", "t2", "t3", "t4", "t5", "t6", "a0", "a1", "a2", "a3", "a4", "a5", "a6", "a7"]
RV_POOL_F = ["ft0", "ft1", "ft2", "ft3", "ft4", "ft5", "ft6", "ft7", "ft8", "ft9", "ft10", "ft11", "fa0", "fa1",
             "fa2", "fa3", "fa4", "fa5", "fa6", "fa7"]
X86_POOL = [X86_GPR[i] for i in (0, 1, 2, 3, 6, 7, 8, 9, 10, 11, 13, 14, 15)]

# ---------------------------------------------------------------------------------------------
# PHYSICAL identity of registers.  The property speaks about registers of the machine, not about
# the names / types under which the IR mentions them: several names denote one physical register
#   riscv : x5 = t0, f10 = fa0, x0 = zero  (numeric and ABI spelling of the 32 + 32 registers)
#   x86   : rax = eax = ax = al  (64/32/16/8-bit views of the 16 general-purpose registers),
#           zmm3 = ymm3 = xmm3   (512/256/128-bit views of the 32 vector registers),
#           and the "infinite" registers of the same file with the same number.
# Everything the oracle does (liveness clash, pool membership, reservation, ties, execution) works on
# the CANONICAL name `phys(target, name)`; the tables below are transcribed from the ISA manuals, not
# taken from RegisterType.index_by_name / register_pool_key.
# A value class says how a value is spelled and how wide it is:
#   riscv  i (x registers, 32 bit), f (f registers, 32 bit)
#   x86    i / d / w / b  = 64 / 32 / 16 / 8-bit general-purpose,  x / y / z = 128 / 256 / 512-bit vector
# ---------------------------------------------------------------------------------------------
X86_GPR32 = ["eax", "ecx", "edx", "ebx", "esp", "ebp", "esi", "edi"] + [f"r{i}d" for i in range(8, 16)]
X86_GPR16 = ["ax", "cx", "dx", "bx", "sp", "bp", "si", "di"] + [f"r{i}w" for i in range(8, 16)]
X86_GPR8 = ["al", "cl", "dl", "bl", "spl", "bpl", "sil", "dil"] + [f"r{i}b" for i in range(8, 16)]
X86_NVEC = 32
X86_VEC = [f"zmm{i}" for i in range(X86_NVEC)]                      # canonical names of the vector file
X86_VPOOL = list(X86_VEC)                                           # X86RegisterStack: all 32 (ymm then zmm names)
# class -> (register file, width in bits, names by physical index, prefix of the infinite registers)
CLASSES: dict[str, dict[str, tuple[str, int, list[str], str]]] = {
    "riscv": {"i": ("x", 32, RV_INT, "j_"), "f": ("f", 32, RV_FLT, "fj_")},
    "x86": {"i": ("g", 64, X86_GPR, "inf_reg_"), "d": ("g", 32, X86_GPR32, "inf_reg32_"),
            "w": ("g", 16, X86_GPR16, "inf_reg16_"), "b": ("g", 8, X86_GPR8, "inf_reg8_"),
            "x": ("v", 128, [f"xmm{i}" for i in range(X86_NVEC)], "inf_sse_"),
            "y": ("v", 256, [f"ymm{i}" for i in range(X86_NVEC)], "inf_avx2_"),
            "z": ("v", 512, X86_VEC, "inf_avx512_")},
}
# canonical class of a register file: the class whose names are the canonical ones
FILE_CANON = {"riscv": {"x": "i", "f": "f"}, "x86": {"g": "i", "v": "z"}}
X86_TYPE_OF_CLS = {"i": "x86.reg64", "d": "x86.reg32", "w": "x86.reg16", "b": "x86.reg8", "x": "x86.ssereg",
                   "y": "x86.avx2reg", "z": "x86.avx512reg"}
X86_GCLS = ("i", "d", "w", "b")
X86_VCLS = ("x", "y", "z")
_PHYS: dict[str, dict[str, tuple[str, str]]] = {}


def _phys_table(target: str) -> dict[str, tuple[str, str]]:
    """spelled name -> (canonical name, class under which it is spelled)"""
    if target not in _PHYS:
        tab: dict[str, tuple[str, str]] = {}
        for cls, (file, _, names, _) in CLASSES[target].items():
            canon = CLASSES[target][FILE_CANON[target][file]][2]
            for i, n in enumerate(names):
                tab[n] = (canon[i], cls)
        if target == "riscv":
            for i in range(32):
                tab[f"x{i}"] = (RV_INT[i], "i")
                tab[f"f{i}"] = (RV_FLT[i], "f")
        _PHYS[target] = tab
    return _PHYS[target]


def phys(target: str, name: str) -> str:
    """canonical name of the physical register that `name` denotes (names of the oracle's own virtual
    registers pass through)"""
    tab = _phys_table(target)
    if name in tab:
        return tab[name][0]
    for cls, (file, _, _, prefix) in CLASSES[target].items():
        if name.startswith(prefix) and name[len(prefix):].isdigit():
            return CLASSES[target][FILE_CANON[target][file]][3] + name[len(prefix):]
    if name.startswith(("virt", "multi:")):
        return name
    raise core.InfraError(f"unknown register name {name!r} for {target}")


def name_cls(target: str, name: str) -> str:
    """the class under which `name` is spelled"""
    tab = _phys_table(target)
    if name in tab:
        return tab[name][1]
    for cls, (_, _, _, prefix) in sorted(CLASSES[target].items(), key=lambda kv: -len(kv[1][3])):
        if name.startswith(prefix) and name[len(prefix):].isdigit():
            return cls
    raise core.InfraError(f"unknown register name {name!r} for {target}")


def reg_file(target: str, name: str) -> str:
    return CLASSES[target][name_cls(target, name)][0]


def cls_file(target: str, cls: str) -> str:
    return CLASSES[target][cls][0]


def cls_width(target: str, cls: str) -> int:
    return CLASSES[target][cls][1]


def spell(target: str, cls: str, name: str) -> str:
    """the name of the physical register `name` as a value of class `cls` spells it (rax as `d` -> eax)"""
    p = phys(target, name)
    file, _, names, prefix = CLASSES[target][cls]
    canon_cls = FILE_CANON[target][file]
    cnames, cprefix = CLASSES[target][canon_cls][2], CLASSES[target][canon_cls][3]
    if p in cnames:
        return names[cnames.index(p)]
    if p.startswith(cprefix):
        return prefix + p[len(cprefix):]
    raise core.InfraError(f"{name!r} is not a register of the file of class {cls!r}")


def phys_alloc(target: str, alloc: dict[int, str | None]) -> dict[int, str | None]:
    return {v: (phys(target, r) if r is not None else None) for v, r in alloc.items()}


def reg_num(target: str, name: str) -> int:
    """Numbering of PHYSICAL registers on the Lean line protocol (every spelling of one register has one
    number): 0 is the hard-wired zero register."""
    name = phys(target, name)
    if target == "riscv":
        if name in RV_INT:
            return RV_INT.index(name)
        if name in RV_FLT:
            return 100 + RV_FLT.index(name)
        if name.startswith("fj_"):
            return 2000 + int(name[3:])
        if name.startswith("j_"):
            return 1000 + int(name[2:])
    else:
        if name in X86_GPR:
            return 200 + X86_GPR.index(name)
        if name in X86_VEC:
            return 300 + X86_VEC.index(name)
        if name.startswith("inf_reg_"):
            return 3000 + int(name[8:])
        if name.startswith("inf_avx512_"):
            return 3500 + int(name[11:])
    raise core.InfraError(f"unknown register name {name!r} for {target}")


# =============================================================================================
# Operation kinds.  Independent description of what each instruction reads / writes
# (NOT taken from get_register_constraints): n_in pure sources, n_out pure destinations,
# n_io read-modify-write registers; cls of the values; has immediate.
# =============================================================================================
M32 = (1 << 32) - 1
M64 = (1 << 64) - 1


def _s(x: int, w: int) -> int:
    return x - (1 << w) if x >> (w - 1) else x


def _mix(*xs: int) -> int:
    h = 0x9E3779B9
    for x in xs:
        h = ((h ^ x) * 0x85EBCA6B + 0xC2B2AE35) & M32
        h ^= h >> 13
    return h & M32


# kind -> (ins classes, outs classes, n_io, has_imm)
RV_KINDS: dict[str, tuple[str, str, int, bool]] = {
    "li": ("", "i", 0, True),
    "getzero": ("", "i", 0, False),
    "mv": ("i", "i", 0, False),
    "add": ("ii", "i", 0, False), "sub": ("ii", "i", 0, False), "mul": ("ii", "i", 0, False),
    "and": ("ii", "i", 0, False), "or": ("ii", "i", 0, False), "xor": ("ii", "i", 0, False),
    "slt": ("ii", "i", 0, False), "sltu": ("ii", "i", 0, False),
    "addi": ("i", "i", 0, True), "andi": ("i", "i", 0, True), "ori": ("i", "i", 0, True),
    "xori": ("i", "i", 0, True),
    "fcvt.s.w": ("i", "f", 0, False), "fcvt.w.s": ("f", "i", 0, False), "fmv.s": ("f", "f", 0, False),
    "fadd.s": ("ff", "f", 0, False), "fmul.s": ("ff", "f", 0, False), "fsub.s": ("ff", "f", 0, False),
    # "pmov" is variadic: n ins, n outs (classes given per case)
    # Snitch stream access: `sread` defines a value in the stream register it is pre-assigned to (every
    # read pops the stream), `swrite` pushes a value that sits in a stream register.  `resv` is the
    # harness-defined operation `c19.reserve` (no operands, no results) that declares registers as
    # excluded through the public interface RegisterAllocatableOperation.iter_excluded_registers.
    "sread": ("", "f", 0, False), "swrite": ("f", "", 0, False), "resv": ("", "", 0, False),
}
# Registers that an operation reserves for itself while it is present ANYWHERE in the function
# ("registers that should not be used when this operation is present"); independent transcription of the
# Snitch rule (ft0, ft1, ft2 are stream ports while streaming), NOT taken from iter_excluded_registers.
STREAM_REGS = ["ft0", "ft1", "ft2"]
RESERVING: dict[str, list[str]] = {"sread": STREAM_REGS, "swrite": STREAM_REGS}
X86_KINDS: dict[str, tuple[str, str, int, bool]] = {
    "di.mov": ("", "i", 0, True),
    "ds.mov": ("i", "i", 0, False),
    "dsi.imul": ("i", "i", 0, True),
    "rs.add": ("i", "", 1, False), "rs.sub": ("i", "", 1, False), "rs.imul": ("i", "", 1, False),
    "rs.and": ("i", "", 1, False), "rs.or": ("i", "", 1, False), "rs.xor": ("i", "", 1, False),
    "ri.add": ("", "", 1, True), "ri.sub": ("", "", 1, True), "ri.and": ("", "", 1, True),
    "ri.or": ("", "", 1, True), "ri.xor": ("", "", 1, True),
    "r.neg": ("", "", 1, False), "r.not": ("", "", 1, False), "r.inc": ("", "", 1, False),
    "r.dec": ("", "", 1, False),
    "resv": ("", "", 0, False),
    # vector instructions ("v" = a value of any vector class x / y / z, "i" = general-purpose of any width);
    # `dm.` loads from / `ms.` stores to memory at [pointer + offset] (offset travels as `imm`)
    "ds.vpbroadcastq": ("i", "v", 0, False), "ds.vpbroadcastd": ("i", "v", 0, False),
    "ds.vmovapd": ("v", "v", 0, False), "ds.vmovaps": ("v", "v", 0, False),
    "dss.vaddpd": ("vv", "v", 0, False), "dss.vaddps": ("vv", "v", 0, False),
    "dss.vpxorq": ("vv", "v", 0, False), "dss.vxorpd": ("vv", "v", 0, False),
    "rss.vfmadd231pd": ("vv", "", 1, False), "rss.vfmadd231ps": ("vv", "", 1, False),
    "dm.vmovupd": ("i", "v", 0, True), "dm.vmovapd": ("i", "v", 0, True),
    "ms.vmovupd": ("iv", "", 0, True), "ms.vmovapd": ("iv", "", 0, True),
    "dm.mov": ("i", "i", 0, True), "ms.mov": ("ii", "", 0, True),
}
X86_MEM_KINDS = {k for k in X86_KINDS if k.startswith(("dm.", "ms."))}
X86_VEC_KINDS = {k for k, (a, b, _, _) in X86_KINDS.items() if "v" in a + b or k.startswith("rss.")}
MV = (1 << 512) - 1


def op_sem(target: str, kind: str, imm: int | None, reads: list[int]) -> list[int]:
    """Value semantics of one instruction: `reads` = values of ins followed by values of the in/out
    registers; returns values of outs followed by new values of the in/out registers.  Float
    instructions get an arbitrary deterministic bit function (the same on both machines)."""
    if target == "riscv":
        m, w = M32, 32
        a = reads[0] if reads else 0
        b = reads[1] if len(reads) > 1 else 0
        i = imm or 0
        if kind == "li":
            return [i & m]
        if kind == "getzero":
            return [0]
        if kind in ("mv", "fmv.s"):
            return [a]
        if kind == "pmov":
            return list(reads)
        if kind in ("add", "addi"):
            return [(a + (b if kind == "add" else i)) & m]
        if kind == "sub":
            return [(a - b) & m]
        if kind == "mul":
            return [(a * b) & m]
        if kind in ("and", "andi"):
            return [a & ((b if kind == "and" else i) & m)]
        if kind in ("or", "ori"):
            return [(a | ((b if kind == "or" else i) & m))]
        if kind in ("xor", "xori"):
            return [(a ^ ((b if kind == "xor" else i) & m))]
        if kind == "slt":
            return [1 if _s(a, w) < _s(b, w) else 0]
        if kind == "sltu":
            return [1 if a < b else 0]
        if kind in ("fcvt.s.w", "fcvt.w.s"):
            return [_mix(7 if kind == "fcvt.s.w" else 8, a)]
        if kind in ("fadd.s", "fmul.s", "fsub.s"):
            return [_mix({"fadd.s": 1, "fmul.s": 2, "fsub.s": 3}[kind], a, b)]
    elif kind in X86_VEC_KINDS and kind not in X86_MEM_KINDS:
        # arbitrary but fixed meaning on 512-bit words (the same on both machines); a value is cut to the
        # width of its class when it is written and when it is read
        if kind.startswith("ds.vpbroadcast"):
            lane = 64 if kind.endswith("q") else 32
            x = reads[0] & ((1 << lane) - 1)
            return [sum(x << (lane * j) for j in range(512 // lane))]
        if kind.startswith("ds.vmova"):
            return [reads[0]]
        if kind.startswith("dss.vadd"):
            return [(reads[0] + reads[1]) & MV]
        if kind.startswith("dss.v"):
            return [reads[0] ^ reads[1]]
        if kind.startswith("rss.vfmadd231"):
            return [(reads[2] + reads[0] * reads[1] + 1) & MV]
    else:
        m = M64
        i = (imm or 0) & m
        if kind == "di.mov":
            return [i]
        if kind == "ds.mov":
            return [reads[0]]
        if kind == "dsi.imul":
            return [(reads[0] * _s(i, 64)) & m]
        if kind.startswith("rs."):
            s, r = reads[0], reads[1]
            f = kind[3:]
            return [{"add": (r + s) & m, "sub": (r - s) & m, "imul": (r * s) & m, "and": r & s, "or": r | s,
                     "xor": r ^ s}[f]]
        if kind.startswith("ri."):
            r = reads[0]
            f = kind[3:]
            return [{"add": (r + i) & m, "sub": (r - i) & m, "and": r & i, "or": r | i, "xor": r ^ i}[f]]
        if kind.startswith("r."):
            r = reads[0]
            return [{"neg": (-r) & m, "not": (~r) & m, "inc": (r + 1) & m, "dec": (r - 1) & m}[kind[2:]]]
    raise core.InfraError(f"no semantics for {target} {kind}")


# =============================================================================================
# Abstract programs.
#   case = {"target", "mode", "pool": [names]|None, "args": [[vid, cls, reg|None]], "ops": [...],
#           "rets": [vid]}
#   op   = {"k", "imm"?, "ins": [vid], "outs": [[vid, cls, reg|None]], "io": [[vin, [vout, cls, reg|None]]]}
#   loop = {"k": "for", "lb", "ub", "step": int | {"v": vid}, "inits": [vid], "iv": [vid,"i",reg],
#           "bargs": [[vid,cls,reg]], "body": [...], "yields": [vid], "res": [[vid,cls,reg]]}
#   frep = {"k": "for", "frep": True, "rep": vid, "iv": None, "inits", "bargs", "body", "yields", "res"}
#          (riscv_snitch.frep_outer: the body runs rep+1 times, no induction variable; float-only body)
# =============================================================================================

def op_reads(op: dict) -> list[int]:
    if op["k"] == "for":
        if op.get("frep"):
            return [op["rep"]] + list(op["inits"])
        r = [op["lb"], op["ub"]]
        if isinstance(op["step"], dict):
            r.append(op["step"]["v"])
        return r + list(op["inits"])
    return list(op["ins"]) + [p[0] for p in op.get("io", [])]


def loop_bound(op: dict) -> set[int]:
    """values that a loop binds in its body: induction variable (not for frep) and block arguments"""
    return ({op["iv"][0]} if op.get("iv") else set()) | {b[0] for b in op["bargs"]}


def op_defs(op: dict) -> list[list]:
    if op["k"] == "for":
        return list(op["res"])
    return list(op["outs"]) + [p[1] for p in op.get("io", [])]


def all_values(case: dict) -> dict[int, tuple[str, str | None]]:
    """vid -> (cls, pre-assigned register or None)"""
    vals: dict[int, tuple[str, str | None]] = {}

    def block(ops):
        for op in ops:
            for d in op_defs(op):
                vals[d[0]] = (d[1], d[2])
            if op["k"] == "for":
                if op.get("iv"):
                    vals[op["iv"][0]] = (op["iv"][1], op["iv"][2])
                for b in op["bargs"]:
                    vals[b[0]] = (b[1], b[2])
                block(op["body"])

    for a in case["args"]:
        vals[a[0]] = (a[1], a[2])
    block(case["ops"])
    return vals


def op_reserves(op: dict) -> list[str]:
    """registers that `op` itself declares as reserved for the whole function"""
    return list(op["regs"]) if op["k"] == "resv" else list(RESERVING.get(op["k"], []))


def declared_reserved(case: dict) -> dict[str, str]:
    """PHYSICAL register -> where it is declared, over the operations of the function at EVERY nesting
    depth (an operation that reserves `eax` reserves the register that `rax` names)"""
    out: dict[str, str] = {}

    def block(ops, where):
        for idx, op in enumerate(ops):
            here = f"{where} op#{idx}({op['k']})"
            for r in op_reserves(op):
                out.setdefault(phys(case["target"], r), here)
            if op["k"] == "for":
                block(op["body"], here + " body")

    block(case["ops"], "func")
    return out


def reserve_tree(case: dict) -> str:
    """the operation tree with the registers each operation declares, for the Lean model of
    all_excluded_registers: op = `( reg* op* )`"""
    t = case["target"]

    def block(ops):
        return " ".join("( " + " ".join(str(reg_num(t, r)) for r in op_reserves(op))
                        + (" " + block(op["body"]) if op["k"] == "for" else "") + " )" for op in ops)

    return " ".join(("walk " + block(case["ops"])).split())


def has_loops(case: dict) -> bool:
    return any(op["k"] == "for" for op in case["ops"])


def body_live_ins(ops: list[dict], bound: set[int]) -> set[int]:
    """values used in `ops` (transitively through nested loops) that are not defined in it / `bound`"""
    used: set[int] = set()
    defined = set(bound)

    def block(ops, defined):
        defined = set(defined)
        for op in ops:
            for r in op_reads(op):
                if r not in defined:
                    used.add(r)
            if op["k"] == "for":
                inner = set(defined) | loop_bound(op)
                block_with_yield(op, inner)
            for d in op_defs(op):
                defined.add(d[0])

    def block_with_yield(loop, inner):
        inner2 = set(inner)
        # walk the body, then the yields
        sub_defined = set(inner2)
        for op in loop["body"]:
            for r in op_reads(op):
                if r not in sub_defined:
                    used.add(r)
            if op["k"] == "for":
                block_with_yield(op, sub_defined | loop_bound(op))
            for d in op_defs(op):
                sub_defined.add(d[0])
        for y in loop["yields"]:
            if y not in sub_defined:
                used.add(y)

    block(ops, defined)
    return used - set(bound)


def loop_live_ins(loop: dict) -> set[int]:
    """values defined outside the loop body and used inside it (incl. by the yield)"""
    bound = loop_bound(loop)
    pseudo = list(loop["body"]) + [{"k": "_use", "ins": list(loop["yields"]), "outs": [], "io": []}]
    return body_live_ins(pseudo, bound)


# =============================================================================================
# (1)+(2) the oracle: liveness / interference over an assignment  alloc : vid -> register name
# =============================================================================================
class Clash(Exception):
    def __init__(self, kind: str, detail: str):
        super().__init__(f"{kind}: {detail}")
        self.kind = kind
        self.detail = detail


def zero_constants(case: dict, loop_zero: bool = True) -> set[int]:
    """values that are the constant 0 by construction: `li 0`, get_register zero, moves of those.
    With loop_zero=False loop-carried values (block arguments, results) are never taken to be constant —
    the conservative rule of the Lean validator for blocks with loops (`checkT`)."""
    z: set[int] = set()

    def block(ops):
        for op in ops:
            k = op["k"]
            if k == "li" and op.get("imm") == 0:
                z.add(op["outs"][0][0])
            elif k == "getzero":
                z.add(op["outs"][0][0])
            elif k == "mv" and op["ins"][0] in z:
                z.add(op["outs"][0][0])
            elif k == "for" and not loop_zero:
                block(op["body"])
            elif k == "for":
                # a loop-carried value is the constant 0 when its init is and, assuming that of the
                # block arguments, every iteration yields the constant 0 again (greatest fixpoint:
                # drop candidates until the assumption is self-consistent)
                bargs = [b[0] for b in op.get("bargs", [])]
                ress = [r[0] for r in op.get("res", [])]
                inits, yields = op.get("inits", []), op.get("yields", [])
                cand = {b for b, i in zip(bargs, inits) if i in z}
                outer = set(z)
                while True:
                    z.clear()
                    z.update(outer | cand)
                    block(op["body"])
                    bad = {b for b, y in zip(bargs, yields) if b in cand and y not in z}
                    if not bad:
                        break
                    cand -= bad
                for b, r in zip(bargs, ress):
                    if b in cand:
                        z.add(r)

    block(case["ops"])
    return z


def check_interference(case: dict, alloc: dict[int, str | None], zero_name: str | None = "zero",
                       check_ties: bool = True, loop_zero: bool = True) -> None:
    """Raise Clash when the assignment lets two simultaneously live distinct values share a register,
    lets a definition overwrite a live value, breaks a register tie that the instruction set / loop
    lowering needs, or puts a non-zero value in the zero register.  Values with alloc None are ignored
    (used to vet the pre-assignment of an input)."""
    zc = zero_constants(case, loop_zero)
    t_ = case["target"]
    # PHYSICAL registers: two names of one register (x5 / t0, rax / eax, zmm1 / ymm1) are one register
    spelled = dict(alloc)
    alloc = phys_alloc(t_, alloc)

    def reg(v):
        return alloc.get(v)

    def nm(v):
        """%v, with the name under which it holds its register when that is not the canonical one"""
        return f"%{v}" + (f" (as {spelled[v]})" if spelled.get(v) not in (None, alloc.get(v)) else "")

    def is_zero(v):
        return zero_name is not None and reg(v) == zero_name

    def pairwise(live: set[int], where: str):
        seen: dict[str, int] = {}
        for v in sorted(live):
            r = reg(v)
            if r is None or is_zero(v):
                continue
            if r in seen:
                raise Clash("two-live-values-share-register", f"{where}: {nm(seen[r])} and {nm(v)} are both live in {r}")
            seen[r] = v

    def def_check(v: int, live_after: set[int], where: str):
        r = reg(v)
        if r is None or is_zero(v):
            return
        for w in sorted(live_after):
            if w != v and reg(w) == r:
                raise Clash("definition-clobbers-live-value", f"{where}: defining {nm(v)} in {r} overwrites live {nm(w)}")

    def tie(vs: list[int], where: str):
        if not check_ties:
            return
        rs = {reg(v) for v in vs if reg(v) is not None}
        if len(rs) > 1:
            raise Clash("register-tie-broken", f"{where}: values {['%' + str(v) for v in vs]} must share one register, got {sorted(rs)}")

    def block(ops: list[dict], live: set[int], where: str) -> set[int]:
        """backward over `ops` from live-out set `live`; returns live-in"""
        live = set(live)
        pairwise(live, where + " end")
        for idx in range(len(ops) - 1, -1, -1):
            op = ops[idx]
            here = f"{where} op#{idx}({op['k']})"
            if op["k"] == "for":
                live = loop(op, live, here)
            else:
                outs = [d[0] for d in op["outs"]]
                ios = [(p[0], p[1][0]) for p in op.get("io", [])]
                defs = outs + [o for _, o in ios]
                for i, o in ios:
                    tie([i, o], here + " in/out")
                for d in defs:
                    def_check(d, live - set(defs), here)
                # distinct results of one instruction need distinct registers
                pairwise(set(defs), here + " results")
                live = (live - set(defs)) | set(op["ins"]) | {i for i, _ in ios}
            pairwise(live, here + " before")
        return live

    def loop(op: dict, live_after: set[int], here: str) -> set[int]:
        res = [d[0] for d in op["res"]]
        bargs = [b[0] for b in op["bargs"]]
        for k in range(len(res)):
            tie([op["inits"][k], bargs[k], op["yields"][k], res[k]], here + f" loop-carried #{k}")
        for r in res:
            def_check(r, live_after - set(res), here + " exit")
        if op.get("frep"):
            # `frep.o rep, n`: the repetition count is read once, the body is replayed rep+1 times
            through = (live_after - set(res)) | loop_live_ins(op)
            body_in = block(op["body"], through | set(op["yields"]), here + " body")
            at_entry = body_in | through
            pairwise(at_entry, here + " body entry")
            return (at_entry - set(bargs)) | {op["rep"]} | set(op["inits"])
        iv = op["iv"][0]
        through = (live_after - set(res)) | loop_live_ins(op) | {op["ub"]}
        if isinstance(op["step"], dict):
            through.add(op["step"]["v"])
        # end of body: iv is read by the increment, yields move into the block arguments
        body_out = through | {iv} | set(op["yields"])
        body_in = block(op["body"], body_out, here + " body")
        at_entry = body_in | through | {iv}
        pairwise(at_entry, here + " body entry")
        # `mv iv, lb` before the loop: defines iv while everything needed by the loop is live
        def_check(iv, (at_entry - {iv} - set(bargs)) | set(op["inits"]), here + " iv init")
        # (block arguments take over the registers of the inits without an instruction: an init that
        #  stays live clashes with a *live* block argument in `pairwise(at_entry)` above and with the
        #  definition of the yielded value in the body)
        before = (at_entry - {iv} - set(bargs)) | {op["lb"]} | set(op["inits"])
        return before

    live0 = block(case["ops"], set(case["rets"]), "func")
    pairwise(live0 | {a[0] for a in case["args"] if a[0] in live0}, "func entry")
    # zero register: only constant zero
    if zero_name is not None:
        for v, r in alloc.items():
            if r == zero_name and v not in zc:
                raise Clash("nonzero-value-in-zero-register", f"%{v} is placed in {zero_name} but is not the constant 0")


def canonical_alloc(case: dict, ties: bool = True) -> dict[int, str]:
    """the most permissive assignment: every value its own virtual register, except that values
    tied by the instruction set / loop lowering share one and pre-assigned values keep theirs"""
    vals = all_values(case)
    parent: dict[Any, Any] = {}

    def find(x):
        parent.setdefault(x, x)
        while parent[x] != x:
            parent[x] = parent[parent[x]]
            x = parent[x]
        return x

    def union(a, b):
        parent[find(a)] = find(b)

    for v, (_, pre) in vals.items():
        find(v)
        if pre is not None:
            union(v, "reg:" + phys(case["target"], pre))

    def block(ops):
        for op in ops:
            if op["k"] == "for":
                for k in range(len(op["res"])):
                    for x in (op["bargs"][k][0], op["yields"][k], op["res"][k][0]):
                        union(op["inits"][k], x)
                block(op["body"])
            else:
                for p in op.get("io", []):
                    union(p[0], p[1][0])

    if ties:
        block(case["ops"])
    out = {}
    for v in vals:
        r = find(v)
        names = [x for x in parent if isinstance(x, str) and find(x) == r]
        out[v] = names[0][4:] if len(names) == 1 else ("virt%s" % (r,) if not names else "multi:" + ",".join(sorted(names)))
    return out


def feasibility(case: dict, ties: bool = True, zero_groups: bool = False, loop_zero: bool = True) -> str | None:
    """None when some register assignment can satisfy the property for this input (ties + pre-assignment
    are consistent with liveness); otherwise the reason.  Inputs that are infeasible cannot be
    allocated correctly by ANY allocator: the only correct behaviour is to report failure.
    With ties=False only the pre-assignment is vetted (an input whose pre-assigned values clash among
    themselves is outside the property's quantifier)."""
    ca = canonical_alloc(case, ties)
    for v, r in ca.items():
        if r.startswith("multi:"):
            return f"tie-conflict: %{v} is tied to several pre-assigned registers {r[6:]}"
    if zero_groups and case["target"] == "riscv":
        # a group of tied values that are all the constant 0 (e.g. `iter_args(%a = %zero)` yielding
        # %zero again) can live in the hard-wired zero register, where values do not interfere.  (Not
        # part of the classification of inputs: riscv_scf.for ties such a group in an ordinary register
        # just as well, which is the known loop-discipline finding.)
        zc = zero_constants(case)
        groups: dict[str, list[int]] = {}
        for v, r in ca.items():
            groups.setdefault(r, []).append(v)
        for r, vs in groups.items():
            if r.startswith("virt") and all(v in zc for v in vs):
                for v in vs:
                    ca[v] = "zero"
    try:
        check_interference(case, ca, zero_name="zero" if case["target"] == "riscv" else None, check_ties=ties,
                           loop_zero=loop_zero)
    except Clash as c:
        return f"{c.kind}: {c.detail}"
    return None


# =============================================================================================
# (3) execution: SSA semantics and register machine
# =============================================================================================
LOOP_FUEL = 64


class Diverged(Exception):
    pass


SIDE_KINDS = ("sread", "swrite", "resv")


class Streams:
    """Snitch streams as seen by both machines: the n-th `sread` of a stream register delivers a fixed
    arbitrary word (the stream is popped by every read), `swrite` appends the written word to the
    observable output of the function, `resv` does nothing."""

    def __init__(self):
        self.pops: dict[str, int] = {}
        self.written: list[int] = []
        self.mem: dict[tuple[int, int], int] = {}
        self.stored: list[list[int]] = []

    def mem_step(self, op: dict, reads: list[int], bits: int) -> list[int]:
        """x86 loads / stores of `bits` bits at [pointer + offset]: a load sees the last store of the same
        width to the same address, otherwise an arbitrary fixed word; stores are observable output"""
        addr = (reads[0] + (op.get("imm") or 0)) & M64
        if op["k"].startswith("dm."):
            if (addr, bits) in self.mem:
                return [self.mem[(addr, bits)]]
            return [sum(_mix(0x10AD, addr & M32, addr >> 32, j) << (32 * j) for j in range(bits // 32 or 1)) & ((1 << bits) - 1)]
        x = reads[1] & ((1 << bits) - 1)
        self.mem[(addr, bits)] = x
        self.stored.append([addr, bits, x])
        return []

    def step(self, op: dict, reads: list[int]) -> list[int]:
        if op["k"] == "sread":
            port = op["outs"][0][2] or "?"
            n = self.pops.get(port, 0)
            self.pops[port] = n + 1
            return [_mix(0x5EAD, STREAM_REGS.index(port) if port in STREAM_REGS else 9, n)]
        if op["k"] == "swrite":
            self.written.append(reads[0])
        return []

    def observed(self) -> list:
        return ([["streamed", list(self.written)]] if self.written else []) + \
               ([["stored", list(self.stored)]] if self.stored else [])


def width(case: dict) -> int:
    return 32 if case["target"] == "riscv" else 64


def mem_bits(t: str, vals: dict, op: dict) -> int:
    """width of an x86 memory access = width of the register it loads into / stores from"""
    v = op["outs"][0][0] if op["k"].startswith("dm.") else op["ins"][1]
    return cls_width(t, vals[v][0])


def exec_ssa(case: dict, inputs: list[int]) -> list[int]:
    t = case["target"]
    w = width(case)
    m = (1 << w) - 1
    env: dict[int, int] = {}
    vals = all_values(case)

    def vm(v: int) -> int:
        return (1 << cls_width(t, vals[v][0])) - 1

    for a, x in zip(case["args"], inputs):
        env[a[0]] = x & vm(a[0])

    def block(ops):
        for op in ops:
            if op["k"] == "for" and op.get("frep"):
                carried = [env[i] for i in op["inits"]]
                if env[op["rep"]] + 1 > LOOP_FUEL:
                    raise Diverged()
                for _ in range(env[op["rep"]] + 1):
                    for b, x in zip(op["bargs"], carried):
                        env[b[0]] = x
                    block(op["body"])
                    carried = [env[y] for y in op["yields"]]
                for r, x in zip(op["res"], carried):
                    env[r[0]] = x
            elif op["k"] == "for":
                iv = env[op["lb"]]
                carried = [env[i] for i in op["inits"]]
                n = 0
                while _s(iv, w) < _s(env[op["ub"]], w):
                    n += 1
                    if n > LOOP_FUEL:
                        raise Diverged()
                    env[op["iv"][0]] = iv
                    for b, x in zip(op["bargs"], carried):
                        env[b[0]] = x
                    block(op["body"])
                    carried = [env[y] for y in op["yields"]]
                    st = op["step"] if isinstance(op["step"], int) else env[op["step"]["v"]]
                    iv = (iv + st) & m
                for r, x in zip(op["res"], carried):
                    env[r[0]] = x
            else:
                reads = [env[v] for v in op["ins"]] + [env[p[0]] for p in op.get("io", [])]
                if op["k"] in SIDE_KINDS:
                    outs = streams.step(op, reads)
                elif op["k"] in X86_MEM_KINDS:
                    outs = streams.mem_step(op, reads, mem_bits(t, vals, op))
                else:
                    outs = op_sem(t, op["k"], op.get("imm"), reads)
                for d, x in zip(op_defs(op), outs):
                    env[d[0]] = x & vm(d[0])

    streams = Streams()
    block(case["ops"])
    return [env[r] for r in case["rets"]] + streams.observed()


def exec_regs(case: dict, alloc: dict[int, str], inputs: list[int], junk: int) -> list[int]:
    """Register machine: every value lives in its assigned register.  Registers that hold no
    argument start with `junk`.  `zero` reads 0 and ignores writes.  riscv_scf.for is executed as
    convert-riscv-scf-to-riscv-cf lowers it: mv iv, lb; bge iv, ub, end; body; iv += step;
    blt iv, ub, body; block arguments / yields / results are carried by register identity."""
    t = case["target"]
    w = width(case)
    m = (1 << w) - 1
    zero = "zero" if t == "riscv" else None
    regs: dict[str, int] = {}
    vals = all_values(case)
    # the register file is indexed by PHYSICAL register: a value of a narrow class reads the low bits of
    # its register and a write through a narrow name replaces the whole register (zero-extended)
    alloc = phys_alloc(t, alloc)

    def vm(v: int) -> int:
        return (1 << cls_width(t, vals[v][0])) - 1

    def rd(v):
        r = alloc[v]
        if r == zero:
            return 0
        return regs.get(r, junk) & vm(v)

    def wr(v, x):
        r = alloc[v]
        if r != zero:
            regs[r] = x & vm(v)

    for a, x in zip(case["args"], inputs):
        wr(a[0], x)

    def block(ops):
        for op in ops:
            if op["k"] == "for" and op.get("frep"):
                times = rd(op["rep"]) + 1                           # frep.o rep, <n instructions>
                if times > LOOP_FUEL:
                    raise Diverged()
                for _ in range(times):
                    block(op["body"])
            elif op["k"] == "for":
                wr(op["iv"][0], rd(op["lb"]))                       # mv iv, lb
                n = 0
                if _s(rd(op["iv"][0]), w) < _s(rd(op["ub"]), w):     # bge iv, ub, end
                    while True:
                        n += 1
                        if n > LOOP_FUEL:
                            raise Diverged()
                        block(op["body"])
                        st = op["step"] if isinstance(op["step"], int) else rd(op["step"]["v"])
                        wr(op["iv"][0], rd(op["iv"][0]) + st)         # addi / add iv, iv, step
                        if not (_s(rd(op["iv"][0]), w) < _s(rd(op["ub"]), w)):   # blt iv, ub, body
                            break
            else:
                reads = [rd(v) for v in op["ins"]] + [rd(p[0]) for p in op.get("io", [])]
                if op["k"] in SIDE_KINDS:
                    outs = streams.step(op, reads)
                elif op["k"] in X86_MEM_KINDS:
                    outs = streams.mem_step(op, reads, mem_bits(t, vals, op))
                else:
                    outs = op_sem(t, op["k"], op.get("imm"), reads)
                for d, x in zip(op_defs(op), outs):
                    wr(d[0], x)

    streams = Streams()
    block(case["ops"])
    return [rd(r) for r in case["rets"]] + streams.observed()


# =============================================================================================
# Real code adapter: build IR, run the real allocator, read registers back by position
# =============================================================================================

def _rv_type(cls: str, reg: str | None):
    from xdsl.dialects.riscv import FloatRegisterType, IntRegisterType

    T = IntRegisterType if cls == "i" else FloatRegisterType
    return T.from_name(reg) if reg else T.unallocated()


def _x86_type(reg: str | None, cls: str | None = None):
    """register type of class `cls` (default: the class under which `reg` is spelled; i when unallocated)"""
    from xdsl.dialects.x86 import registers as R

    T = {"i": R.Reg64Type, "d": R.Reg32Type, "w": R.Reg16Type, "b": R.Reg8Type, "x": R.SSERegisterType,
         "y": R.AVX2RegisterType, "z": R.AVX512RegisterType}[cls or (name_cls("x86", reg) if reg else "i")]
    return T.from_name(reg) if reg else T.unallocated()


def build_ir(case: dict):
    """-> (module, func op).  Values are created in program order."""
    from xdsl.dialects import builtin
    from xdsl.ir import Block, Region

    t = case["target"]
    env: dict[int, Any] = {}
    if t == "riscv":
        from xdsl.dialects import riscv, riscv_func, riscv_scf, rv32
        from xdsl.dialects.builtin import DenseArrayBase, IntegerAttr, i32

        RV = {"mv": riscv.MVOp, "add": riscv.AddOp, "sub": riscv.SubOp, "mul": riscv.MulOp, "and": riscv.AndOp,
              "or": riscv.OrOp, "xor": riscv.XorOp, "slt": riscv.SltOp, "sltu": riscv.SltuOp,
              "addi": riscv.AddiOp, "andi": riscv.AndiOp, "ori": riscv.OriOp, "xori": riscv.XoriOp,
              "fcvt.s.w": riscv.FCvtSWOp, "fcvt.w.s": riscv.FCvtWSOp, "fmv.s": riscv.FMVOp,
              "fadd.s": riscv.FAddSOp, "fmul.s": riscv.FMulSOp, "fsub.s": riscv.FSubSOp}

        def mk(op):
            k = op["k"]
            if k == "for" and op.get("frep"):
                from xdsl.dialects import riscv_snitch
                from xdsl.rewriter import Rewriter

                body = Block(arg_types=[_rv_type(b[1], b[2]) for b in op["bargs"]])
                for b, a in zip(op["bargs"], body.args):
                    env[b[0]] = a
                for o in op["body"]:
                    body.add_op(mk(o))
                body.add_op(riscv_snitch.FrepYieldOp(*[env[y] for y in op["yields"]]))
                f = riscv_snitch.FrepOuterOp(env[op["rep"]], Region(body), [env[i] for i in op["inits"]])
                for idx, r in enumerate(op["res"]):
                    want = _rv_type(r[1], r[2])
                    if f.results[idx].type != want:
                        Rewriter.replace_value_with_new_type(f.results[idx], want)
                for r, v in zip(op["res"], f.results):
                    env[r[0]] = v
                return f
            if k == "for":
                body = Block(arg_types=[_rv_type(op["iv"][1], op["iv"][2])] + [_rv_type(b[1], b[2]) for b in op["bargs"]])
                env[op["iv"][0]] = body.args[0]
                for b, a in zip(op["bargs"], body.args[1:]):
                    env[b[0]] = a
                for o in op["body"]:
                    body.add_op(mk(o))
                body.add_op(riscv_scf.YieldOp(*[env[y] for y in op["yields"]]))
                step = IntegerAttr(op["step"], riscv.si12) if isinstance(op["step"], int) else env[op["step"]["v"]]
                f = riscv_scf.ForOp(env[op["lb"]], env[op["ub"]], step, [env[i] for i in op["inits"]], Region(body))
                # result types: pre-assignment of results
                from xdsl.rewriter import Rewriter

                for idx, r in enumerate(op["res"]):
                    want = _rv_type(r[1], r[2])
                    if f.results[idx].type != want:
                        Rewriter.replace_value_with_new_type(f.results[idx], want)
                for r, v in zip(op["res"], f.results):
                    env[r[0]] = v
                return f
            ins = [env[v] for v in op["ins"]]
            outs = op["outs"]
            if k == "resv":
                return make_reserve_op("riscv", op["regs"])
            if k == "sread":
                from xdsl.dialects import riscv_snitch

                o = riscv_snitch.ReadOp(stream_value("readable", _rv_type("f", outs[0][2])))
                env[outs[0][0]] = o.res
                return o
            if k == "swrite":
                from xdsl.dialects import riscv_snitch

                return riscv_snitch.WriteOp(ins[0], stream_value("writable", ins[0].type))
            if k == "li":
                o = rv32.LiOp(op["imm"], rd=_rv_type("i", outs[0][2]))
            elif k == "getzero":
                o = rv32.GetRegisterOp(_rv_type("i", "zero"))
            elif k == "pmov":
                o = riscv.ParallelMovOp(ins, [_rv_type(d[1], d[2]) for d in outs],
                                        DenseArrayBase.from_list(i32, [32] * len(ins)))
            elif RV_KINDS[k][3]:
                o = RV[k](ins[0], op["imm"], rd=_rv_type(outs[0][1], outs[0][2]))
            else:
                o = RV[k](*ins, rd=_rv_type(outs[0][1], outs[0][2]))
            for d, v in zip(outs, o.results):
                env[d[0]] = v
            return o

        blk = Block(arg_types=[_rv_type(a[1], a[2]) for a in case["args"]])
        for a, v in zip(case["args"], blk.args):
            env[a[0]] = v
        stream_defs: dict[tuple[str, Any], Any] = {}

        def stream_value(direction: str, elem_type):
            """the stream a read / write goes through: result of a `test.op` at the top of the function
            (as in the pinned filecheck tests); not a register value, the allocator ignores it"""
            from xdsl.dialects import snitch
            from xdsl.dialects.test import TestOp

            key = (direction, elem_type)
            if key not in stream_defs:
                T = snitch.ReadableStreamType if direction == "readable" else snitch.WritableStreamType
                stream_defs[key] = TestOp(result_types=[T(elem_type)])
            return stream_defs[key].results[0]

        body_ops = [mk(op) for op in case["ops"]]
        for o in list(stream_defs.values()) + body_ops:
            blk.add_op(o)
        blk.add_op(riscv_func.ReturnOp(*[env[r] for r in case["rets"]]))
        func = riscv_func.FuncOp("main", Region(blk), ([a.type for a in blk.args], [env[r].type for r in case["rets"]]))
    else:
        from xdsl.dialects import x86_func
        from xdsl.dialects.x86 import ops as X

        XO = {"di.mov": X.DI_MovOp, "ds.mov": X.DS_MovOp, "dsi.imul": X.DSI_ImulOp, "rs.add": X.RS_AddOp,
              "rs.sub": X.RS_SubOp, "rs.imul": X.RS_ImulOp, "rs.and": X.RS_AndOp, "rs.or": X.RS_OrOp,
              "rs.xor": X.RS_XorOp, "ri.add": X.RI_AddOp, "ri.sub": X.RI_SubOp, "ri.and": X.RI_AndOp,
              "ri.or": X.RI_OrOp, "ri.xor": X.RI_XorOp, "r.neg": X.R_NegOp, "r.not": X.R_NotOp,
              "r.inc": X.R_IncOp, "r.dec": X.R_DecOp,
              "ds.vpbroadcastq": X.DS_VpbroadcastqOp, "ds.vpbroadcastd": X.DS_VpbroadcastdOp,
              "ds.vmovapd": X.DS_VmovapdOp, "ds.vmovaps": X.DS_VmovapsOp,
              "dss.vaddpd": X.DSS_VaddpdOp, "dss.vaddps": X.DSS_VaddpsOp, "dss.vpxorq": X.DSS_VpxorqOp,
              "dss.vxorpd": X.DSS_VxorpdOp, "rss.vfmadd231pd": X.RSS_Vfmadd231pdOp,
              "rss.vfmadd231ps": X.RSS_Vfmadd231psOp, "dm.vmovupd": X.DM_VmovupdOp, "dm.vmovapd": X.DM_VmovapdOp,
              "ms.vmovupd": X.MS_VmovupdOp, "ms.vmovapd": X.MS_VmovapdOp, "dm.mov": X.DM_MovOp, "ms.mov": X.MS_MovOp}

        def ty(d):
            return _x86_type(d[2], d[1])

        def mkx(op):
            k = op["k"]
            if k == "resv":
                return make_reserve_op("x86", op["regs"])
            ins = [env[v] for v in op["ins"]]
            if k == "di.mov":
                o = XO[k](op["imm"], destination=ty(op["outs"][0]))
            elif k.startswith("dm."):
                o = XO[k](ins[0], op["imm"], destination=ty(op["outs"][0]))
            elif k.startswith("ms."):
                o = XO[k](ins[0], ins[1], op["imm"])
            elif k.startswith("ds."):
                o = XO[k](ins[0], destination=ty(op["outs"][0]))
            elif k.startswith("dss."):
                o = XO[k](ins[0], ins[1], destination=ty(op["outs"][0]))
            elif k.startswith("rss."):
                o = XO[k](env[op["io"][0][0]], ins[0], ins[1], register_out=ty(op["io"][0][1]))
            elif k == "dsi.imul":
                o = XO[k](ins[0], op["imm"], destination=ty(op["outs"][0]))
            elif k.startswith("rs."):
                o = XO[k](env[op["io"][0][0]], ins[0], register_out=ty(op["io"][0][1]))
            elif k.startswith("ri."):
                o = XO[k](env[op["io"][0][0]], op["imm"], register_out=ty(op["io"][0][1]))
            else:
                o = XO[k](env[op["io"][0][0]], register_out=ty(op["io"][0][1]))
            for d, v in zip(op_defs(op), o.results):
                env[d[0]] = v
            return o

        blk = Block(arg_types=[ty(a) for a in case["args"]])
        for a, v in zip(case["args"], blk.args):
            env[a[0]] = v
        for op in case["ops"]:
            blk.add_op(mkx(op))
        blk.add_op(x86_func.RetOp())
        func = x86_func.FuncOp("main", Region(blk), ([a.type for a in blk.args], []))
    mod = builtin.ModuleOp([func])
    return mod, func


_X86_REV: dict[str, str] = {}
_RESERVE: dict[str, Any] = {}


def make_reserve_op(target: str, regs: list[str]):
    """`c19.reserve {regs = [...]}`: an operation defined by this harness against xDSL's public
    extension interface for register allocation (HasRegisterConstraints with no operands / results,
    iter_excluded_registers = its `regs` attribute).  It lets the check declare ANY register of either
    class as excluded, at any nesting depth, for both targets — the only operations of xDSL itself that
    declare excluded registers are riscv_snitch.read / write (always ft0, ft1, ft2)."""
    if "cls" not in _RESERVE:
        from xdsl.backend.register_allocatable import HasRegisterConstraints, RegisterConstraints
        from xdsl.dialects.builtin import ArrayAttr
        from xdsl.ir import Attribute
        from xdsl.irdl import IRDLOperation, attr_def, irdl_op_definition

        @irdl_op_definition
        class ReserveOp(HasRegisterConstraints, IRDLOperation):
            name = "c19.reserve"
            regs = attr_def(ArrayAttr[Attribute])

            def get_register_constraints(self):
                return RegisterConstraints((), (), ())

            def iter_excluded_registers(self):
                yield from self.regs.data

        _RESERVE["cls"] = ReserveOp
    from xdsl.dialects.builtin import ArrayAttr

    if target == "riscv":
        tys = [_rv_type(name_cls("riscv", r), r) for r in regs]
    else:
        tys = [_x86_type(r) for r in regs]
    return _RESERVE["cls"](attributes={"regs": ArrayAttr(tys)})


def extract(func, target: str, rets_from: dict | None = None, ids_out: dict | None = None) -> dict:
    """IR -> abstract program (fresh value ids by position).  Independent of
    get_register_constraints: the read/write structure comes from RV_KINDS / X86_KINDS."""
    ids: dict[int, int] = {}
    keep: list[Any] = []
    counter = [0]

    x86_cls = {n: c for c, n in X86_TYPE_OF_CLS.items()}

    def cls_of(ty):
        if target == "x86":
            return x86_cls[ty.name]
        return "f" if ty.name in ("riscv.freg",) else "i"

    def new(v):
        keep.append(v)
        ids[id(v)] = counter[0]
        counter[0] += 1
        name = v.type.register_name.data
        return [ids[id(v)], cls_of(v.type), name or None]

    def use(v, where):
        if id(v) not in ids:
            raise DetachedOperand(where)
        return ids[id(v)]

    def opname(op):
        n = op.name
        if target == "riscv":
            if n == "rv32.li":
                return "li"
            if n == "rv32.get_register":
                return "getzero"
            if n == "riscv.parallel_mov":
                return "pmov"
            if n.startswith("riscv."):
                return n[6:]
            if n.startswith("riscv_snitch.") or n == "c19.reserve":
                return {"c19.reserve": "resv", "riscv_snitch.read": "sread", "riscv_snitch.write": "swrite"}.get(n, n)
        else:
            if n.startswith("x86."):
                return n[4:]
        return {"c19.reserve": "resv", "riscv_snitch.read": "sread", "riscv_snitch.write": "swrite"}.get(n, n)

    def block(b, term_names):
        ops = []
        term = None
        for op in b.ops:
            if op.name in term_names:
                term = op
                break
            if op.name == "test.op":
                continue            # defines the streams (no register values)
            k = opname(op)
            if k == "resv":
                ops.append({"k": "resv", "regs": [r.register_name.data for r in op.attributes["regs"].data],
                            "ins": [], "outs": [], "io": []})
                continue
            if k == "sread":
                ops.append({"k": k, "ins": [], "outs": [new(op.results[0])], "io": []})
                continue
            if k == "swrite":
                ops.append({"k": k, "ins": [use(op.operands[0], "stream write value")], "outs": [], "io": []})
                continue
            if op.name == "riscv_snitch.frep_outer":
                rep_ = use(op.max_rep, "frep repetition count")
                inits = [use(v, "frep iter_arg") for v in op.iter_args]
                body = op.body.block
                bargs = [new(a) for a in body.args]
                bops, y = block(body, ("riscv_snitch.frep_yield",))
                yields = [use(v, "frep_yield operand") for v in y.operands]
                res = [new(r) for r in op.results]
                ops.append({"k": "for", "frep": True, "rep": rep_, "iv": None, "inits": inits, "bargs": bargs,
                            "body": bops, "yields": yields, "res": res})
                continue
            if op.name == "riscv_scf.for":
                lb = use(op.lb, "for lb")
                ub = use(op.ub, "for ub")
                step = op.step_attr.value.data if op.step_attr is not None else {"v": use(op.step_val, "for step")}
                inits = [use(v, "for iter_arg") for v in op.iter_args]
                body = op.body.block
                iv = new(body.args[0])
                bargs = [new(a) for a in body.args[1:]]
                bops, y = block(body, ("riscv_scf.yield",))
                yields = [use(v, "yield operand") for v in y.operands]
                res = [new(r) for r in op.results]
                ops.append({"k": "for", "lb": lb, "ub": ub, "step": step, "inits": inits, "iv": iv, "bargs": bargs,
                            "body": bops, "yields": yields, "res": res})
                continue
            table = RV_KINDS if target == "riscv" else X86_KINDS
            if k == "pmov":
                ins = [use(v, "pmov input") for v in op.operands]
                ops.append({"k": k, "ins": ins, "outs": [new(r) for r in op.results], "io": []})
                continue
            if k not in table:
                raise core.InfraError(f"extract: unknown operation {op.name}")
            ins_c, outs_c, n_io, has_imm = table[k]
            operands = list(op.operands)
            if n_io:
                # x86 in/out ops: register_in first, then the pure sources
                io_in = use(operands[0], k + " in/out operand")
                ins = [use(v, k + " operand") for v in operands[1:]]
                d = {"k": k, "ins": ins, "outs": [], "io": [[io_in, new(op.results[0])]]}
            else:
                ins = [use(v, k + " operand") for v in operands]
                d = {"k": k, "ins": ins, "outs": [new(r) for r in op.results], "io": []}
            if has_imm:
                d["imm"] = op.attributes["memory_offset" if k in X86_MEM_KINDS else "immediate"].value.data
            ops.append(d)
        return ops, term

    b = func.body.block
    args = [new(a) for a in b.args]
    if target == "riscv":
        ops, term = block(b, ("riscv_func.return",))
        rets = [use(v, "return operand") for v in term.operands]
    else:
        ops, term = block(b, ("x86_func.ret",))
        rets = []
    if ids_out is not None:
        ids_out.update(ids)
    return {"target": target, "args": args, "ops": ops, "rets": rets}


class DetachedOperand(Exception):
    pass


class InvalidInput(Exception):
    """the generated IR does not verify before allocation: not an input of the property"""


def shape(prog: dict) -> Any:
    """program with register annotations removed (to check that allocation only re-typed values)"""

    def d3(d):
        return [d[0], d[1]]

    def block(ops):
        out = []
        for op in ops:
            if op["k"] == "for" and op.get("frep"):
                out.append(("frep", op["rep"], tuple(op["inits"]), tuple(map(tuple, map(d3, op["bargs"]))),
                            block(op["body"]), tuple(op["yields"]), tuple(map(tuple, map(d3, op["res"])))))
            elif op["k"] == "for":
                out.append(("for", op["lb"], op["ub"], json.dumps(op["step"]), tuple(op["inits"]), tuple(d3(op["iv"])),
                            tuple(map(tuple, map(d3, op["bargs"]))), block(op["body"]), tuple(op["yields"]),
                            tuple(map(tuple, map(d3, op["res"])))))
            else:
                out.append((op["k"], op.get("imm"), tuple(op["ins"]), tuple(map(tuple, map(d3, op["outs"]))),
                            tuple((p[0], tuple(d3(p[1]))) for p in op.get("io", [])), tuple(op.get("regs", ()))))
        return tuple(out)

    return (tuple(map(tuple, map(d3, prog["args"]))), block(prog["ops"]), tuple(prog["rets"]))


def regs_of(prog: dict) -> dict[int, str | None]:
    return {v: r for v, (_, r) in all_values(prog).items()}


def run_real(case: dict) -> dict:
    """Build the IR of `case`, optionally legalize (x86), run the real allocator.
    Returns {"prog": program before allocation (ids by position), "status": "ok"|"raise:<Exc>"|"detached",
             "alloc": vid->reg after allocation, "msg": str}"""
    from xdsl.context import Context

    t = case["target"]
    mod, func = build_ir(case)
    try:
        mod.verify()
    except Exception as e:  # noqa: BLE001
        raise InvalidInput(str(e).strip().splitlines()[-1][:200])
    ctx = Context()
    mode = case.get("mode", "pass")
    res: dict[str, Any] = {}
    if t == "x86" and case.get("legalize"):
        from xdsl.transforms.x86_regalloc_legalize import X86RegallocLegalizePass

        X86RegallocLegalizePass().apply(ctx, mod)
        mod.verify()
    ids: dict[int, int] = {}
    prog = extract(func, t, ids_out=ids)
    try:
        res["live_ins"] = real_live_ins(func, ids) if t == "riscv" else None
    except Exception:  # noqa: BLE001
        res["live_ins"] = None
    if t == "x86":
        # observed results: the values named by the case (positions are stable when nothing was inserted;
        # after legalization the observed values are the last definitions of the pre-assigned result registers)
        prog["rets"] = x86_rets(prog, case)
    prog["pool"] = case.get("pool")
    prog["mode"] = mode
    res["prog"] = prog
    try:
        from xdsl.backend.register_allocatable import RegisterAllocatableOperation

        res["excluded_impl"] = sorted(r.register_name.data for r in
                                      RegisterAllocatableOperation.all_excluded_registers(func.body))
    except Exception as e:  # noqa: BLE001
        res["excluded_impl"] = "raise:" + core.exc_name(e)
    try:
        if t == "riscv":
            if mode == "pass":
                from xdsl.transforms.riscv_allocate_registers import RISCVAllocateRegistersPass

                RISCVAllocateRegistersPass().apply(ctx, mod)
            elif mode == "allow_infinite":
                from xdsl.transforms.riscv_allocate_registers import RISCVAllocateRegistersPass

                RISCVAllocateRegistersPass(allow_infinite=True).apply(ctx, mod)
            elif mode == "force_infinite":
                from xdsl.transforms.riscv_allocate_registers import RISCVAllocateRegistersPass

                RISCVAllocateRegistersPass(force_infinite=True).apply(ctx, mod)
            else:
                from xdsl.backend.riscv.register_allocation import RegisterAllocatorLivenessBlockNaive
                from xdsl.backend.riscv.register_stack import RiscvRegisterStack
                from xdsl.dialects.riscv import FloatRegisterType, IntRegisterType

                pool = [(IntRegisterType if name_cls("riscv", n) == "i" else FloatRegisterType).from_name(n)
                        for n in case["pool"]]
                st = RiscvRegisterStack.get(pool, allow_infinite=(mode == "pool_infinite"))
                RegisterAllocatorLivenessBlockNaive(st).allocate_func(func)
        else:
            if mode == "pass":
                from xdsl.transforms.x86_allocate_registers import X86AllocateRegisters

                X86AllocateRegisters().apply(ctx, mod)
            else:
                from xdsl.backend.x86.register_allocation import X86RegisterAllocator
                from xdsl.backend.x86.register_stack import X86RegisterStack
                st = X86RegisterStack.get([_x86_type(n) for n in case["pool"]],
                                          allow_infinite=(mode == "pool_infinite"))
                X86RegisterAllocator(st).allocate_func(func)
    except Exception as e:  # noqa: BLE001  -- any pass exception is a *reported* failure (allowed)
        res["status"] = "raise:" + core.exc_name(e)
        res["msg"] = str(e).strip().splitlines()[-1][:200] if str(e).strip() else ""
        return res
    try:
        after = extract(func, t)
    except DetachedOperand as d:
        res["status"] = "detached"
        res["msg"] = str(d)
        return res
    if t == "x86":
        after["rets"] = prog["rets"]
    if shape(after) != shape(prog):
        res["status"] = "reshaped"
        res["msg"] = "allocation changed the program structure"
        return res
    try:
        mod.verify()
        res["verifies"] = True
    except Exception as e:  # noqa: BLE001
        res["verifies"] = False
        res["verify_msg"] = str(e).strip().splitlines()[-1][:200]
    res["status"] = "ok"
    res["alloc"] = regs_of(after)
    return res


def x86_rets(prog: dict, case: dict) -> list[int]:
    """x86_func.ret has no operands: the observed results are the last values defined into the
    case's result registers (rax, rdx, ...)."""
    want = case.get("ret_regs", [])
    last: dict[str, int] = {}
    for op in prog["ops"]:
        for d in op_defs(op):
            if d[2] in want:
                last[d[2]] = d[0]
    return [last[r] for r in want if r in last]


# =============================================================================================
# Lean protocol (straight-line, integer programs)
# =============================================================================================

def pool_cls(t: str, cls: str) -> str:
    """the register file of a value class, named by its canonical class: riscv i / f, x86 i (the 64/32/16/8-bit
    general-purpose names) / z (xmm, ymm, zmm).  One file = one stack of the allocator model."""
    return FILE_CANON[t][cls_file(t, cls)]


def lean_supported(prog: dict) -> bool:
    """straight-line programs over ONE register file, the integer / general-purpose one (the model
    `regalloc` has one stack); values of every width of that file"""
    if has_loops(prog):
        return False
    return all(pool_cls(prog["target"], c) == "i" for c, _ in all_values(prog).values())


def enc_prog(prog: dict) -> str:
    """args a.. ; (op <zk> i <ins> o <outs> p <io pairs>)* ; ret r..    zk: 0 other, 1 const-zero, 2 move
    (3 parallel move); followed by `pre v r ...`"""
    t = prog["target"]
    parts = ["args " + " ".join(str(a[0]) for a in prog["args"])]
    code = {k: i + 3 for i, k in enumerate(sorted(set(RV_KINDS) | set(X86_KINDS) | {"pmov", "_use"}))}
    for op in prog["ops"]:
        k = op["k"]
        if (k == "li" and op.get("imm") == 0) or k == "getzero":
            zk = 1
        elif k == "mv" and t == "riscv":
            zk = 2
        elif k == "pmov":
            zk = 3
        else:
            zk = 0
        s = f"op {zk} {code[k]} {op.get('imm') or 0} i " + " ".join(map(str, op["ins"]))
        s += " o " + " ".join(str(d[0]) for d in op["outs"])
        s += " p " + " ".join(f"{p[0]} {p[1][0]}" for p in op.get("io", []))
        parts.append(" ".join(s.split()))
    parts.append("ret " + " ".join(map(str, prog["rets"])))
    return " ; ".join(" ".join(p.split()) for p in parts)


def enc_assign(t: str, a: dict[int, str | None]) -> str:
    return " ".join(f"{v} {reg_num(t, r)}" for v, r in sorted(a.items()) if r is not None)


def lean_lines(prog: dict, alloc: dict[int, str] | None, want_alloc: bool = True) -> list[str]:
    """one `alloc` query (model allocator) and, when the real allocation succeeded, one `validate`"""
    t = prog["target"]
    pre = {v: r for v, (_, r) in all_values(prog).items() if r is not None}
    mode = prog.get("mode", "pass")
    if prog.get("pool") is not None:
        pool = [n for n in prog["pool"] if _reg_cls(t, n) == "i"]
    elif mode == "force_infinite":
        pool = []
    else:
        pool = list(RV_POOL_I if t == "riscv" else X86_POOL)
    # stack order: RegisterStack.get pushes the registers in the order given; pop takes the last.
    if prog.get("pool") is None:
        pool = list(reversed(pool))
    inf = 1 if mode in ("allow_infinite", "force_infinite", "pool_infinite") else 0
    infbase = 1000 if t == "riscv" else 3000
    zero = 1 if t == "riscv" else 0
    head = f"{enc_prog(prog)} ; pre {enc_assign(t, pre)} ; pool {' '.join(str(reg_num(t, n)) for n in pool)} ; opt {zero} {inf} {infbase}"
    excl = sorted(reg_num(t, r) for r in declared_reserved(prog))
    if excl:
        # registers declared by operations of the function: the model removes them from the stack like
        # allocate_func does (`exclude_register` for all_used_registers | all_excluded_registers)
        head += " ; excl " + " ".join(map(str, excl))
    lines = ["alloc " + head] if want_alloc else []
    if alloc is not None:
        lines.append("validate " + head + " ; asg " + enc_assign(t, alloc))
    return lines


class NotUnrollable(Exception):
    pass


def unroll(prog: dict, alloc: dict[int, str]) -> tuple[dict, dict[int, str]]:
    """Loops with constant bounds (all generated loops: lb, ub, dynamic step are `li` constants) are
    replaced by their straight-line execution path, exactly as the lowered code runs:
    `iv = mv lb`; [compare iv, ub]; per iteration the body with fresh value ids, `iv' = iv + step`,
    [compare iv', ub].  Block arguments / results are not values of the unrolled program: they are
    the inits resp. the yielded values of the previous iteration (the lowering carries them by
    register identity — the tie of their registers is checked by the Python oracle).  Every copy of a
    value keeps the register of the original.  The result is a straight-line program on which the
    proved Lean validator is run."""
    consts: dict[int, int] = {}

    def collect(ops):
        for op in ops:
            if op["k"] == "li":
                consts[op["outs"][0][0]] = op["imm"]
            elif op["k"] == "for":
                collect(op["body"])

    collect(prog["ops"])
    nxt = [max(all_values(prog)) + 1 if all_values(prog) else 0]
    ualloc: dict[int, str] = {}
    upre_cls: dict[int, tuple[str, str | None]] = {}
    vals = all_values(prog)
    # a value that a loop-carried group ties to a pre-assigned block argument / result is pre-assigned
    # by the input as well (block arguments and results are no values of the unrolled program)
    forced = {v: r for v, r in canonical_alloc(prog).items() if not r.startswith(("virt", "multi:"))}

    def pre_of(orig: int) -> str | None:
        return vals[orig][1] or forced.get(orig)

    def fresh(orig: int) -> int:
        v = nxt[0]
        nxt[0] += 1
        ualloc[v] = alloc[orig]
        upre_cls[v] = vals[orig]
        return v

    budget = [4000]

    def block(ops, env) -> list[dict]:
        out: list[dict] = []
        for op in ops:
            budget[0] -= 1
            if budget[0] < 0:
                raise NotUnrollable("too large")
            if op["k"] == "for" and op.get("frep"):
                if op["rep"] not in consts:
                    raise NotUnrollable("repetition count is not a constant")
                out.append({"k": "_use", "ins": [env[op["rep"]]], "outs": [], "io": []})     # frep.o reads it
                carried = [env[i] for i in op["inits"]]
                if (consts[op["rep"]] & M32) + 1 > LOOP_FUEL:
                    raise NotUnrollable("too many iterations")
                for _ in range((consts[op["rep"]] & M32) + 1):
                    benv = dict(env)
                    for b, cv in zip(op["bargs"], carried):
                        benv[b[0]] = cv
                    out.extend(block(op["body"], benv))
                    carried = [benv[y] for y in op["yields"]]
                for r, cv in zip(op["res"], carried):
                    env[r[0]] = cv
            elif op["k"] == "for":
                for x in (op["lb"], op["ub"]):
                    if x not in consts:
                        raise NotUnrollable("bound is not a constant")
                step_dyn = isinstance(op["step"], dict)
                if step_dyn and op["step"]["v"] not in consts:
                    raise NotUnrollable("step is not a constant")
                lo, hi = _s(consts[op["lb"]] & M32, 32), _s(consts[op["ub"]] & M32, 32)
                st = consts[op["step"]["v"]] if step_dyn else op["step"]
                iv = fresh(op["iv"][0])
                out.append({"k": "mv", "ins": [env[op["lb"]]], "outs": [[iv, "i", pre_of(op["iv"][0])]], "io": []})
                out.append({"k": "_use", "ins": [iv, env[op["ub"]]], "outs": [], "io": []})
                carried = [env[i] for i in op["inits"]]
                cur, n = lo, 0
                while cur < hi:
                    n += 1
                    if n > LOOP_FUEL:
                        raise NotUnrollable("too many iterations")
                    benv = dict(env)
                    benv[op["iv"][0]] = iv
                    for b, cv in zip(op["bargs"], carried):
                        benv[b[0]] = cv
                    out.extend(block(op["body"], benv))
                    carried = [benv[y] for y in op["yields"]]
                    iv2 = fresh(op["iv"][0])
                    ins = [iv] + ([env[op["step"]["v"]]] if step_dyn else [])
                    out.append({"k": "add" if step_dyn else "addi", "imm": None if step_dyn else st, "ins": ins,
                                "outs": [[iv2, "i", pre_of(op["iv"][0])]], "io": []})
                    iv = iv2
                    out.append({"k": "_use", "ins": [iv, env[op["ub"]]], "outs": [], "io": []})
                    cur = _s((cur + st) & M32, 32)
                for r, cv in zip(op["res"], carried):
                    env[r[0]] = cv
            else:
                o2: dict[str, Any] = {"k": op["k"], "ins": [env[v] for v in op["ins"]], "outs": [], "io": []}
                if "imm" in op:
                    o2["imm"] = op["imm"]
                if "regs" in op:
                    o2["regs"] = list(op["regs"])
                for d in op["outs"]:
                    nv = fresh(d[0])
                    env[d[0]] = nv
                    o2["outs"].append([nv, d[1], pre_of(d[0])])
                out.append(o2)
        return out

    env: dict[int, int] = {}
    args = []
    for a in prog["args"]:
        nv = fresh(a[0])
        env[a[0]] = nv
        args.append([nv, a[1], pre_of(a[0])])
    ops = block(prog["ops"], env)
    up = {"target": prog["target"], "mode": prog.get("mode", "pass"), "pool": prog.get("pool"), "args": args,
          "ops": ops, "rets": [env[r] for r in prog["rets"]]}
    return up, ualloc


def fmt_model_alloc(t: str, alloc: dict[int, str]) -> str:
    return "alloc " + enc_assign(t, alloc)


# =============================================================================================
# Lean protocol for blocks with loops (driver model `regalloc_loop`): the structured-loop part of the
# allocator (ForRofOperation / FRepOperation.allocate_registers, live_ins_per_block, reservations), the
# validator for blocks with loops and the decidable in/out discipline
# =============================================================================================
_OP_CODE = {k: i + 3 for i, k in enumerate(sorted(set(RV_KINDS) | set(X86_KINDS) | {"pmov", "_use"}))}


def enc_tree(prog: dict, cls: str | None = None) -> str:
    """`args .. ; <item> ; .. ; ret ..` with `for .. ; <body items> ; end` for loops.  With `cls` the
    program is projected on the values of one register class: the register stacks of the classes are
    independent (RegisterStack keeps one pool per register_pool_key), so the allocation of one class is
    the allocation of the projected program."""
    t = prog["target"]
    vals = all_values(prog)

    def keep(v: int) -> bool:
        return cls is None or pool_cls(t, vals[v][0]) == cls

    def nums(vs) -> str:
        return " ".join(str(v) for v in vs if keep(v))

    def opt(key: str, v) -> str:
        return f" {key} {v}" if v is not None and keep(v) else ""

    parts = ["args " + nums(a[0] for a in prog["args"])]

    def block(ops):
        for op in ops:
            k = op["k"]
            if k == "for":
                step = op.get("step")
                idx = [i for i, b in enumerate(op["bargs"]) if keep(b[0])]
                s = "for" + opt("lb", op.get("lb")) + opt("ub", op.get("ub"))
                s += opt("st", step["v"] if isinstance(step, dict) else None)
                s += opt("iv", op["iv"][0] if op.get("iv") else None)
                s += opt("rep", op.get("rep") if op.get("frep") else None)
                s += f" imm {step if isinstance(step, int) else 0}"
                s += " in " + " ".join(str(op["inits"][i]) for i in idx)
                s += " ba " + " ".join(str(op["bargs"][i][0]) for i in idx)
                s += " yi " + " ".join(str(op["yields"][i]) for i in idx)
                s += " re " + " ".join(str(op["res"][i][0]) for i in idx)
                parts.append(" ".join(s.split()))
                block(op["body"])
                parts.append("end")
                continue
            if (k == "li" and op.get("imm") == 0) or k == "getzero":
                zk = 1
            elif k == "mv" and t == "riscv":
                zk = 2
            elif k == "pmov":
                zk = 3
            else:
                zk = 0
            s = f"op {zk} {_OP_CODE[k]} {op.get('imm') or 0} i " + nums(op["ins"])
            s += " o " + nums(d[0] for d in op["outs"])
            s += " p " + " ".join(f"{p[0]} {p[1][0]}" for p in op.get("io", []) if keep(p[0]))
            parts.append(" ".join(s.split()))

    block(prog["ops"])
    parts.append("ret " + nums(prog["rets"]))
    return " ; ".join(" ".join(p_.split()) for p_ in parts)


def _reg_cls(t: str, name: str) -> str:
    return FILE_CANON[t][reg_file(t, name)]


def loop_head(prog: dict, cls: str | None) -> str:
    """program + pre-assignment + pool + options (+ excluded registers) of one register class
    (cls None: the whole program, for the validator / the discipline)"""
    t = prog["target"]
    vals = all_values(prog)
    pre = {v: r for v, (c, r) in vals.items() if r is not None and (cls is None or pool_cls(t, c) == cls)}
    mode = prog.get("mode", "pass")
    c = cls or "i"
    if prog.get("pool") is not None:
        pool = [n for n in prog["pool"] if _reg_cls(t, n) == c]
    elif mode == "force_infinite":
        pool = []
    elif t == "riscv":
        pool = list(reversed(RV_POOL_I if c == "i" else RV_POOL_F))
    else:
        pool = list(reversed(X86_POOL if c == "i" else X86_VPOOL))
    inf = 1 if mode in ("allow_infinite", "force_infinite", "pool_infinite") else 0
    infbase = (1000 if c == "i" else 2000) if t == "riscv" else (3000 if c == "i" else 3500)
    zero = 1 if (t == "riscv" and c == "i") else 0
    head = (f"{enc_tree(prog, cls)} ; pre {enc_assign(t, pre)} ; pool {' '.join(str(reg_num(t, n)) for n in pool)}"
            f" ; opt {zero} {inf} {infbase}")
    excl = sorted(reg_num(t, r) for r in declared_reserved(prog) if cls is None or _reg_cls(t, r) == cls)
    if excl:
        head += " ; excl " + " ".join(map(str, excl))
    return head


def real_live_ins(func, ids_of: dict) -> list[list[int]] | None:
    """live_ins_per_block of the real allocator for every loop body, in the order in which the Lean model
    lists them (program order, a loop before the loops of its body), register values only"""
    from xdsl.backend.register_allocator import live_ins_per_block
    from xdsl.backend.register_type import RegisterType

    li = live_ins_per_block(func.body.block)
    out: list[list[int]] = []

    def block(b):
        for op in b.ops:
            if op.name in ("riscv_scf.for", "riscv_snitch.frep_outer"):
                body = op.body.block
                out.append([ids_of[id(v)] for v in li[body] if isinstance(v.type, RegisterType) and id(v) in ids_of])
                block(body)

    block(func.body.block)
    return out


LOOP_BATCH: list = []
LOOP_RAISES = ("raise:OutOfRegisters", "raise:DiagnosticException", "raise:AssertionError", "raise:ValueError")


def loop_leg_wanted(prog: dict) -> bool:
    """functions that the straight-line model `regalloc` does not cover: loops and / or float registers"""
    return not lean_supported(prog)


def flush_loops(ctx: core.Ctx) -> None:
    """(1) `Disciplined` (Lean, decidable) against the Python feasibility classification, on every case of
    both targets; (2) the Lean model of the structured allocator against the real allocator: the register
    of every value, and the kind of failure; (3) live_ins_per_block; (4) the Lean validator for blocks
    with loops on the real allocation."""
    if not LOOP_BATCH:
        return
    lines: list[str] = []
    plan: list[dict] = []
    for case, prog, res, accepted in LOOP_BATCH:
        e: dict[str, Any] = {"disc": len(lines)}
        lines.append("ldisc " + loop_head(prog, None))
        if loop_leg_wanted(prog) and (res["status"] == "ok" or res["status"] in LOOP_RAISES):
            classes = sorted({pool_cls(prog["target"], c) for c, _ in all_values(prog).values()} | {"i"})
            e["alloc"] = {}
            for c in classes:
                e["alloc"][c] = len(lines)
                lines.append("lalloc " + loop_head(prog, c))
            if has_loops(prog) and res.get("live_ins") is not None:
                e["livein"] = len(lines)
                lines.append("livein " + enc_tree(prog, None))
            if res["status"] == "ok" and accepted and has_loops(prog):
                e["validate"] = len(lines)
                lines.append("lvalidate " + loop_head(prog, None) + " ; asg " + enc_assign(prog["target"], res["alloc"]))
            if has_loops(prog):
                # the allocator theorem on the integer class: its decidable hypotheses, the discipline, and its claim
                e["thm"] = len(lines)
                lines.append("lthm " + loop_head(prog, "i"))
        plan.append(e)
    out = ctx.model("regalloc_loop", lines)
    for e, (case, prog, res, accepted) in zip(plan, LOOP_BATCH):
        t = prog["target"]
        # (1) the discipline
        want = "disciplined" if res.get("feasibility_nz") is None else "undisciplined"
        ctx.count("loops.disc_queries")
        if (res.get("feasibility") is None) != (res.get("feasibility_nz") is None):
            ctx.count("loops.disc.zero-carried-corner")          # only the fixpoint rule of the Python oracle accepts
        if out[e["disc"]] != want:
            ctx.mismatch("correspondence:C19/regalloc_loop(disciplined)", case, [want + " (" + str(res.get("feasibility_nz")) + ")"],
                         [out[e["disc"]]],
                         "the Lean predicate Disciplined and the Python feasibility classification disagree")
        elif has_loops(prog):
            ctx.count("loops.disc." + want)
        # (2) the allocator
        if "alloc" in e:
            ctx.count("loops.alloc_queries")
            got = {c: out[i] for c, i in e["alloc"].items()}
            vals = all_values(prog)
            if res["status"] == "ok":
                impl = {c: fmt_model_alloc(t, {v: r for v, r in res["alloc"].items() if pool_cls(t, vals[v][0]) == c})
                        for c in got}
                bad = {c for c in got if " ".join(got[c].split()) != " ".join(impl[c].split())}
                ctx.count("loops.alloc.ok")
            else:
                exc = res["status"].replace(":", " ")
                raised = [g for g in got.values() if g.startswith("raise ")]
                impl = {c: exc for c in got}
                bad = set() if raised and exc in raised else set(got)
                ctx.count("loops.alloc." + res["status"])
            if bad:
                ctx.mismatch("correspondence:C19/regalloc_loop(alloc)", case, [f"{c}: {impl[c]}" for c in sorted(got)],
                             [f"{c}: {got[c]}" for c in sorted(got)],
                             "the Lean model of the allocator for blocks with loops (allocT) chose differently from the "
                             "real allocator (register class(es) " + ",".join(sorted(bad)) + ")")
        # (3) live-ins
        if "livein" in e:
            impl_li = "livein " + " | ".join(" ".join(map(str, l)) for l in res["live_ins"])
            ctx.count("loops.livein_queries")
            if " ".join(impl_li.split()) != " ".join(out[e["livein"]].split()):
                ctx.mismatch("correspondence:C19/regalloc_loop(live_ins)", case, [impl_li], [out[e["livein"]]],
                             "live_ins_per_block differs from the Lean model liveIns (ordered)")
        # (5) the allocator theorem (alloc_loops_no_interference_partial): hypotheses + discipline => valid
        if "thm" in e:
            o = out[e["thm"]]
            ctx.count("loops.thm_queries")
            f = dict(kv.split("=") for kv in o.split()[1:]) if o.startswith("thm ") else {}
            if not f:
                ctx.mismatch("correspondence:C19/regalloc_loop(thm)", case, ["thm ..."], [o], "driver answer not understood")
            else:
                if f["hyps"] == "1":
                    ctx.count("loops.thm.hypotheses-hold")
                if f["hyps"] == "1" and f["disc"] == "1":
                    ctx.count("loops.thm.covered" + (".allocated" if f["alloc"] != "failed" else ".alloc-failed"))
                    if f["alloc"] == "INVALID":
                        ctx.mismatch("correspondence:C19/regalloc_loop(thm)", case, ["theorem: valid"], [o],
                                     "the model allocator's result is rejected by validateL although the hypotheses of "
                                     "alloc_loops_no_interference_partial hold (the proved theorem says this cannot happen)")
        # (4) the validator for blocks with loops
        if "validate" in e:
            zc_corner = zero_group_corner(prog, res["alloc"])
            ctx.count("loops.validate_queries" + (".zero-carried-corner" if zc_corner else ""))
            if out[e["validate"]] != "valid" and not zc_corner:
                ctx.mismatch("correspondence:C19/regalloc_loop(validate)", case, ["python-oracle: accepted"], [out[e["validate"]]],
                             "the Lean validator for blocks with loops (validateL) rejects a real allocation that the "
                             "Python oracle accepts")
    LOOP_BATCH.clear()


def zero_group_corner(prog: dict, alloc: dict[int, str]) -> bool:
    """a loop-bound value (induction variable, block argument, result) sits in `zero`: accepted by the
    Python oracle when its fixpoint rule shows the value to be the constant 0; the Lean validator for
    blocks with loops never takes a loop-bound value to be constant"""
    def block(ops):
        for op in ops:
            if op["k"] == "for":
                if any(alloc.get(v) in ("zero", "x0") for v in loop_bound(op) | {r[0] for r in op["res"]}):
                    return True
                if block(op["body"]):
                    return True
        return False

    return prog["target"] == "riscv" and block(prog["ops"])


# =============================================================================================
# Generators
# =============================================================================================
class Gen:
    def __init__(self, rng, target: str):
        self.rng = rng
        self.t = target
        self.next = 0
        self.preassigned: set[int] = set()
        # Snitch streaming: {"ports": stream registers in use, "depths": nesting depths at which
        # stream reads / writes are generated, "p": rate}
        self.streams: dict | None = None
        self.frep = 0.0          # rate of riscv_snitch.frep_outer loops (float-only bodies)

    def vid(self) -> int:
        self.next += 1
        return self.next - 1

    def pick(self, vals: list[int], recent_bias: float = 0.5) -> int:
        if self.rng.random() < recent_bias:
            return self.rng.choice(vals[-3:])
        return self.rng.choice(vals)


def gen_riscv_block(g: Gen, avail_i: list[int], avail_f: list[int], n_ops: int, depth: int, loops: bool,
                    dirty: bool, floats: bool, local: list[int] | None = None) -> list[dict]:
    """append n_ops random ops; avail_* are mutated (new values appended, consumed loop inits removed).
    `local` lists values defined in the current block (candidates for disciplined loop inits)."""
    rng = g.rng
    ops: list[dict] = []
    if local is None:
        local = list(avail_i)
    ikinds = ["li", "mv", "add", "sub", "mul", "and", "or", "xor", "slt", "sltu", "addi", "andi", "ori", "xori"]
    for _ in range(n_ops):
        r = rng.random()
        st = g.streams
        if st is not None and depth in st["depths"] and rng.random() < st["p"]:
            new_ops = gen_stream_access(g, avail_i, avail_f)
            for o in new_ops:
                for d in o["outs"]:
                    local.append(d[0])
            ops.extend(new_ops)
            continue
        if g.frep and floats and rng.random() < g.frep and (avail_f or avail_i):
            new_ops = gen_frep(g, avail_i, avail_f, depth, local)
            ops.extend(new_ops)
            for d in new_ops[-1]["res"]:
                avail_f.append(d[0])
                local.append(d[0])
            continue
        if loops and depth < 2 and r < 0.18 and avail_i:
            ops.append(gen_riscv_loop(g, avail_i, avail_f, depth, dirty, floats, local))
            for d in ops[-1]["res"]:
                (avail_i if d[1] == "i" else avail_f).append(d[0])
                local.append(d[0])
            continue
        if floats and r > 0.8:
            if not avail_f or rng.random() < 0.3:
                if not avail_i:
                    continue
                k, ins = "fcvt.s.w", [g.pick(avail_i)]
            else:
                k = rng.choice(["fadd.s", "fmul.s", "fsub.s", "fmv.s", "fcvt.w.s"])
                ins = [g.pick(avail_f) for _ in RV_KINDS[k][0]]
        elif rng.random() < 0.06 and len(avail_i) >= 2:
            n = rng.randint(1, min(3, len(avail_i)))
            ins = [g.pick(avail_i, 0.3) for _ in range(n)]
            outs = [[g.vid(), "i", None] for _ in range(n)]
            ops.append({"k": "pmov", "ins": ins, "outs": outs, "io": []})
            avail_i.extend(o[0] for o in outs)
            local.extend(o[0] for o in outs)
            continue
        else:
            k = rng.choice(ikinds)
            if not avail_i and RV_KINDS[k][0]:
                k = "li"
            if rng.random() < 0.02:
                k = "getzero"
            ins = [g.pick(avail_i, rng.choice([0.2, 0.8])) for _ in RV_KINDS[k][0]]
        op: dict[str, Any] = {"k": k, "ins": ins, "outs": [[g.vid(), RV_KINDS[k][1], "zero" if k == "getzero" else None]], "io": []}
        if k == "getzero":
            g.preassigned.add(op["outs"][0][0])
        if RV_KINDS[k][3]:
            op["imm"] = rng.choice([0, 0, 1, 2, 5, 7, -1, 100, -2048, 2047]) if k != "li" else rng.choice([0, 0, 1, 3, 7, -1, 123456, 2 ** 31 - 1])
        ops.append(op)
        o = op["outs"][0]
        (avail_i if o[1] == "i" else avail_f).append(o[0])
        local.append(o[0])
    return ops


def gen_stream_access(g: Gen, avail_i: list[int], avail_f: list[int], float_only: bool = False) -> list[dict]:
    """One Snitch stream access as the snitch lowering produces it: a value read from a stream sits in
    the stream's register (ft0..ft2) and is consumed at once; a written value is computed into the
    stream's register right before the write.  The ports in use are fixed per function."""
    rng = g.rng
    ports = g.streams["ports"]
    ops: list[dict] = []

    def fval() -> int:
        if avail_f and (float_only or rng.random() < 0.8):
            return g.pick(avail_f)
        v = g.vid()
        if avail_i:
            ops.append({"k": "fcvt.s.w", "ins": [g.pick(avail_i)], "outs": [[v, "f", None]], "io": []})
        else:
            c = g.vid()
            ops.append({"k": "li", "imm": rng.randint(1, 9), "ins": [], "outs": [[c, "i", None]], "io": []})
            avail_i.append(c)
            ops.append({"k": "fcvt.s.w", "ins": [c], "outs": [[v, "f", None]], "io": []})
        avail_f.append(v)
        return v

    what = rng.choice(["read", "read", "read2", "write", "read-write"])
    srcs: list[int] = []
    if what != "write":
        for port in rng.sample(ports, min(len(ports), 2 if what == "read2" else 1)):
            x = g.vid()
            ops.append({"k": "sread", "ins": [], "outs": [[x, "f", port]], "io": []})
            g.preassigned.add(x)
            srcs.append(x)
        if rng.random() < 0.08:
            avail_f.append(srcs[0])        # (rarely) kept around: a long live range in a stream register
    a = srcs[0] if srcs else fval()
    b = srcs[1] if len(srcs) > 1 else fval()
    k = rng.choice(["fadd.s", "fmul.s", "fsub.s"])
    y = g.vid()
    if what in ("write", "read-write"):
        ops.append({"k": k, "ins": [a, b], "outs": [[y, "f", rng.choice(ports)]], "io": []})
        g.preassigned.add(y)
        ops.append({"k": "swrite", "ins": [y], "outs": [], "io": []})
    else:
        ops.append({"k": k, "ins": [a, b], "outs": [[y, "f", None]], "io": []})
        avail_f.append(y)
    return ops


def gen_frep(g: Gen, avail_i: list[int], avail_f: list[int], depth: int, local: list[int]) -> list[dict]:
    """`riscv_snitch.frep_outer %rep iter_args(..)`: a hardware loop whose body may only contain FPU
    instructions and stream accesses — the place where Snitch kernels read and write their streams.
    Loop-carried floats follow the in/out discipline (inits are consumed, fresh yields are defined at
    the end of the body)."""
    rng = g.rng
    out: list[dict] = []
    if not avail_f:
        v = g.vid()
        out.append({"k": "fcvt.s.w", "ins": [g.pick(avail_i)], "outs": [[v, "f", None]], "io": []})
        avail_f.append(v)
        local.append(v)
    cand = [v for v in local if v in avail_f and v not in g.preassigned]
    inits: list[int] = []
    for _ in range(rng.randint(0, 2)):
        if cand:
            v = rng.choice(cand)
            cand.remove(v)
            inits.append(v)
    for v in inits:
        avail_f.remove(v)
        local.remove(v)
    bargs = [[g.vid(), "f", None] for _ in inits]
    barg_ids = [b[0] for b in bargs]
    inner_f = list(avail_f) + barg_ids
    body: list[dict] = []
    st = g.streams
    for _ in range(rng.randint(0, 4)):
        if st is not None and (depth + 1) in st["depths"] and rng.random() < max(st["p"], 0.4):
            body.extend(gen_stream_access(g, [], inner_f, float_only=True))
            continue
        k = rng.choice(["fadd.s", "fmul.s", "fsub.s", "fmv.s"])
        z = g.vid()
        body.append({"k": k, "ins": [g.pick(inner_f) for _ in RV_KINDS[k][0]], "outs": [[z, "f", None]], "io": []})
        inner_f.append(z)
    yields: list[int] = []
    for kidx, b in enumerate(bargs):
        if rng.random() < 0.25:
            yields.append(b[0])
            continue
        later = barg_ids[kidx:]
        srcs = [v for v in inner_f if v not in barg_ids[:kidx] and (v in later or v not in barg_ids) and v not in yields]
        k = rng.choice(["fadd.s", "fmul.s", "fmv.s"])
        z = g.vid()
        body.append({"k": k, "ins": [rng.choice([b[0]] + srcs) for _ in RV_KINDS[k][0]], "outs": [[z, "f", None]], "io": []})
        inner_f.append(z)
        yields.append(z)
    out.append({"k": "for", "frep": True, "rep": None, "iv": None, "inits": inits, "bargs": bargs, "body": body,
                "yields": yields, "res": [[g.vid(), "f", None] for _ in inits]})
    return out


def gen_riscv_loop(g: Gen, avail_i: list[int], avail_f: list[int], depth: int, dirty: bool, floats: bool,
                   local: list[int]) -> dict:
    rng = g.rng
    pre_ops: list[dict] = []
    # bounds: small constants so that loops terminate; kept in registers like real code
    lb = g.pick(avail_i) if (dirty and rng.random() < 0.3) else None
    loop: dict[str, Any] = {"k": "for"}
    n_iter = rng.randint(0, 3)
    cand = [v for v in local if v in avail_i and v not in g.preassigned]
    free_i = [v for v in avail_i if v not in g.preassigned]
    inits: list[int] = []
    for _ in range(n_iter):
        if dirty and rng.random() < 0.5 and free_i:
            inits.append(g.pick(free_i))
        elif cand:
            v = rng.choice(cand)
            cand.remove(v)
            inits.append(v)
    if not dirty:
        for v in inits:            # consumed: the loop is the last use
            if v in avail_i:
                avail_i.remove(v)
            if v in local:
                local.remove(v)
    loop["inits"] = inits
    loop["_pre"] = pre_ops
    iv = g.vid()
    bargs = [[g.vid(), "i", None] for _ in inits]
    loop["iv"] = [iv, "i", None]
    loop["bargs"] = bargs
    inner_i = list(avail_i) + [iv] + [b[0] for b in bargs]
    inner_f = list(avail_f)
    inner_local = [b[0] for b in bargs]      # (the induction variable is live throughout: never consumed)
    body = gen_riscv_block(g, inner_i, inner_f, rng.randint(0, 4), depth + 1, True, dirty, floats, inner_local)
    yields: list[int] = []
    body_vals = [v for v in inner_local if v != iv and v not in [b[0] for b in bargs]]
    for kidx, b in enumerate(bargs):
        if dirty:
            choice = rng.choice([b[0]] + [bb[0] for bb in bargs] + body_vals + (avail_i[-2:] if avail_i else []))
            yields.append(choice)
            continue
        if rng.random() < 0.25:
            yields.append(b[0])     # pass-through
            continue
        # fresh value defined at the end of the body, reading only values that may still be read here
        later_bargs = [bb[0] for bb in bargs[kidx:]]
        srcs = [v for v in inner_i if v not in [bb[0] for bb in bargs[:kidx]] and (v in later_bargs or v not in [bb[0] for bb in bargs])]
        srcs = [v for v in srcs if v not in yields]
        k = rng.choice(["add", "sub", "xor", "addi", "mv", "mul"])
        ins = [rng.choice([b[0]] + srcs) for _ in RV_KINDS[k][0]]
        z = g.vid()
        op: dict[str, Any] = {"k": k, "ins": ins, "outs": [[z, "i", None]], "io": []}
        if RV_KINDS[k][3]:
            op["imm"] = rng.choice([1, 2, -1, 7])
        body.append(op)
        inner_i.append(z)
        yields.append(z)
    loop["body"] = body
    loop["yields"] = yields
    loop["res"] = [[g.vid(), "i", None] for _ in inits]
    return loop


def finish_loops(g: Gen, ops: list[dict], avail_i: list[int], hoist: list[dict] | None = None) -> list[dict]:
    """materialise the bounds of every loop as `li` constants (lb, ub, dynamic step): right before the
    loop, or — for a loop nested in another one, half of the time — before the OUTERMOST enclosing loop,
    so that the operands of the inner loop op are defined outside the outer loop and have to survive
    all of its iterations although nothing but the inner loop op itself reads them."""
    rng = g.rng
    out: list[dict] = []
    for op in ops:
        if op["k"] == "for":
            op.pop("_pre", None)
            inner_hoist: list[dict] = [] if hoist is None else hoist
            op["body"] = finish_loops(g, op["body"], avail_i, inner_hoist)
            if hoist is None:
                out.extend(inner_hoist)          # bounds of nested loops hoisted to here
            if op.get("frep"):
                rv = g.vid()
                o = {"k": "li", "imm": rng.choice([0, 1, 1, 2, 3]), "ins": [], "outs": [[rv, "i", None]], "io": []}
                (hoist if hoist is not None and rng.random() < 0.5 else out).append(o)
                op["rep"] = rv
                out.append(op)
                continue
            lo = rng.choice([0, 0, 1, 2, -1])
            hi = lo + rng.choice([0, 1, 2, 3, 4])
            lbv, ubv = g.vid(), g.vid()
            pre: list[dict] = []

            def emit(o, pre=pre):
                # each bound independently: local to the loop, or hoisted out of the outer loop
                (hoist if hoist is not None and rng.random() < 0.5 else pre).append(o)

            emit({"k": "li", "imm": lo, "ins": [], "outs": [[lbv, "i", None]], "io": []})
            emit({"k": "li", "imm": hi, "ins": [], "outs": [[ubv, "i", None]], "io": []})
            op["lb"], op["ub"] = lbv, ubv
            if rng.random() < 0.3:
                sv = g.vid()
                emit({"k": "li", "imm": rng.choice([1, 2, 3]), "ins": [], "outs": [[sv, "i", None]], "io": []})
                op["step"] = {"v": sv}
            else:
                op["step"] = rng.choice([1, 1, 2, 3])
            out.extend(pre)
        out.append(op)
    return out


def gen_riscv_nested(rng) -> dict:
    """Two nested riscv_scf.for loops.  Operands of the INNER loop op (upper bound, lower bound, dynamic
    step) are computed before the OUTER loop, possibly from the arguments (symbolic trip counts), and are
    read by nothing but the inner loop op; the outer body defines temporaries before and after the
    inner loop.  The outer loop runs at least twice for every input, so a temporary that takes the
    register of an inner bound changes the trip count of the inner loop in the next outer iteration."""
    g = Gen(rng, "riscv")
    nargs = rng.randint(1, 3)
    args = [[g.vid(), "i", f"a{i}"] for i in range(nargs)]
    ops: list[dict] = []

    def emit(lst, k, ins, imm=None, pre=None):
        v = g.vid()
        o: dict[str, Any] = {"k": k, "ins": list(ins), "outs": [[v, "i", pre]], "io": []}
        if imm is not None:
            o["imm"] = imm
        lst.append(o)
        return v

    srcs = [emit(ops, "mv", [a[0]]) for a in args] if rng.random() < 0.6 else [a[0] for a in args]

    def small(lst, lo, mask):
        """a value in lo .. lo+mask that depends on an argument (or a constant)"""
        if rng.random() < 0.35:
            return emit(lst, "li", [], rng.randint(lo, lo + mask))
        x = emit(lst, "andi", [rng.choice(srcs)], mask)
        return emit(lst, "addi", [x], lo) if lo else x

    # values that must survive the whole outer loop: operands of the inner loop op only
    in_lb = emit(ops, "li", [], rng.choice([0, 0, 1])) if rng.random() < 0.7 else None
    in_ub = small(ops, rng.choice([1, 2]), 3) if rng.random() < 0.85 else None
    in_step = emit(ops, "li", [], rng.choice([1, 2])) if rng.random() < 0.4 else None
    extra_outer = [emit(ops, rng.choice(["addi", "xori"]), [rng.choice(srcs)], rng.randint(1, 9))
                   for _ in range(rng.randint(0, 2))]
    # outer loop: at least two iterations for every input
    out_lb = emit(ops, "li", [], rng.choice([0, 1]))
    base = 2 + rng.choice([0, 1])
    if rng.random() < 0.5:
        out_ub_raw = emit(ops, "andi", [rng.choice(srcs)], 1)
        out_ub = emit(ops, "addi", [out_ub_raw], base + 1)      # lb <= 1, ub >= 3
    else:
        out_ub = emit(ops, "li", [], base + 1)
    out_step: Any = 1
    if rng.random() < 0.3:
        out_step = {"v": emit(ops, "li", [], 1)}
    n_acc = rng.randint(1, 2)
    acc_inits = [emit(ops, "li", [], rng.randint(1, 9)) for _ in range(n_acc)]
    oiv = g.vid()
    obargs = [[g.vid(), "i", None] for _ in acc_inits]
    body: list[dict] = []
    tb: list[int] = []
    for _ in range(rng.randint(0, 3)):
        k = rng.choice(["li", "addi", "add"])
        if k == "li":
            tb.append(emit(body, "li", [], rng.randint(1, 50)))
        elif k == "addi":
            tb.append(emit(body, "addi", [rng.choice([oiv] + tb + [b[0] for b in obargs])], rng.randint(1, 5)))
        else:
            tb.append(emit(body, "add", [rng.choice([oiv] + tb), rng.choice([b[0] for b in obargs] + extra_outer + tb)]))
    # inner loop
    i_lb = in_lb if in_lb is not None else emit(body, "li", [], 0)
    i_ub = in_ub if in_ub is not None else emit(body, "li", [], rng.randint(1, 3))
    c = emit(body, "li", [], rng.randint(0, 3))
    jv = g.vid()
    ia = [g.vid(), "i", None]
    ibody: list[dict] = []
    n1 = emit(ibody, "add", [ia[0], jv])
    cur = n1
    for _ in range(rng.randint(0, 2)):
        k = rng.choice(["add", "xor", "addi"])
        if k == "addi":
            cur = emit(ibody, "addi", [cur], rng.randint(1, 7))
        else:
            cur = emit(ibody, k, [cur, rng.choice(tb + extra_outer + [oiv, jv])])
    ires = [g.vid(), "i", None]
    inner = {"k": "for", "lb": i_lb, "ub": i_ub, "step": ({"v": in_step} if in_step is not None else rng.choice([1, 1, 2])),
             "inits": [c], "iv": [jv, "i", None], "bargs": [ia], "body": ibody, "yields": [cur], "res": [ires]}
    body.append(inner)
    # temporaries after the inner loop
    ta: list[int] = []
    for _ in range(rng.randint(1, 5)):
        ta.append(emit(body, "li", [], rng.randint(2, 90)) if rng.random() < 0.6
                  else emit(body, "addi", [rng.choice([oiv, ires[0]] + ta)], rng.randint(1, 9)))
    val = ires[0]
    pool_vals = ta + tb
    rng.shuffle(pool_vals)
    for t in pool_vals:
        val = emit(body, rng.choice(["add", "xor", "sub"]), [val, t])
    yields = []
    for k, b in enumerate(obargs):
        if k == 0:
            yields.append(emit(body, "add", [b[0], val]))
        else:
            yields.append(emit(body, rng.choice(["addi", "xori"]), [b[0]], rng.randint(1, 5)))
    ores = [[g.vid(), "i", None] for _ in acc_inits]
    ops.append({"k": "for", "lb": out_lb, "ub": out_ub, "step": out_step, "inits": acc_inits, "iv": [oiv, "i", None],
                "bargs": obargs, "body": body, "yields": yields, "res": ores})
    rets = []
    if rng.random() < 0.5:
        rets = [emit(ops, "mv", [ores[0][0]], pre="a0")]
        if len(ores) > 1:
            rets.append(emit(ops, "mv", [ores[1][0]], pre="a1"))
    else:
        rets = [r[0] for r in ores]
    return {"target": "riscv", "mode": "pass", "pool": None, "args": args, "ops": ops, "rets": rets}


def gen_riscv(rng, size: int, loops: bool, dirty: bool, floats: bool, streams: dict | None = None) -> dict:
    g = Gen(rng, "riscv")
    g.streams = streams
    g.frep = 0.12 if streams is not None else (0.04 if floats and loops and not dirty else 0.0)
    nargs = rng.randint(0, 4)
    args = [[g.vid(), "i", f"a{i}"] for i in range(nargs)]
    avail_i = [a[0] for a in args]
    g.preassigned = {a[0] for a in args}
    avail_f: list[int] = []
    ops: list[dict] = []
    if rng.random() < 0.5:
        # realistic prologue: move arguments out of the a-registers
        for a in list(args):
            v = g.vid()
            ops.append({"k": "mv", "ins": [a[0]], "outs": [[v, "i", None]], "io": []})
            avail_i.append(v)
    ops += gen_riscv_block(g, avail_i, avail_f, size, 0, loops, dirty, floats)
    ops = finish_loops(g, ops, avail_i)
    if not avail_i:
        v = g.vid()
        ops.append({"k": "li", "imm": 5, "ins": [], "outs": [[v, "i", None]], "io": []})
        avail_i.append(v)
    # results
    rets: list[int] = []
    nret = rng.randint(1, 3)
    style = rng.random()
    for i in range(nret):
        src = g.pick(avail_i, 0.6)
        if style < 0.5 and not dirty:
            v = g.vid()
            ops.append({"k": "mv", "ins": [src], "outs": [[v, "i", f"a{i}"]], "io": []})
            rets.append(v)
        elif src not in rets:
            rets.append(src)
    case = {"target": "riscv", "mode": "pass", "pool": None, "args": args, "ops": ops, "rets": rets}
    if not dirty and feasibility(case) is not None:
        # result moves into a-registers while arguments are still live there: return unallocated values
        for op in ops:
            if op["k"] == "mv" and op["outs"][0][0] in rets:
                op["outs"][0][2] = None
    return case


def gen_fan(rng, target: str, k: int, pre: bool) -> dict:
    """k values defined first, then all consumed: exactly k (+ accumulator) simultaneously live"""
    g = Gen(rng, target)
    if target == "riscv":
        args = [[g.vid(), "i", "a0"]]
        ops: list[dict] = []
        vals = []
        for i in range(k):
            v = g.vid()
            if rng.random() < 0.5:
                ops.append({"k": "addi", "imm": i + 1, "ins": [args[0][0]], "outs": [[v, "i", None]], "io": []})
            else:
                ops.append({"k": "li", "imm": rng.choice([0, i + 1]), "ins": [], "outs": [[v, "i", None]], "io": []})
            vals.append(v)
        order = list(vals)
        rng.shuffle(order)
        acc = order[0]
        for v in order[1:]:
            n = g.vid()
            ops.append({"k": rng.choice(["add", "xor", "sub"]), "ins": [acc, v], "outs": [[n, "i", None]], "io": []})
            acc = n
        r = g.vid()
        ops.append({"k": "mv", "ins": [acc], "outs": [[r, "i", "a0"]], "io": []})
        return {"target": "riscv", "mode": "pass", "pool": None, "args": args, "ops": ops, "rets": [r]}
    if target == "x86v":
        # k vector values of mixed widths, all loaded first, then all stored: exactly k simultaneously live
        # values in the ONE vector register file
        p_ = g.vid()
        args = [[p_, "i", "rdi"]]
        ops = []
        vs = []
        for i in range(k):
            v = g.vid()
            c = rng.choice(["x", "y", "y", "z", "z"])
            ops.append({"k": "dm.vmovupd", "imm": 64 * i, "ins": [p_], "outs": [[v, c, None]], "io": []})
            vs.append(v)
        rng.shuffle(vs)
        for i, v in enumerate(vs):
            ops.append({"k": "ms.vmovupd", "imm": 64 * (k + i), "ins": [p_, v], "outs": [], "io": []})
        return {"target": "x86", "mode": "pass", "pool": None, "args": args, "ops": ops, "rets": [], "ret_regs": []}
    args = [[g.vid(), "i", "rdi"]]
    ops = []
    vals = []
    for i in range(k):
        v = g.vid()
        if rng.random() < 0.5:
            ops.append({"k": "dsi.imul", "imm": i + 2, "ins": [args[0][0]], "outs": [[v, "i", None]], "io": []})
        else:
            ops.append({"k": "di.mov", "imm": i + 1, "ins": [], "outs": [[v, "i", None]], "io": []})
        vals.append(v)
    order = list(vals)
    rng.shuffle(order)
    acc = order[0]
    for v in order[1:]:
        n = g.vid()
        ops.append({"k": rng.choice(["rs.add", "rs.xor", "rs.sub"]), "ins": [v], "outs": [], "io": [[acc, [n, "i", None]]]})
        acc = n
    r = g.vid()
    ops.append({"k": "ds.mov", "ins": [acc], "outs": [[r, "i", "rax"]], "io": []})
    return {"target": "x86", "mode": "pass", "pool": None, "args": args, "ops": ops, "rets": [r], "ret_regs": ["rax"]}


def gen_x86_vec(rng, size: int, disciplined: bool) -> dict:
    """x86 functions over the vector register file: values of the 128 / 256 / 512-bit classes (xmm / ymm / zmm
    names of ONE physical file) that are live at the same time — loaded from memory or broadcast from a
    general-purpose register, combined by three-address and in/out (fma) instructions of their own width, moved
    (also across widths), and finally stored, which keeps several of them live to the end.  Observable
    result: the sequence of stores."""
    g = Gen(rng, "x86")
    p = g.vid()
    args = [[p, "i", "rdi"]]
    ops: list[dict] = []
    cls_of: dict[int, str] = {p: "i"}
    gpr = [p]
    vec: list[int] = []
    widths = rng.choice([("y", "z"), ("y", "z"), ("x", "y", "z"), ("x", "z"), ("x", "y"), ("z",), ("y",)])
    off = [0]

    def newv(c: str) -> int:
        v = g.vid()
        cls_of[v] = c
        return v

    def load(c: str) -> int:
        v = newv(c)
        if rng.random() < 0.75:
            ops.append({"k": rng.choice(["dm.vmovupd", "dm.vmovapd"]), "imm": off[0], "ins": [rng.choice(gpr)],
                        "outs": [[v, c, None]], "io": []})
            off[0] += 64
        else:
            ops.append({"k": rng.choice(["ds.vpbroadcastq", "ds.vpbroadcastd"]), "ins": [rng.choice(gpr)],
                        "outs": [[v, c, None]], "io": []})
        vec.append(v)
        return v

    for _ in range(size):
        r = rng.random()
        c = rng.choice(widths)
        same = [v for v in vec if cls_of[v] == c]
        if r < 0.30 or not same:
            load(c)
        elif r < 0.58:
            v = newv(c)
            ops.append({"k": rng.choice(["dss.vaddpd", "dss.vaddps", "dss.vpxorq", "dss.vxorpd"]),
                        "ins": [g.pick(same, 0.4), g.pick(same, 0.4)], "outs": [[v, c, None]], "io": []})
            vec.append(v)
        elif r < 0.70:
            src = g.pick(vec, 0.4) if rng.random() < 0.3 else g.pick(same, 0.4)      # 30%: across widths
            v = newv(c)
            ops.append({"k": rng.choice(["ds.vmovapd", "ds.vmovaps"]), "ins": [src], "outs": [[v, c, None]], "io": []})
            vec.append(v)
        elif r < 0.90:
            x = g.pick(same, 0.6)
            if disciplined:
                vec.remove(x)
                same.remove(x)
            if not same:
                same = [load(c)]
            v = newv(c)
            ops.append({"k": rng.choice(["rss.vfmadd231pd", "rss.vfmadd231ps"]),
                        "ins": [g.pick(same, 0.4), g.pick(same, 0.4)], "outs": [], "io": [[x, [v, c, None]]]})
            vec.append(v)
        else:
            q = g.vid()
            cls_of[q] = "i"
            if rng.random() < 0.5:
                ops.append({"k": "ds.mov", "ins": [rng.choice(gpr)], "outs": [[q, "i", None]], "io": []})
            else:
                ops.append({"k": "di.mov", "imm": rng.choice([8, 64, 4096]), "ins": [], "outs": [[q, "i", None]], "io": []})
            gpr.append(q)
    if not vec:
        load(rng.choice(widths))
    out = [v for v in vec if rng.random() < 0.7] or [vec[-1]]
    rng.shuffle(out)
    for v in out[:10]:
        ops.append({"k": rng.choice(["ms.vmovupd", "ms.vmovapd"]), "imm": off[0], "ins": [rng.choice(gpr), v],
                    "outs": [], "io": []})
        off[0] += 64
    return {"target": "x86", "mode": "pass", "pool": None, "args": args, "ops": ops, "rets": [], "ret_regs": []}


def gen_x86(rng, size: int, disciplined: bool, widths: bool = False) -> dict:
    """`widths`: values of the 32 / 16 / 8-bit classes as well (eax / ax / al ... are views of rax ...)"""
    case = gen_x86_64(rng, size, disciplined)
    if not widths:
        return case
    # re-class values: an in/out pair keeps one class (it is one register operand of one instruction)
    cls: dict[int, str] = {}
    keep = {a[0] for a in case["args"]} | set(case["rets"])
    for op in case["ops"]:
        for d in op["outs"]:
            if d[0] not in keep and d[2] is None:
                cls[d[0]] = rng.choice(["i", "i", "d", "d", "w", "b"])
                d[1] = cls[d[0]]
        for pr in op.get("io", []):
            c = cls.get(pr[0])
            if c is not None and pr[1][2] is None and pr[1][0] not in keep:
                cls[pr[1][0]] = c
                pr[1][1] = c
    return case


def gen_x86_64(rng, size: int, disciplined: bool) -> dict:
    g = Gen(rng, "x86")
    nargs = rng.randint(0, 3)
    argregs = ["rdi", "rsi", "rdx"]
    args = [[g.vid(), "i", argregs[i]] for i in range(nargs)]
    avail = [a[0] for a in args]
    ops: list[dict] = []
    if rng.random() < 0.6:
        for a in list(args):
            v = g.vid()
            ops.append({"k": "ds.mov", "ins": [a[0]], "outs": [[v, "i", None]], "io": []})
            avail.append(v)
    kinds = [k for k in X86_KINDS if k != "resv" and k not in X86_VEC_KINDS and k not in X86_MEM_KINDS]
    # future uses are unknown while generating forwards: for disciplined programs an in/out operand is
    # consumed (removed from the available list) by the instruction
    for _ in range(size):
        k = rng.choice(kinds)
        ins_c, outs_c, n_io, has_imm = X86_KINDS[k]
        if (ins_c or n_io) and not avail:
            k = "di.mov"
            ins_c, outs_c, n_io, has_imm = X86_KINDS[k]
        op: dict[str, Any] = {"k": k, "ins": [], "outs": [], "io": []}
        if n_io:
            cands = [v for v in avail if v not in [a[0] for a in args]] or avail
            x = g.pick(cands, 0.6)
            if disciplined:
                avail.remove(x)
            n = g.vid()
            op["io"] = [[x, [n, "i", None]]]
            if ins_c:
                if not avail:
                    avail.append(x)  # only value around: use it as source too (add r, r)
                    op["ins"] = [x]
                    avail.remove(x)
                else:
                    op["ins"] = [g.pick(avail, 0.4)]
            avail.append(n)
        else:
            op["ins"] = [g.pick(avail, 0.4) for _ in ins_c]
            n = g.vid()
            op["outs"] = [[n, "i", None]]
            avail.append(n)
        if has_imm:
            op["imm"] = rng.choice([0, 1, 2, -1, 7, 1000, -12345])
        ops.append(op)
    if not avail:
        v = g.vid()
        ops.append({"k": "di.mov", "imm": 9, "ins": [], "outs": [[v, "i", None]], "io": []})
        avail.append(v)
    ret_regs = ["rax", "rdx"][: rng.randint(1, 2)]
    srcs = [g.pick(avail, 0.6) for _ in ret_regs]
    rets = []
    for rr, s in zip(ret_regs, srcs):
        v = g.vid()
        ops.append({"k": "ds.mov", "ins": [s], "outs": [[v, "i", rr]], "io": []})
        rets.append(v)
    return {"target": "x86", "mode": "pass", "pool": None, "args": args, "ops": ops, "rets": rets,
            "ret_regs": ret_regs}


def add_preassignment(rng, case: dict, rate: float) -> None:
    """pre-assign some values to concrete registers such that the input itself stays feasible"""
    t = case["target"]
    names = (RV_POOL_I + ["s0", "s1", "s2"]) if t == "riscv" else (X86_POOL + ["r12"])
    fnames = RV_POOL_F + ["fs0"]
    vnames = X86_VEC[:6] + X86_VEC[:6] + X86_VEC          # mostly the registers the stack hands out first

    def choose(d, tied: bool = False) -> str:
        """a physical register of the file of d's class, spelled as a value of that class spells it
        (x86: eax for a 32-bit value, ymm3 for a 256-bit one; riscv: sometimes the numeric spelling x5 / f10
        of values that no tie forces to agree textually with another pre-assigned value)"""
        file = cls_file(t, d[1])
        r = rng.choice({"x": names, "g": names, "f": fnames, "v": vnames}[file])
        r = spell(t, d[1], r)
        if t == "riscv" and not tied and rng.random() < 0.2:
            r = ("x" if file == "x" else "f") + str((RV_INT if file == "x" else RV_FLT).index(r))
        return r

    def defs(ops):
        for op in ops:
            if op["k"] == "for":
                yield from defs(op["body"])
                for d in op["res"]:
                    yield d
                if op.get("iv"):
                    yield op["iv"]
                for b in op["bargs"]:
                    yield b
            else:
                for d in op_defs(op):
                    yield d

    # loop-carried groups (init, block argument, yield operand) must have one type before
    # allocation already (riscv_scf.for verifier): pre-assign them as a whole or not at all
    by_id = {d[0]: d for d in defs(case["ops"])}
    for a in case["args"]:
        by_id[a[0]] = a
    grouped: set[int] = set()

    def loops(ops):
        for op in ops:
            if op["k"] == "for":
                yield op
                yield from loops(op["body"])

    for lp in loops(case["ops"]):
        for k in range(len(lp["inits"])):
            grp = [lp["inits"][k], lp["bargs"][k][0], lp["yields"][k]]
            grouped.update(grp)
    for lp in loops(case["ops"]):
        for k in range(len(lp["inits"])):
            if rng.random() < rate:
                grp = [by_id[lp["inits"][k]], lp["bargs"][k], by_id[lp["yields"][k]], lp["res"][k]]
                if any(d[2] is not None for d in grp):
                    continue
                r = choose(lp["bargs"][k], tied=True)
                for d in grp:
                    d[2] = r
                if feasibility(case) is not None:
                    for d in grp:
                        d[2] = None
    tied = set(grouped)
    for lp in loops(case["ops"]):
        tied.update(r[0] for r in lp["res"])
    for d in list(defs(case["ops"])):
        if d[0] in grouped:
            continue
        if d[2] is None and rng.random() < rate:
            d[2] = choose(d, tied=d[0] in tied)
            if feasibility(case) is not None:
                d[2] = None


def restrict_pool(rng, case: dict) -> None:
    t = case["target"]
    base = RV_POOL_I if t == "riscv" else X86_POOL
    k = rng.randint(1, 8)
    pool = rng.sample(base, min(k, len(base)))
    classes = {c for c, _ in all_values(case).values()}
    if t == "riscv" and "f" in classes:
        pool += rng.sample(RV_POOL_F, rng.randint(1, 4))
    if t == "x86" and classes & set(X86_VCLS):
        pool += rng.sample(X86_VEC[:8] if rng.random() < 0.7 else X86_VEC, rng.randint(1, 6))
    if rng.random() < 0.3:
        # the pool is a set of physical registers: any spelling of a register puts that register into it
        if t == "riscv":
            pool = [(("x" if n in RV_INT else "f") + str((RV_INT if n in RV_INT else RV_FLT).index(n)))
                    if rng.random() < 0.4 else n for n in pool]
        else:
            pool = [spell(t, rng.choice(X86_GCLS if n in X86_GPR else X86_VCLS), n) for n in pool]
    case["pool"] = pool
    case["mode"] = "pool_infinite" if rng.random() < 0.1 else "pool"


def pop_order(case: dict, cls: str = "i") -> list[str]:
    """registers of one file (riscv i / f, x86 i / z) in the order in which an untouched stack hands them out"""
    t = case["target"]
    if case.get("pool") is not None:
        order = list(reversed(case["pool"]))            # RegisterStack.get pushes in order, pop takes the last
    elif case.get("mode") == "force_infinite":
        order = []
    else:
        order = list(RV_POOL_I + RV_POOL_F) if t == "riscv" else list(X86_POOL + X86_VPOOL)
    return [r for r in order if _reg_cls(t, r) == cls]


def add_reservations(rng, case: dict) -> None:
    """insert 1..3 `c19.reserve` operations (each declaring 1..3 registers as excluded) at random
    places of the function: top level and / or loop bodies of any depth.  The registers are mostly the
    ones the allocator would hand out first."""
    t = case["target"]
    blocks: list[tuple[int, list]] = []

    def collect(ops, depth):
        blocks.append((depth, ops))
        for op in ops:
            if op["k"] == "for" and not op.get("frep"):      # (a frep body admits FPU instructions only)
                collect(op["body"], depth + 1)

    collect(case["ops"], 0)
    nested = [b for b in blocks if b[0] > 0]
    where = rng.choice(["top", "nested", "nested", "any"]) if nested else "top"
    cands = {"top": blocks[:1], "nested": nested, "any": blocks}[where]
    classes = sorted({pool_cls(t, c) for c, _ in all_values(case).values()} | {"i"})
    for _ in range(rng.randint(1, 3)):
        _, ops = rng.choice(cands)
        regs: list[str] = []
        for _ in range(rng.randint(1, 3)):
            order = pop_order(case, rng.choice(classes))
            everything = (RV_INT[5:] + RV_FLT) if t == "riscv" else X86_GPR
            r = rng.choice(order[:4]) if order and rng.random() < 0.7 else rng.choice(order or everything) \
                if rng.random() < 0.8 else rng.choice(everything)
            if t == "x86" and rng.random() < 0.4:
                # an operation may name the register it reserves under any of its names
                r = spell(t, rng.choice(X86_GCLS if reg_file(t, r) == "g" else X86_VCLS), r)
            if phys(t, r) not in [phys(t, x) for x in regs] and phys(t, r) not in ("sp", "rsp"):
                regs.append(r)
        if regs:
            ops.insert(rng.randint(0, len(ops)), {"k": "resv", "regs": regs, "ins": [], "outs": [], "io": []})


# =============================================================================================
# One case end to end
# =============================================================================================

def case_inputs(rng, case: dict, n: int) -> list[list[int]]:
    w = width(case)
    m = (1 << w) - 1
    out = [[0] * len(case["args"]), [1] * len(case["args"]), [m] * len(case["args"])]
    for _ in range(n):
        out.append([rng.choice([rng.getrandbits(w), rng.randint(0, 9), m - rng.randint(0, 3)]) for _ in case["args"]])
    return out[: max(n, 1)] if case["args"] else [[]]


SIG_LOOP_DISCIPLINE = "riscv_scf.for: loop-carried values are tied to one register although liveness forbids it (no legalisation / no error)"


def judge(case: dict, res: dict, rng) -> tuple[str, str, str] | None:
    """Apply the oracle to a real allocation.  Returns None or (call_site, signature, description)."""
    t = case["target"]
    prog = res["prog"]
    site = ("xdsl.backend.riscv.register_allocation.RegisterAllocatorLivenessBlockNaive.allocate_func" if t == "riscv"
            else "xdsl.backend.x86.register_allocation.X86RegisterAllocator.allocate_func")
    if res["status"].startswith("raise:"):
        return None                      # reported failure: allowed by the property
    if res["status"] == "detached":
        return ("xdsl.backend.register_allocator.ValueAllocator.allocate_values_same_reg",
                "operand refers to a value that is no longer part of the IR after allocation",
                f"after allocation the {res['msg']} is a detached value (replaced twice)")
    if res["status"] == "reshaped":
        return (site, "allocation changed the structure of the program", res["msg"])
    alloc = res["alloc"]
    pre = regs_of(prog)
    feas = res.get("feasibility")
    undisciplined = feas is not None
    if undisciplined:
        if res.get("pre_feasibility") is not None:
            return None        # the pre-assignment of the input clashes with itself: not an input of the property
        if t == "x86" and not case.get("legalize"):
            return None        # documented precondition of the x86 allocator (in/out use must be the last use)
        if t == "x86":
            site = "xdsl.transforms.x86_regalloc_legalize.X86RegallocLegalizePass.apply"
    loop_site = "xdsl.dialects.riscv_scf.ForRofOperation.allocate_registers"
    # every register-typed value must have a register now
    for v, r in alloc.items():
        if r is None:
            return (site, "value left without a register", f"%{v} is still unallocated after a successful allocation")
    # (2) pre-assigned kept
    for v, r in pre.items():
        if r is not None and alloc[v] != r:
            return (site, "pre-assigned register changed", f"%{v} was pre-assigned {r}, now {alloc[v]}")
    # (2) only pool registers handed out
    mode = prog.get("mode", "pass")
    if prog.get("pool") is not None:
        pool = {phys(t, n) for n in prog["pool"]}
    elif mode == "force_infinite":
        pool = set()
    else:
        pool = set(RV_POOL_I + RV_POOL_F) if t == "riscv" else set(X86_POOL + X86_VPOOL)
    inf_ok = mode in ("allow_infinite", "force_infinite", "pool_infinite")
    pre_regs = {phys(t, r) for r in pre.values() if r is not None}
    zc = zero_constants(prog)
    vals = all_values(prog)
    # from here on registers are PHYSICAL registers (canonical names); the spelling is checked first:
    # a value can only be given a name of its own class, in the register file of that class
    for v, r in alloc.items():
        if name_cls(t, r) != vals[v][0]:
            return (site, "register name does not belong to the class of the value",
                    f"%{v} of class {vals[v][0]} got {r}")
    alloc_names = alloc
    alloc = phys_alloc(t, alloc)
    for v, r in alloc.items():
        if pre[v] is not None:
            continue
        if r in pool:
            continue
        if t == "riscv" and r == "zero" and v in zc:
            continue
        if inf_ok and (r.startswith("j_") or r.startswith("fj_") or r.startswith("inf_")):
            continue
        if r in pre_regs:
            continue   # a register tie with a pre-assigned value (in/out, loop-carried) hands out its register
        if undisciplined:
            return (loop_site, SIG_LOOP_DISCIPLINE, f"infeasible input ({feas}) accepted; %{v} got {r}")
        return (site, "register outside the allocatable pool handed out",
                f"%{v} got {alloc_names[v]}, pool is {sorted(pool)} (physical registers)")
    # (2) reserved registers: a register that some operation of the function (at any nesting depth)
    # reserves for itself is never handed out; a value may sit in it only because the input says so
    # (pre-assigned, or tied by an in/out pair / loop-carried group to a pre-assigned value)
    reserved = declared_reserved(prog)
    if reserved:
        forced = canonical_alloc(prog)
        for v, r in sorted(alloc.items()):
            if pre[v] is None and r in reserved and forced.get(v) != r:
                if undisciplined:
                    break
                impl = res.get("excluded_impl")
                # inputs that consist of xDSL's own operations only (Snitch stream accesses) and inputs
                # that declare the register through the harness-defined `c19.reserve` are kept apart
                what = ("Snitch stream register (reserved by riscv_snitch.read / write)" if reserved[r].endswith(("(sread)", "(swrite)"))
                        else "register reserved by an operation of the function (iter_excluded_registers)")
                if isinstance(impl, list) and r not in {phys(t, x) for x in impl}:
                    return ("xdsl.backend.register_allocatable.RegisterAllocatableOperation.all_excluded_registers",
                            what + " is handed out: missing from all_excluded_registers",
                            f"%{v} got {alloc_names[v]}, which {reserved[r]} reserves; all_excluded_registers(func.body) = {impl}, "
                            f"declared in the function: {sorted(reserved)}")
                return (site, what + " is handed out",
                        f"%{v} got {alloc_names[v]} (physical register {r}), which {reserved[r]} reserves "
                        f"(all_excluded_registers = {impl})")
    alloc = alloc_names
    # (1) interference
    try:
        check_interference(prog, alloc, zero_name="zero" if t == "riscv" else None)
    except Clash as c:
        if undisciplined:
            return (loop_site if t == "riscv" else site,
                    SIG_LOOP_DISCIPLINE if t == "riscv" else "legalized program still violates the in/out discipline",
                    f"input admits no valid allocation ({feas}); the allocator reported success and produced: {c}")
        return (site, c.kind, str(c))
    # (3) differential execution
    for inp in case_inputs(rng, prog, 6):
        try:
            want = exec_ssa(prog, inp)
        except Diverged:
            continue
        for junk in (0xDEADBEEF, 0):
            try:
                got = exec_regs(prog, alloc, inp, junk)
            except Diverged:
                got = ["diverged"]
            if got != want:
                return (site, "register-machine execution differs from SSA execution",
                        f"inputs {inp}: SSA results {want}, register machine {got}")
    if undisciplined and feasibility(prog, zero_groups=True) is None:
        return None     # valid after all: the tied values are constant zeros and the allocator put them in `zero`
    if undisciplined:
        # cannot happen if the oracle is right: an infeasible input passed every check
        raise core.InfraError(f"oracle inconsistency: infeasible input ({feas}) passed the interference check")
    return None


def prepare(case: dict) -> dict:
    """run the real code on a case and attach the feasibility verdict of the (legalized) program"""
    res = run_real(case)
    res["feasibility"] = feasibility(res["prog"])
    res["feasibility_nz"] = feasibility(res["prog"], loop_zero=False)
    res["pre_feasibility"] = feasibility(res["prog"], ties=False) if res["feasibility"] is not None else None
    return res


def max_pressure(prog: dict) -> int:
    """largest number of simultaneously live values without a pre-assigned register (top-level block)"""
    vals = all_values(prog)
    live = set(prog["rets"])
    best = 0

    def unp(s):
        return sum(1 for v in s if vals[v][1] is None)

    best = unp(live)
    for op in reversed(prog["ops"]):
        live -= {d[0] for d in op_defs(op)}
        live |= set(op_reads(op))
        if op["k"] == "for":
            live |= loop_live_ins(op)
        best = max(best, unp(live))
    return best


def shrink_case(case: dict, still: Any) -> dict:
    """greedy structural shrinking: drop ops whose results are unused, simplify modes"""
    cur = json.loads(json.dumps(case))

    def try_(c):
        try:
            return still(c)
        except core.InfraError:
            return False
        except Exception:  # noqa: BLE001
            return False

    changed = True
    rounds = 0
    while changed and rounds < 6:
        changed = False
        rounds += 1
        # remove one top-level op at a time when its results are unused
        i = len(cur["ops"]) - 1
        while i >= 0:
            c = json.loads(json.dumps(cur))
            op = c["ops"][i]
            defs = {d[0] for d in op_defs(op)}
            del c["ops"][i]
            used = body_live_ins(c["ops"], set()) | set(c["rets"])
            if not (defs & used) or all(d in c["rets"] for d in defs & used) and False:
                if try_(c):
                    cur = c
                    changed = True
            i -= 1
        # drop return values
        for r in list(cur["rets"]):
            if len(cur["rets"]) > 1:
                c = json.loads(json.dumps(cur))
                c["rets"].remove(r)
                if "ret_regs" in c:
                    pass
                if try_(c):
                    cur = c
                    changed = True
        # shrink loop bodies
        for li, op in enumerate(cur["ops"]):
            if op["k"] != "for":
                continue
            j = len(op["body"]) - 1
            while j >= 0:
                c = json.loads(json.dumps(cur))
                b = c["ops"][li]["body"]
                defs = {d[0] for d in op_defs(b[j])}
                del b[j]
                used = body_live_ins(b, set()) | set(c["ops"][li]["yields"])
                if not (defs & used) and try_(c):
                    cur = c
                    changed = True
                j -= 1
        if cur.get("mode") != "pass" and cur.get("pool") is None:
            c = json.loads(json.dumps(cur))
            c["mode"] = "pass"
            if try_(c):
                cur = c
                changed = True
    return cur


def describe(case: dict, res: dict) -> list[str]:
    out = [f"status {res['status']} {res.get('msg', '')}".strip()]
    if res.get("alloc"):
        out.append("alloc " + " ".join(f"%{v}:{r}" for v, r in sorted(res["alloc"].items())))
    if res.get("feasibility"):
        out.append("input-infeasible " + res["feasibility"])
    return out


def process(ctx: core.Ctx, case: dict, lean_batch: list, stream: str) -> None:
    """run one case through real code + oracle; queue Lean queries"""
    try:
        res = prepare(case)
    except InvalidInput:
        ctx.count("input.invalid-before-allocation")
        return
    ctx.ev()
    ctx.count(f"{stream}.cases")
    ctx.count("status." + res["status"].split(":")[0] + (":" + res["status"].split(":")[1] if ":" in res["status"] else ""))
    ctx.programs += 1
    prog = res["prog"]
    if "excluded_impl" in res:
        WALK_BATCH.append((case, reserve_tree(prog), res["excluded_impl"]))
        nres = len(declared_reserved(prog))
        if nres:
            ctx.count("reserving-ops." + ("nested-only" if not any(op_reserves(o) for o in prog["ops"]) else "top-level"))
    verdict = judge(case, res, ctx.rng)
    LOOP_BATCH.append((case, prog, res, verdict is None and res["status"] == "ok" and res.get("feasibility") is None))
    if res["status"] == "ok":
        p = max_pressure(prog)
        ctx.count("pressure.%02d" % min(p, 20))
        if p >= 2 and verdict is None:
            ctx.nt(json.dumps(case, sort_keys=True))
    if res.get("feasibility") is not None:
        ctx.count("input.infeasible")
        if res.get("pre_feasibility") is not None or (case["target"] == "x86" and not case.get("legalize")):
            ctx.count("input.infeasible-outside-quantifier")
    if verdict is not None:
        site, sig, desc = verdict

        def still(c):
            r = prepare(c)
            v = judge(c, r, ctx.rng)
            return v is not None and v[0] == site and v[1] == sig

        small = shrink_case(case, still)
        try:
            rn = renumber(small)
            if still(rn):
                small = rn
        except Exception:  # noqa: BLE001
            pass
        r2 = prepare(small)
        v2 = judge(small, r2, ctx.rng) or verdict
        ctx.fail(site, sig, small, v2[2], describe(small, r2), "no interference / same results / registers respected")
        ctx.disagreements_checked += 1
        return
    if res.get("feasibility") is not None:
        return
    ok = res["status"] == "ok"
    if lean_supported(prog):
        lean_batch.append((case, prog, res, "alloc+validate"))            # model allocator + proved validator
    elif ok and not has_loops(prog):
        lean_batch.append((case, prog, res, "validate"))                  # float registers: validator only
    elif ok:
        try:
            up, ualloc = unroll(prog, res["alloc"])
        except NotUnrollable:
            ctx.count("lean.loop-not-unrollable")
            return
        lean_batch.append((case, up, {"status": "ok", "alloc": ualloc}, "validate-unrolled"))


WALK_BATCH: list = []


def flush_walk(ctx: core.Ctx) -> None:
    """RegisterAllocatableOperation.all_excluded_registers(func.body) of every generated function
    against the Lean model `allExcluded` (proved: a register is in the result iff some operation at
    some nesting depth declares it)."""
    if not WALK_BATCH:
        return
    out = ctx.model("excluded_walk", [w[1] for w in WALK_BATCH])
    for (case, line, impl), model in zip(WALK_BATCH, out):
        t = case["target"]
        obs = impl if isinstance(impl, str) else "excl " + " ".join(map(str, sorted({reg_num(t, r) for r in impl})))
        ctx.count("lean.excluded_walk_queries")
        if " ".join(obs.split()) != " ".join(model.split()):
            ctx.mismatch("correspondence:C19/excluded_walk", case, [obs], [model],
                         "all_excluded_registers(func.body) differs from the Lean model allExcluded of the operation "
                         f"tree `{line}` (registers as protocol numbers)")
    WALK_BATCH.clear()


def flush_lean(ctx: core.Ctx, lean_batch: list) -> None:
    flush_walk(ctx)
    flush_loops(ctx)
    if not lean_batch:
        return
    lines: list[str] = []
    index: list[tuple[int | None, int | None]] = []
    for case, prog, res, what in lean_batch:
        want_alloc = what == "alloc+validate"
        ls = lean_lines(prog, res.get("alloc") if res["status"] == "ok" else None, want_alloc)
        ia = len(lines) if want_alloc else None
        iv = (len(lines) + (1 if want_alloc else 0)) if res["status"] == "ok" else None
        index.append((ia, iv))
        lines.extend(ls)
    out = ctx.model("regalloc", lines)
    for (ia, iv), (case, prog, res, what) in zip(index, lean_batch):
        t = prog["target"]
        if ia is not None:
            model_alloc = out[ia]
            if res["status"] == "ok":
                impl = fmt_model_alloc(t, res["alloc"])
            elif res["status"] in ("raise:OutOfRegisters", "raise:DiagnosticException"):
                impl = res["status"].replace(":", " ")
            else:
                impl = res["status"]
            ctx.count("lean.alloc_queries")
            if model_alloc != impl:
                ctx.mismatch("correspondence:C19/regalloc(alloc)", case, [impl], [model_alloc],
                             "the Lean model of the block-naive allocator chose differently from the real allocator")
        if iv is not None:
            ctx.count("lean.validate_queries" + (".unrolled-loops" if what == "validate-unrolled" else ""))
            if out[iv] != "valid":
                # the proved validator rejects an allocation that the Python oracle accepted
                ctx.mismatch("correspondence:C19/regalloc(validate)", case, ["python-oracle: accepted"], [out[iv]],
                             "the proved Lean validator rejects a real allocation that the Python oracle accepts"
                             + (" (loops unrolled along their execution path)" if what == "validate-unrolled" else ""))
    lean_batch.clear()


def renumber(case: dict) -> dict:
    """value ids by position, in the order in which `extract` numbers the values of the IR"""
    m: dict[int, int] = {}

    def new(d):
        m[d[0]] = len(m)
        return [m[d[0]], d[1], d[2]]

    def block(ops):
        out = []
        for op in ops:
            if op["k"] == "for":
                if op.get("frep"):
                    o = {"k": "for", "frep": True, "rep": m[op["rep"]], "iv": None, "inits": [m[i] for i in op["inits"]]}
                else:
                    o = {"k": "for", "lb": m[op["lb"]], "ub": m[op["ub"]],
                         "step": op["step"] if isinstance(op["step"], int) else {"v": m[op["step"]["v"]]},
                         "inits": [m[i] for i in op["inits"]]}
                    o["iv"] = new(op["iv"])
                o["bargs"] = [new(b) for b in op["bargs"]]
                o["body"] = block(op["body"])
                o["yields"] = [m[y] for y in op["yields"]]
                o["res"] = [new(r) for r in op["res"]]
            else:
                o = {"k": op["k"], "ins": [m[i] for i in op["ins"]]}
                if "imm" in op:
                    o["imm"] = op["imm"]
                if "regs" in op:
                    o["regs"] = list(op["regs"])
                ins_io = [m[p[0]] for p in op.get("io", [])]
                if op.get("io"):
                    # x86 in/out results are numbered like plain results
                    o["outs"] = []
                    o["io"] = [[i, new(p[1])] for i, p in zip(ins_io, op["io"])]
                else:
                    o["outs"] = [new(d) for d in op["outs"]]
                    o["io"] = []
            out.append(o)
        return out

    c = dict(case)
    c["args"] = [new(a) for a in case["args"]]
    c["ops"] = block(case["ops"])
    c["rets"] = [m[r] for r in case["rets"]]
    return c


def gen_case(rng, tier: str) -> tuple[dict, str]:
    case, stream = gen_case_raw(rng, tier)
    return renumber(case), stream


def gen_case_raw(rng, tier: str) -> tuple[dict, str]:
    r = rng.random()
    if r < 0.30:
        case = gen_riscv(rng, rng.randint(1, 18), loops=False, dirty=False, floats=rng.random() < 0.25)
        stream = "riscv.straight"
    elif r < 0.55:
        case = gen_riscv(rng, rng.randint(1, 10), loops=True, dirty=False, floats=rng.random() < 0.15)
        stream = "riscv.loops"
    elif r < 0.60:
        case = gen_riscv(rng, rng.randint(1, 8), loops=True, dirty=True, floats=False)
        stream = "riscv.loops-undisciplined"
    elif r < 0.66:
        case = gen_riscv_nested(rng)
        stream = "riscv.nested"
    elif r < 0.74:
        # Snitch streaming: reads / writes of the stream registers at the top level and / or inside loops
        st = {"ports": rng.sample(STREAM_REGS, rng.choice([1, 1, 2, 3])),
              "depths": rng.choice([{0}, {1, 2, 3}, {1, 2, 3}, {1}, {2, 3}, {0, 1, 2, 3}]), "p": rng.choice([0.2, 0.35])}
        case = gen_riscv(rng, rng.randint(3, 12), loops=True, dirty=False, floats=True, streams=st)
        stream = "riscv.streams"
    elif r < 0.80:
        t = rng.choice(["riscv", "x86", "x86v"])
        case = gen_fan(rng, t, rng.randint(1, 17) if t != "x86v" else rng.randint(2, 34), False)
        stream = t + ".fan"
    elif r < 0.87:
        w = rng.random() < 0.5
        case = gen_x86(rng, rng.randint(1, 16), disciplined=True, widths=w)
        stream = "x86.straight" + (".widths" if w else "")
    elif r < 0.93:
        case = gen_x86_vec(rng, rng.randint(2, 16), disciplined=True)
        stream = "x86.vector"
    elif r < 0.97:
        w = rng.random() < 0.5
        case = gen_x86(rng, rng.randint(1, 12), disciplined=False, widths=w)
        case["legalize"] = True
        stream = "x86.legalized" + (".widths" if w else "")
    else:
        case = gen_x86_vec(rng, rng.randint(2, 12), disciplined=False)
        case["legalize"] = True
        stream = "x86.vector-legalized"
    if rng.random() < 0.35:
        add_preassignment(rng, case, rng.choice([0.1, 0.3]))
    m = rng.random()
    if m < 0.35:
        restrict_pool(rng, case)
    elif m < 0.42 and case["target"] == "riscv":
        case["mode"] = rng.choice(["allow_infinite", "force_infinite"])
    if rng.random() < 0.12 and not stream.endswith(".fan"):
        add_reservations(rng, case)
        stream += "+reserve"
    if stream.endswith(".fan") and rng.random() < 0.6:
        # pool sizes around the pressure: k live values against k-1 .. k+1 registers
        vfan = stream == "x86v.fan"
        base = RV_POOL_I if case["target"] == "riscv" else (X86_VEC if vfan else X86_POOL)
        k = sum(1 for op in case["ops"] if op["k"] in ("addi", "li", "di.mov", "dsi.imul", "dm.vmovupd"))
        n = max(1, min(len(base) - 1, k + rng.choice([-1, 0, 1])))
        avoid = {"a0", "rdi", "rax"}
        cand = [b for b in base if b not in avoid]
        case["pool"] = rng.sample(cand, min(n, len(cand)))
        if vfan:
            case["pool"] = [spell("x86", rng.choice(X86_VCLS), n_) for n_ in case["pool"]]
        case["mode"] = "pool"
    return case, stream


def fixed_cases() -> list[tuple[dict, str]]:
    """minimal inputs of past findings (kept so that a regression is re-found immediately)"""
    out: list[tuple[dict, str]] = []
    # loop-carried value passed through unchanged: `yield %p`
    out.append(({"target": "riscv", "mode": "pass", "pool": None, "args": [[0, "i", "a0"]], "ops": [
        {"k": "mv", "ins": [0], "outs": [[1, "i", None]], "io": []},
        {"k": "li", "imm": 0, "ins": [], "outs": [[2, "i", None]], "io": []},
        {"k": "li", "imm": 2, "ins": [], "outs": [[3, "i", None]], "io": []},
        {"k": "for", "lb": 2, "ub": 3, "step": 1, "inits": [1], "iv": [4, "i", None], "bargs": [[5, "i", None]],
         "body": [], "yields": [5], "res": [[6, "i", None]]},
        {"k": "mv", "ins": [6], "outs": [[7, "i", "a0"]], "io": []}], "rets": [7]}, "fixed.pass-through"))
    # swapped loop-carried values
    out.append(({"target": "riscv", "mode": "pass", "pool": None, "args": [[0, "i", "a0"], [1, "i", "a1"]], "ops": [
        {"k": "mv", "ins": [0], "outs": [[2, "i", None]], "io": []},
        {"k": "mv", "ins": [1], "outs": [[3, "i", None]], "io": []},
        {"k": "li", "imm": 0, "ins": [], "outs": [[4, "i", None]], "io": []},
        {"k": "li", "imm": 3, "ins": [], "outs": [[5, "i", None]], "io": []},
        {"k": "for", "lb": 4, "ub": 5, "step": 1, "inits": [2, 3], "iv": [6, "i", None],
         "bargs": [[7, "i", None], [8, "i", None]], "body": [], "yields": [8, 7], "res": [[9, "i", None], [10, "i", None]]},
        {"k": "sub", "ins": [9, 10], "outs": [[11, "i", None]], "io": []},
        {"k": "mv", "ins": [11], "outs": [[12, "i", "a0"]], "io": []}], "rets": [12]}, "fixed.swap"))
    # register pre-assigned to a value that only parallel moves touch
    out.append(({"target": "riscv", "mode": "pass", "pool": None, "args": [[0, "i", "a0"]], "ops": [
        {"k": "pmov", "ins": [0], "outs": [[1, "i", "t0"]], "io": []},
        {"k": "li", "imm": 5, "ins": [], "outs": [[2, "i", None]], "io": []},
        {"k": "pmov", "ins": [1, 2], "outs": [[3, "i", "a0"], [4, "i", "a1"]], "io": []}], "rets": [3, 4]},
        "fixed.pmov-preassigned"))
    # reserved infinite register pushed back inside the loop body
    out.append(({"target": "riscv", "mode": "force_infinite", "pool": None, "args": [], "ops": [{"k": "li", "imm": 7, "ins": [], "outs": [[0, "i", None]], "io": []}, {"k": "li", "imm": 1, "ins": [], "outs": [[1, "i", None]], "io": []}, {"k": "li", "imm": 4, "ins": [], "outs": [[2, "i", None]], "io": []}, {"k": "li", "imm": 2, "ins": [], "outs": [[3, "i", None]], "io": []}, {"k": "add", "ins": [1, 2], "outs": [[4, "i", None]], "io": []}, {"k": "for", "lb": 3, "ub": 4, "step": 1, "inits": [0], "iv": [5, "i", None], "bargs": [[6, "i", None]], "body": [{"k": "addi", "imm": 1, "ins": [6], "outs": [[7, "i", None]], "io": []}], "yields": [7], "res": [[8, "i", None]]}], "rets": [8]}, "fixed.reserved-infinite"))
    # loop-carried constant zero that yields its own init: the whole group lives in `zero` (feasible)
    out.append(({"target": "riscv", "mode": "pass", "pool": None, "args": [], "ops": [
        {"k": "li", "imm": 0, "ins": [], "outs": [[0, "i", None]], "io": []},
        {"k": "li", "imm": 1, "ins": [], "outs": [[1, "i", None]], "io": []},
        {"k": "li", "imm": 5, "ins": [], "outs": [[2, "i", None]], "io": []},
        {"k": "for", "lb": 1, "ub": 2, "step": 3, "inits": [0], "iv": [3, "i", None], "bargs": [[4, "i", None]], "body": [
            {"k": "andi", "imm": -1, "ins": [4], "outs": [[5, "i", None]], "io": []}], "yields": [0], "res": [[6, "i", None]]}],
        "rets": [1]}, "fixed.zero-carried-yields-init"))
    # Snitch stream read inside a loop body: ft0, ft1, ft2 are reserved for the whole function
    out.append(({"target": "riscv", "mode": "pass", "pool": None, "args": [[0, "i", "a0"]], "ops": [
        {"k": "li", "imm": 0, "ins": [], "outs": [[1, "i", None]], "io": []},
        {"k": "li", "imm": 3, "ins": [], "outs": [[2, "i", None]], "io": []},
        {"k": "fcvt.s.w", "ins": [0], "outs": [[3, "f", None]], "io": []},
        {"k": "for", "lb": 1, "ub": 2, "step": 1, "inits": [], "iv": [4, "i", None], "bargs": [], "body": [
            {"k": "sread", "ins": [], "outs": [[5, "f", "ft0"]], "io": []},
            {"k": "fmul.s", "ins": [5, 3], "outs": [[6, "f", None]], "io": []},
            {"k": "fadd.s", "ins": [6, 6], "outs": [[7, "f", "ft1"]], "io": []},
            {"k": "swrite", "ins": [7], "outs": [], "io": []}], "yields": [], "res": []},
        {"k": "fcvt.w.s", "ins": [3], "outs": [[8, "i", "a0"]], "io": []}], "rets": [8]}, "fixed.stream-in-loop"))
    return out


def alias_cases() -> list[tuple[dict, str]]:
    """Exhaustive small scope for register ALIASING: for every ordered pair of value classes of one x86
    register file (xmm / ymm / zmm; 64 / 32 / 16 / 8-bit general-purpose) and for the two spellings of the
    riscv registers, two values that are live at the same time, (a) both unallocated, (b) one of them
    pre-assigned to the register the stack hands out first, spelled in its own class, (c) against a pool
    that consists of ONE physical register named twice, once per class (a correct allocator has one register
    to give: it must report OutOfRegisters), (d) the register of the first class reserved by an operation."""
    out: list[tuple[dict, str]] = []

    def two(ca: str, cb: str, ra: str | None, rb: str | None, vec: bool) -> dict:
        if vec:
            ops = [{"k": "dm.vmovupd", "imm": 0, "ins": [0], "outs": [[1, ca, ra]], "io": []},
                   {"k": "dm.vmovupd", "imm": 64, "ins": [0], "outs": [[2, cb, rb]], "io": []},
                   {"k": "ms.vmovupd", "imm": 128, "ins": [0, 1], "outs": [], "io": []},
                   {"k": "ms.vmovupd", "imm": 192, "ins": [0, 2], "outs": [], "io": []}]
        else:
            ops = [{"k": "di.mov", "imm": 5, "ins": [], "outs": [[1, ca, ra]], "io": []},
                   {"k": "di.mov", "imm": 6, "ins": [], "outs": [[2, cb, rb]], "io": []},
                   {"k": "ms.mov", "imm": 0, "ins": [0, 1], "outs": [], "io": []},
                   {"k": "ms.mov", "imm": 8, "ins": [0, 2], "outs": [], "io": []}]
        return {"target": "x86", "mode": "pass", "pool": None, "args": [[0, "i", "rdi"]], "ops": ops, "rets": [],
                "ret_regs": []}

    for classes, vec, first, other in ((X86_VCLS, True, "zmm0", "zmm5"), (X86_GCLS, False, "rax", "rbx")):
        for ca in classes:
            for cb in classes:
                tag = "alias.x86." + ("vector" if vec else "gpr")
                out.append((two(ca, cb, None, None, vec), tag + ".free"))
                out.append((two(ca, cb, spell("x86", ca, first), None, vec), tag + ".pre-first"))
                out.append((two(ca, cb, None, spell("x86", cb, first), vec), tag + ".pre-second"))
                c = two(ca, cb, None, None, vec)
                c["pool"] = [spell("x86", ca, other), spell("x86", cb, other)]
                c["mode"] = "pool"
                out.append((c, tag + ".pool-one-register-twice"))
                c = two(ca, cb, None, None, vec)
                c["pool"] = [spell("x86", ca, other), spell("x86", cb, first), spell("x86", cb, "zmm9" if vec else "rsi")]
                c["mode"] = "pool"
                c["ops"].insert(0, {"k": "resv", "regs": [spell("x86", ca, first)], "ins": [], "outs": [], "io": []})
                out.append((c, tag + ".reserved-under-other-name"))
    # riscv: numeric and ABI spelling of one register
    for ra, pool in (("x5", None), ("t0", ["x5"]), ("x5", ["t0"]), (None, ["x5", "t0"]), ("x6", ["t1", "x6", "t0"])):
        c = {"target": "riscv", "mode": "pass" if pool is None else "pool", "pool": pool, "args": [[0, "i", "a0"]], "ops": [
            {"k": "addi", "imm": 1, "ins": [0], "outs": [[1, "i", ra]], "io": []},
            {"k": "addi", "imm": 2, "ins": [0], "outs": [[2, "i", None]], "io": []},
            {"k": "add", "ins": [1, 2], "outs": [[3, "i", "a0"]], "io": []}], "rets": [3]}
        out.append((c, "alias.riscv.spelling"))
    for fa, pool in (("f0", None), ("f0", ["ft0"]), (None, ["f3", "ft3"])):
        c = {"target": "riscv", "mode": "pass" if pool is None else "pool", "pool": (pool + ["t0"]) if pool else None,
             "args": [[0, "i", "a0"]], "ops": [
            {"k": "fcvt.s.w", "ins": [0], "outs": [[1, "f", fa]], "io": []},
            {"k": "fcvt.s.w", "ins": [0], "outs": [[2, "f", None]], "io": []},
            {"k": "fadd.s", "ins": [1, 2], "outs": [[3, "f", None]], "io": []},
            {"k": "fcvt.w.s", "ins": [3], "outs": [[4, "i", "a0"]], "io": []}], "rets": [4]}
        out.append((c, "alias.riscv.spelling"))
    return out


# ---------------------------------------------------------------------------------------------
# Register names: the harness's physical-identity tables, the Lean model `PhysReg` and the keys under which
# the real RegisterStack keeps a register (register_pool_key, index) must describe ONE partition of the names
# ---------------------------------------------------------------------------------------------
_FILE_NO = {"x": 0, "f": 1, "g": 2, "v": 3}


def all_register_names() -> list[tuple[str, str, str, int, bool]]:
    """(target, class, name, index or infinite number, infinite?) of every register name of both targets
    (riscv additionally under its numeric spelling) and of a few infinite registers of every class"""
    out = []
    for t in ("riscv", "x86"):
        for cls, (file, _, names, prefix) in CLASSES[t].items():
            for i, n in enumerate(names):
                out.append((t, cls, n, i, False))
                if t == "riscv":
                    out.append((t, cls, ("x" if cls == "i" else "f") + str(i), i, False))
            for k in (0, 1, 7, 41):
                out.append((t, cls, prefix + str(k), k, True))
    return out


def run_physreg(ctx: core.Ctx) -> None:
    from xdsl.dialects import riscv as rv
    from xdsl.dialects.x86 import registers as R

    T = {("riscv", "i"): rv.IntRegisterType, ("riscv", "f"): rv.FloatRegisterType, ("x86", "i"): R.Reg64Type,
         ("x86", "d"): R.Reg32Type, ("x86", "w"): R.Reg16Type, ("x86", "b"): R.Reg8Type, ("x86", "x"): R.SSERegisterType,
         ("x86", "y"): R.AVX2RegisterType, ("x86", "z"): R.AVX512RegisterType}
    names = all_register_names()
    lines = [f"name {_FILE_NO[cls_file(t, c)]} {cls_width(t, c)} {i} {1 if inf else 0}" for t, c, n, i, inf in names]
    out = ctx.model("physreg", lines)
    by_model: dict[tuple, tuple] = {}
    by_real: dict[tuple, tuple] = {}
    for (t, c, n, i, inf), line, model in zip(names, lines, out):
        ctx.ev()
        ctx.count("physreg.names")
        ty = T[(t, c)].infinite_register(i) if inf else T[(t, c)].from_name(n)
        real = (t, ty.register_pool_key(), ty.index.data)
        case = {"stream": "physreg", "target": t, "class": c, "name": n}
        if ty.register_name.data != n or name_cls(t, n) != c:
            ctx.mismatch("correspondence:C19/physreg", case, [f"{ty.register_name.data}"], [n], "register name table of the harness")
            continue
        w = model.split()
        if len(w) != 5 or w[0] != "phys" or int(w[1]) != reg_num(t, n) or int(w[4]) != ty.index.data:
            ctx.mismatch("correspondence:C19/physreg", case, [f"phys {reg_num(t, n)} index {ty.index.data}"], [model],
                         "protocol number of the physical register / pool index: harness table, real RegisterType.index "
                         "and Lean PhysReg.phys / poolIndex disagree")
            continue
        mkey = (t, w[3], w[4])
        # one pool key + index per physical register and vice versa (pool_key_iff_phys)
        for a, b, ka, kb in ((by_model, mkey, real, n), (by_real, real, mkey, n)):
            if b in a and a[b][0] != ka:
                ctx.mismatch("correspondence:C19/physreg", dict(case, other=a[b][1]),
                             [f"{n}: pool {real[1]!r} index {real[2]}", f"{a[b][1]}: {a[b][0]}"], [f"{n}: {model}"],
                             "RegisterType.register_pool_key / index do not identify the physical register: "
                             f"{n} and {a[b][1]} are " + ("one register kept under two keys" if a is by_model else
                                                          "two registers kept under one key"))
                break
            a.setdefault(b, (ka, kb))


# ---------------------------------------------------------------------------------------------
# RegisterStack: direct small-scope correspondence of the real API with the Lean model
# (push / pop / include / exclude / reserve / unreserve, reservation counts, AssertionError of pop)
# ---------------------------------------------------------------------------------------------
RS_INF = 1000                      # infinite register j_n (Python index ~n) is RS_INF + n in the model
RS_FINITE = [5, 6, 7]              # t0, t1, t2
RS_SITE = "xdsl.backend.register_stack.RegisterStack."


def rs_enc(i: int) -> int:
    return i if i >= 0 else RS_INF + (~i)


def rs_ops(nfinite: int) -> list[tuple]:
    regs = RS_FINITE[:nfinite] + [-1]          # and the first infinite register j_0
    ops: list[tuple] = [("pop",)]
    for r in regs:
        ops += [("include", r), ("exclude", r), ("push", r), ("reserve", r), ("unreserve", r)]
    return ops


_RS: dict = {}


def _rs_env() -> dict:
    if not _RS:
        from xdsl.backend.register_stack import RegisterStack
        from xdsl.dialects.riscv import IntRegisterType
        _RS.update(cls=RegisterStack, ty=IntRegisterType, key=IntRegisterType.register_pool_key(),
                   regs={i: IntRegisterType.from_index(i) for i in RS_FINITE + [-1, -2, -3]})
    return _RS


def rs_new(allow_infinite: bool):
    return _rs_env()["cls"](allow_infinite=allow_infinite)


def rs_clone(rs):
    k = _rs_env()["key"]
    c = _RS["cls"](allow_infinite=rs.allow_infinite)
    c.allocatable_registers[k] = set(rs.allocatable_registers[k])
    c.next_infinite_indices[k] = rs.next_infinite_indices[k]
    d = c.reserved_registers[k]
    for i, n in rs.reserved_registers[k].items():
        d[i] = n
    c.available_registers[k] = list(rs.available_registers[k])
    return c


def rs_snapshot(rs, check_pools: bool = False) -> dict:
    key = _rs_env()["key"]
    if check_pools:
        extra = [k for d in (rs.allocatable_registers, rs.next_infinite_indices, rs.reserved_registers,
                             rs.available_registers) for k in d if k != key and d[k]]
        if extra:
            raise core.InfraError(f"RegisterStack touched another pool: {extra}")
    return {"avail": [rs_enc(i) for i in rs.available_registers[key]],
            "alloc": sorted(rs_enc(i) for i in rs.allocatable_registers[key]),
            "res": sorted((rs_enc(i), n) for i, n in rs.reserved_registers[key].items()),
            "next": rs.next_infinite_indices[key]}


def rs_show(sn: dict) -> str:
    return ("avail=" + ",".join(map(str, sn["avail"])) + " alloc=" + ",".join(map(str, sn["alloc"]))
            + " res=" + ",".join(f"{r}:{n}" for r, n in sn["res"]) + f" next={sn['next']}")


def rs_apply(rs, op: tuple) -> str:
    env = _rs_env()
    try:
        if op[0] == "pop":
            reg = rs.pop(env["ty"])
            return f"reg {rs_enc(reg.index.data)}"
        reg = env["regs"][op[1]]
        res = {"include": rs.include_register, "exclude": rs.exclude_register, "push": rs.push,
               "reserve": rs.reserve_register, "unreserve": rs.unreserve_register}[op[0]](reg)
        return "none" if res is None else f"unexpected {res!r}"
    except Exception as e:  # noqa: BLE001
        return "raise " + core.exc_name(e)


def rs_line(op: tuple) -> str:
    return op[0] if op[0] == "pop" else f"{op[0]} {rs_enc(op[1])}"


def rs_oracle(before: dict, op: tuple, out: str, after: dict) -> tuple[str, str] | None:
    """the sentence 'a reserved or excluded register is never returned by pop and never made
    available by push', judged on the real object's state before/after one call"""
    reserved = {r for r, _n in before["res"]}
    if op[0] == "pop":
        if out.startswith("reg "):
            r = int(out.split()[1])
            if r in reserved:
                return ("pop", "pop returned a reserved register")
            if r < RS_INF and r not in before["alloc"]:
                return ("pop", "pop returned an excluded (non-allocatable) register")
        return None
    r = rs_enc(op[1])
    if op[0] in ("push", "include"):
        if r in reserved and r not in before["avail"] and r in after["avail"]:
            return (op[0], "push made a reserved register available")
        if op[0] == "push" and r < RS_INF and r not in before["alloc"] and r in after["avail"]:
            return ("push", "push made an excluded (non-allocatable) register available")
    if op[0] == "exclude" and (r in after["avail"] or r in after["alloc"]):
        return ("exclude", "register still available/allocatable after exclude_register")
    if op[0] in ("reserve", "unreserve") and out == "none":
        cnt = dict(before["res"]).get(r, 0) + (1 if op[0] == "reserve" else -1)
        if dict(after["res"]).get(r, 0) != cnt:
            return (op[0], "reservation count not incremented/decremented by one")
    if any(n <= 0 and (r2, n) not in before["res"] for r2, n in after["res"]):
        return (op[0], "non-positive reservation count stored")
    return None


def rs_replay_path(allow_infinite: bool, path: list) -> tuple[list[str], list[str], tuple | None]:
    rs = rs_new(allow_infinite)
    lines, obs, bad = [f"reset {int(allow_infinite)} {RS_INF}"], ["ok"], None
    for op in path:
        op = tuple(op)
        before = rs_snapshot(rs)
        out = rs_apply(rs, op)
        after = rs_snapshot(rs, check_pools=True)
        lines.append(rs_line(op)); obs.append(out + " | " + rs_show(after))
        bad = bad or rs_oracle(before, op, out, after)
    return lines, obs, bad


def run_register_stack(ctx: core.Ctx, nfinite: int, depth: int, memo: bool) -> None:
    """Every operation sequence up to `depth` over `nfinite` finite registers + j_0, with and without
    infinite registers.  With `memo` a state already expanded with at least as many remaining steps
    is not expanded again (the object's behaviour is a function of its five dataclass fields, all
    of which are part of the compared state)."""
    import dataclasses
    from xdsl.backend.register_stack import RegisterStack
    fields = sorted(f.name for f in dataclasses.fields(RegisterStack))
    if fields != ["allocatable_registers", "allow_infinite", "available_registers", "next_infinite_indices",
                  "reserved_registers"]:
        raise core.InfraError(f"RegisterStack has other state than the model: {fields}")
    ops = rs_ops(nfinite)
    for allow_infinite in (False, True):
        lines = [f"reset {int(allow_infinite)} {RS_INF}"]
        expect = ["ok"]
        paths: list[tuple | None] = [None]
        seen: dict[str, int] = {}
        path: list[tuple] = []
        calls = 0

        def explore(rs, before: dict, d: int) -> None:
            nonlocal calls
            if d == 0:
                return
            if memo:
                k = rs_show(before)
                if seen.get(k, 0) >= d:
                    return
                seen[k] = d
            for op in ops:
                c = rs_clone(rs)
                out = rs_apply(c, op)
                after = rs_snapshot(c)
                calls += 1
                path.append(op)
                lines.extend(["dup", rs_line(op)])
                expect.extend(["ok", out + " | " + rs_show(after)])
                paths.extend([None, tuple(path)])
                bad = rs_oracle(before, op, out, after)
                if bad is not None:
                    ctx.fail(RS_SITE + bad[0], bad[1],
                             {"stream": "register_stack", "allow_infinite": allow_infinite, "ops": [list(o) for o in path]},
                             f"{bad[1]}: `{rs_line(op)}` in state `{rs_show(before)}` gave `{out}` / `{rs_show(after)}`",
                             out + " | " + rs_show(after), None)
                if out.startswith("reg ") or (op[0] in ("push", "include") and dict(before["res"]).get(rs_enc(op[1]) if len(op) > 1 else -1)):
                    ctx.nt(("rs", allow_infinite, tuple(path)))
                explore(c, after, d - 1)
                path.pop()
                lines.append("drop"); expect.append("ok"); paths.append(None)

        rs0 = rs_new(allow_infinite)
        explore(rs0, rs_snapshot(rs0), depth)
        ctx.ev(calls)
        ctx.count(f"register_stack.calls.{'memo' if memo else 'full'}", calls)
        if memo:
            ctx.count("register_stack.distinct_states", len(seen))
        model = ctx.model("register_stack", lines)
        i = core.diff_streams(expect, model)
        if i is not None:
            pth = next((paths[j] for j in range(i, -1, -1) if paths[j] is not None), ()) if paths[i] is None else paths[i]
            ctx.mismatch("correspondence:C19/register_stack",
                         {"stream": "register_stack", "allow_infinite": allow_infinite, "ops": [list(o) for o in (pth or ())]},
                         expect[i], model[i], f"real RegisterStack `{expect[i]}` vs Lean model `{model[i]}` after `{lines[i]}`")


def run(ctx: core.Ctx) -> None:
    ctx.lean()
    WALK_BATCH.clear()
    LOOP_BATCH.clear()
    quick = ctx.tier == "quick"
    budget = ctx.budget_s
    lean_batch: list = []
    # RegisterStack API: all sequences up to 2 (quick) / 4 (thorough) calls literally, up to 5 / 7 modulo equal states
    run_register_stack(ctx, nfinite=3, depth=2 if quick else 4, memo=False)
    run_register_stack(ctx, nfinite=3, depth=5 if quick else 7, memo=True)
    ctx.extra["exhaustive_scope"] = (
        "RegisterStack API only: every sequence of push/pop/include/exclude/reserve/unreserve over t0,t1,t2,j_0 "
        f"(allow_infinite on and off) up to length {2 if quick else 4} literally and up to length {5 if quick else 7} "
        "modulo states already expanded; the allocation streams are random")
    run_physreg(ctx)
    for case, stream in fixed_cases() + alias_cases():
        process(ctx, renumber(case) if stream.startswith("alias.") else case, lean_batch, stream)
    n = 0
    target_n = 7000 if quick else 150000
    while n < target_n and ctx.time_left() > (16 if quick else 60):
        case, stream = gen_case(ctx.rng, ctx.tier)
        process(ctx, case, lean_batch, stream)
        n += 1
        if len(lean_batch) >= 400:
            flush_lean(ctx, lean_batch)
        if n <= 3:
            ctx.sample({"stream": stream, "case": case})
    flush_lean(ctx, lean_batch)
    ctx.exhaustive = False


def replay(ctx: core.Ctx, body: dict) -> int:
    case = body["case"]
    if case.get("stream") == "register_stack":
        lines, obs, bad = rs_replay_path(bool(case["allow_infinite"]), case["ops"])
        model = ctx.model("register_stack", lines)
        print("calls         :", lines[1:], "(allow_infinite =", case["allow_infinite"], ")")
        for l, o, m in zip(lines, obs, model):
            print(f"  {l:16s} real: {o:60s} model: {m}")
        print("oracle        :", bad)
        print("property", "FAILS" if bad else "holds", "on this case;",
              "model and implementation", "DIFFER" if obs != model else "agree")
        return 1 if (bad or obs != model) else 0
    res = prepare(case)
    verdict = judge(case, res, ctx.rng)
    print("case:", json.dumps(case))
    try:
        print("input IR:")
        print(build_ir(case)[0])
    except Exception as e:  # noqa: BLE001
        print("  (cannot print IR:", e, ")")
    print("implementation:", describe(case, res))
    if res["status"] == "ok" and res.get("feasibility") is None:
        if lean_supported(res["prog"]):
            lines = lean_lines(res["prog"], res["alloc"])
            print("lean model    :", ctx.model("regalloc", lines))
        else:
            try:
                up, ua = (res["prog"], res["alloc"]) if not has_loops(res["prog"]) else unroll(res["prog"], res["alloc"])
                print("lean validator:", ctx.model("regalloc", lean_lines(up, ua, False)))
            except NotUnrollable as e:
                print("lean validator: not applicable,", e)
    print("oracle        :", verdict)
    print("property", "FAILS" if verdict else "holds", "on this case")
    return 1 if verdict else 0
