"""
C22 helper, leg P: riscv-lower-parallel-mov on its own, on the register machine of c22_rv.

The pipeline leg only ever shows this pass the parallel moves that convert-func-to-riscv-func and the loop lowering
create: integer or single-type float moves without designated free registers (no pass of the pipeline fills
`free_registers`, a float cycle there does not compile).  The pass itself is one of the passes the statement lists, so -
like canonicalization in leg A - it is also run alone on generated `riscv.parallel_mov` operations between allocated
registers: chains, fan-outs, cycles (one, two, with trees hanging off them), self-moves; integer and float registers in
one op; a width (32 / 64) per source register, mixed inside cycles; with and without designated free registers.

Oracle (value level, on the machine): every source register holds a value of its declared width (an f32 NaN-boxed in
the 64-bit float register, an f64 as an arbitrary 64-bit pattern); the emitted instructions (mnemonic and registers as
xDSL prints them) are executed; afterwards every destination holds what its source held before, and no register other
than the destinations and the designated free registers changed.  `fmv.s` reads a register that is not NaN-boxed as
the canonical NaN (RISC-V F/D), so a 64-bit value moved at single width does not arrive; `fmv.d` of a boxed f32 copies
all 64 bits and is not an error at this level.  PassFailedException = does not compile (outside the statement).
"""
from __future__ import annotations

from typing import Any

from props import c22_rv as rv

SITE = "xdsl.transforms.riscv_lower_parallel_mov.RISCVLowerParallelMovPass"
SIG_VALUE = "parallel move: a destination register does not hold the value of its source"
SIG_CLOBBER = "parallel move: a register that is neither a destination nor a designated free register changes"
SIG_SHAPE = "parallel move: emitted something the machine cannot execute"

IPOOL = ["a0", "a1", "a2", "a3", "t0", "t1", "t2"]
FPOOL = ["fa0", "fa1", "fa2", "fa3", "ft0", "ft1", "ft2"]


def is_float(r: str) -> bool:
    return r.startswith("f")


def mk(moves: list[list[Any]], free: list[str]) -> dict[str, Any]:
    """moves: [src, dst, width]; the width belongs to the source register (one value per register)"""
    return {"leg": "P", "moves": [list(m) for m in moves], "free": list(free)}


def directed() -> list[dict[str, Any]]:
    out = []
    for pool, fr in ((FPOOL, "ft0"), (IPOOL, "t0")):
        a, b, c, d = pool[:4]
        for w1 in (32, 64):
            for w2 in (32, 64):
                # two-cycle, both operand orders, with and without a free register
                out.append(mk([[a, b, w1], [b, a, w2]], [fr]))
                out.append(mk([[b, a, w2], [a, b, w1]], [fr]))
                out.append(mk([[a, b, w1], [b, a, w2]], []))
                for w3 in (32, 64):
                    # three-cycle in three rotations, a chain hanging off the cycle, a fan-out
                    cyc = [[a, b, w1], [b, c, w2], [c, a, w3]]
                    for k in range(3):
                        out.append(mk(cyc[k:] + cyc[:k], [fr]))
                    out.append(mk(cyc + [[a, d, w1]], [fr]))
                    out.append(mk([[a, b, w1], [a, c, w1], [d, a, w3]], [fr] if w2 == 32 else []))
        out.append(mk([[a, a, 64], [b, c, 32], [c, d, 64]], []))
        # two cycles sharing the one free register
        out.append(mk([[a, b, 64], [b, a, 32], [c, d, 32], [d, c, 64]], [fr]))
    # both register files in one operation
    out.append(mk([["fa0", "fa1", 64], ["fa1", "fa0", 32], ["a0", "a1", 32], ["a1", "a0", 32]], ["ft0", "t0"]))
    out.append(mk([["fa0", "fa1", 32], ["fa1", "fa0", 64], ["a0", "a1", 32], ["a1", "a0", 32]], ["ft1"]))
    return out


def generate(rng: Any) -> dict[str, Any]:
    moves: list[list[Any]] = []
    free: list[str] = []
    for pool in (FPOOL, IPOOL):
        if rng.random() < (0.9 if pool is FPOOL else 0.5):
            regs = rng.sample(pool, rng.randint(2, 5))
            width = {r: rng.choice((32, 64)) for r in regs}
            if rng.random() < 0.25:   # one width throughout
                w = rng.choice((32, 64))
                width = {r: w for r in regs}
            dsts: list[str] = []
            part: list[list[Any]] = []
            # cycles first (a permutation of a prefix), then moves into the remaining registers from anywhere
            ncyc = rng.choice((0, 2, 2, 3, 3, 4)) if len(regs) >= 2 else 0
            ncyc = min(ncyc, len(regs))
            if ncyc == 4 and rng.random() < 0.5:   # two two-cycles
                a, b, c, d = regs[:4]
                part += [[a, b, width[a]], [b, a, width[b]], [c, d, width[c]], [d, c, width[d]]]
                dsts += [a, b, c, d]
            elif ncyc:
                cyc = regs[:ncyc]
                part += [[cyc[i], cyc[(i + 1) % ncyc], width[cyc[i]]] for i in range(ncyc)]
                dsts += cyc
            for r in regs:
                if r not in dsts and rng.random() < 0.7:
                    s = rng.choice(regs)
                    part.append([s, r, width[s]])
                    dsts.append(r)
            rng.shuffle(part)
            moves += part
            rest = [r for r in pool if r not in regs]
            if rest and rng.random() < (0.8 if pool is FPOOL else 0.5):
                free += rng.sample(rest, rng.randint(1, min(2, len(rest))))
    if not moves:
        return generate(rng)
    rng.shuffle(free)
    return mk(moves, free)


def lower(case: dict[str, Any]) -> tuple[str, Any]:
    """run the real pass on one parallel_mov: ("ok", instruction list, result registers) | ("fail", message) |
    ("raise", exception name) | ("invalid", …)"""
    from xdsl.context import Context
    from xdsl.dialects import riscv, test
    from xdsl.dialects.builtin import ArrayAttr, DenseArrayBase, ModuleOp, i32
    from xdsl.ir import SSAValue
    from xdsl.transforms.riscv_lower_parallel_mov import RISCVLowerParallelMovPass
    from xdsl.utils.exceptions import PassFailedException

    def ty(r: str) -> Any:
        return (riscv.FloatRegisterType if is_float(r) else riscv.IntRegisterType).from_name(r)

    moves = case["moves"]
    names: list[str] = []
    for s, _, _ in moves:
        if s not in names:
            names.append(s)
    prod = test.TestOp(result_types=[ty(s) for s in names])
    pm = riscv.ParallelMovOp(
        [prod.results[names.index(s)] for s, _, _ in moves],
        [ty(d) for _, d, _ in moves],
        DenseArrayBase.from_list(i32, [w for _, _, w in moves]),
        ArrayAttr([ty(f) for f in case["free"]]) if case["free"] else None,
    )
    use = test.TestOp(operands=list(pm.results))
    module = ModuleOp([prod, pm, use])
    try:
        module.verify()
    except Exception as e:  # noqa: BLE001
        return ("invalid", type(e).__name__)
    try:
        RISCVLowerParallelMovPass().apply(Context(), module)
    except PassFailedException as e:
        return ("fail", str(e))
    except Exception as e:  # noqa: BLE001
        return ("raise", type(e).__name__ + ": " + str(e)[:200])
    prog: list[tuple[str, list[Any]]] = []
    for o in module.body.block.ops:
        if o is prod or o is use:
            continue
        if not isinstance(o, riscv.RISCVInstruction):
            return ("shape", f"operation {o.name} left in place of the parallel move")
        args = []
        for a in o.assembly_line_args():
            if isinstance(a, SSAValue):
                t = a.type
                if not (isinstance(t, riscv.RISCVRegisterType) and t.is_allocated):
                    return ("shape", f"{o.name} uses a value without a register")
                args.append(t.register_name.data)
            elif a is not None:
                return ("shape", f"{o.name}: unexpected operand {a}")
        prog.append((o.assembly_instruction_name(), args))
    res = []
    for v in use.operands:
        t = v.type
        res.append(t.register_name.data if isinstance(t, riscv.RISCVRegisterType) and t.is_allocated else "?")
    return ("ok", prog, res)


def vectors(rng: Any, case: dict[str, Any], n: int) -> list[dict[str, int]]:
    """register files in which every source register holds a value of its declared width"""
    width = {s: w for s, _, w in case["moves"]}
    out = []
    for _ in range(n):
        regs: dict[str, int] = {}
        for r in IPOOL:
            regs[r] = rng.getrandbits(32)
        for r in FPOOL:
            v = rng.getrandbits(64)
            if width.get(r) == 32:
                v = rv.box32(v)
            elif (v >> 32) == rv.M32:     # a 64-bit value that is not the image of a boxed f32
                v ^= 1 << 40
            regs[r] = v
        out.append(regs)
    return out


def judge(case: dict[str, Any], prog: list[tuple[str, list[Any]]], res: list[str], regs: dict[str, int]) -> tuple[str, str, Any] | None:
    """(signature, description, observation) if the emitted sequence is not the simultaneous assignment"""
    for (s, d, w), r in zip(case["moves"], res):
        if r != d:
            return (SIG_SHAPE, f"the result for the move {s} -> {d} is a value in register {r}", {"result_register": r})
    mach = rv.Machine(prog, regs)
    try:
        mach.run_straight()
    except rv.Trap as e:
        return (SIG_SHAPE, f"the emitted sequence does not execute: {e}", str(e))
    after = {r: mach.get(r) for r in IPOOL + FPOOL}
    dsts = {d for _, d, _ in case["moves"]}
    for s, d, w in case["moves"]:
        if after[d] != regs[s]:
            return (SIG_VALUE,
                    f"{d} must receive the {w}-bit value of {s} ({regs[s]:#x}) and holds {after[d]:#x} after the emitted moves",
                    {"destination": d, "source": s, "width": w, "want": f"{regs[s]:#x}", "got": f"{after[d]:#x}"})
    for r in IPOOL + FPOOL:
        if r not in dsts and r not in case["free"] and after[r] != regs[r]:
            return (SIG_CLOBBER, f"{r} is no destination and not designated free, yet changes from {regs[r]:#x} to {after[r]:#x}",
                    {"register": r, "before": f"{regs[r]:#x}", "after": f"{after[r]:#x}"})
    return None


def evaluate(case: dict[str, Any], vecs: list[dict[str, int]]) -> tuple[str, Any, Any]:
    """("ok"|"nocompile"|"bad", lowering observation, verdict)"""
    low = lower(case)
    if low[0] in ("fail", "invalid", "raise"):
        return ("nocompile", low, None)
    if low[0] == "shape":
        return ("bad", low, (SIG_SHAPE, low[1], low[1], vecs[0]))
    _, prog, res = low
    for regs in vecs:
        bad = judge(case, prog, res, regs)
        if bad is not None:
            return ("bad", low, bad + (regs,))
    return ("ok", low, None)


def text(case: dict[str, Any]) -> str:
    mv = ", ".join(f"{s} -> {d} ({w} bit)" for s, d, w in case["moves"])
    return f"riscv.parallel_mov {mv}; free registers: {', '.join(case['free']) or 'none'}"
