"""C27 support code: abstract PDL patterns and payloads, MLIR text emission, extraction of the abstract
pattern from a parsed `pdl.pattern`, the two real xDSL paths, and an independent reference matcher /
rewriter written from the PDL specification.

Abstract pattern (JSON-serialisable dict):
  types : [null | "i32", ...]                    one entry per `pdl.type` of the match section
  attrs : [{"v": null | "0 : i32", "t": null | type-index}]      `pdl.attribute`
  vals  : [null | type-index]                    `pdl.operand`
  ops   : [{"name": null | str, "attrs": [[name, attr-index]], "operands": [["v", i] | ["r", op, res]],
            "results": [type-index]}]            `pdl.operation`; operands of op i refer to ops < i; root = last
  rw    : list of actions
            ["op", name, [valref], [[attr-name, attrref]], [tyref]]     create (k-th "op" action = new op k)
            ["replace_vals", opref, [valref]] | ["replace_op", opref, opref] | ["erase", opref]
          valref  = ["v", i] | ["mr", op, res] | ["nr", k, res]
          opref   = ["m", op] | ["n", k]
          attrref = ["c", attr-index] | ["k", text]
          tyref   = ["c", type-index] | ["k", text]
  layout: "grouped" | "lazy"          order of the declarations in the emitted text
  hdr   : {"benefit": int, "sym": null | str}   header of the `pdl.pattern` op (optional; default benefit 1, no name).
          The denotation of a pattern does not depend on it: the benefit only orders SEVERAL patterns, the symbol
          name is a label (the conversion names the rewriter function after it).
  mres  : "match" | "rewrite"         where `pdl.result` ops used only by the rewrite are declared

Abstract payload:
  args : [type text]                             block arguments of the single payload block
  ops  : [{"name", "operands": [["a", k] | ["r", op, res]], "attrs": [[name, text]], "props": [[name, text]],
           "results": [type text]}]
"""
from __future__ import annotations

import io
from typing import Any

WRAPPER = "test.op"


# ---------------------------------------------------------------------------------------------
# text emission
# ---------------------------------------------------------------------------------------------

def _valty(n: int) -> str:
    return ", ".join(["!pdl.value"] * n)


HDR_DEFAULT = {"benefit": 1, "sym": None}


def hdr_of(p: dict) -> dict:
    h = p.get("hdr") or {}
    return {"benefit": h.get("benefit", 1), "sym": h.get("sym")}


def sym_text(name: str) -> str:
    import re
    return "@" + name if re.fullmatch(r"[A-Za-z_][A-Za-z0-9_$.]*", name) else '@"' + name + '"'


def header_text(h: dict) -> str:
    """`pdl.pattern [@name] : benefit(n)`"""
    return "pdl.pattern" + (" " + sym_text(h["sym"]) if h.get("sym") is not None else "") + f" : benefit({h.get('benefit', 1)})"


HEADER_RE = r"pdl\.pattern\b[^{]*\{"


def with_header(ptext: str, h: dict) -> str:
    """the same single-pattern module text under another `pdl.pattern` header (corpus patterns)"""
    import re
    return re.sub(HEADER_RE, lambda m: header_text(h) + " {", ptext, count=1)


def pattern_text(p: dict) -> str:
    """`builtin.module { pdl.pattern … }` in the custom syntax used by the corpus."""
    out: list[str] = []
    done: set[str] = set()
    lazy = p.get("layout", "grouped") == "lazy"

    def decl_type(t: int) -> None:
        if f"t{t}" in done:
            return
        done.add(f"t{t}")
        c = p["types"][t]
        out.append(f"  %t{t} = pdl.type" + (f" : {c}" if c is not None else ""))

    def decl_attr(a: int) -> None:
        if f"a{a}" in done:
            return
        done.add(f"a{a}")
        d = p["attrs"][a]
        if d.get("t") is not None:
            decl_type(d["t"])
            out.append(f"  %a{a} = pdl.attribute : %t{d['t']}")
        elif d.get("v") is not None:
            out.append(f"  %a{a} = pdl.attribute = {d['v']}")
        else:
            out.append(f"  %a{a} = pdl.attribute")

    def decl_val(v: int) -> None:
        if f"v{v}" in done:
            return
        done.add(f"v{v}")
        t = p["vals"][v]
        if t is not None:
            decl_type(t)
            out.append(f"  %v{v} = pdl.operand : %t{t}")
        else:
            out.append(f"  %v{v} = pdl.operand")

    def decl_res(o: int, r: int, indent: str = "  ") -> None:
        if f"r{o}_{r}" in done:
            return
        done.add(f"r{o}_{r}")
        out.append(f"{indent}%r{o}_{r} = pdl.result {r} of %o{o}")

    def op_text(name: str | None, operands: list[str], attrs: list[tuple[str, str]], tys: list[str]) -> str:
        s = "pdl.operation"
        if name is not None:
            s += f' "{name}"'
        if operands:
            s += f" ({', '.join(operands)} : {_valty(len(operands))})"
        if attrs:
            s += " {" + ", ".join(f'"{n}" = {a}' for n, a in attrs) + "}"
        if tys:
            s += f" -> ({', '.join(tys)} : {', '.join(['!pdl.type'] * len(tys))})"
        return s

    # only nodes with a binding use may be declared in the matcher body
    used_v = {r[1] for o in p["ops"] for r in o["operands"] if r[0] == "v"}
    used_a = {a for o in p["ops"] for _, a in o["attrs"]}
    used_t = {t for o in p["ops"] for t in o["results"]}
    used_t |= {p["vals"][v] for v in used_v if p["vals"][v] is not None}
    used_t |= {p["attrs"][a]["t"] for a in used_a if p["attrs"][a].get("t") is not None}
    if not lazy:
        for t in sorted(used_t):
            decl_type(t)
        for a in sorted(used_a):
            decl_attr(a)
        for v in sorted(used_v):
            decl_val(v)
    for i, o in enumerate(p["ops"]):
        opnds = []
        for ref in o["operands"]:
            if ref[0] == "v":
                decl_val(ref[1])
                opnds.append(f"%v{ref[1]}")
            else:
                decl_res(ref[1], ref[2])
                opnds.append(f"%r{ref[1]}_{ref[2]}")
        for _, a in o["attrs"]:
            decl_attr(a)
        for t in o["results"]:
            decl_type(t)
        out.append(f"  %o{i} = " + op_text(o["name"], opnds, [(n, f"%a{a}") for n, a in o["attrs"]],
                                          [f"%t{t}" for t in o["results"]]))
    # values only the rewrite needs
    def walk_valrefs():
        for act in p["rw"]:
            if act[0] == "op":
                yield from act[2]
            elif act[0] == "replace_vals":
                yield from act[2]

    if p.get("mres", "rewrite") == "match":
        for ref in walk_valrefs():
            if ref[0] == "mr":
                decl_res(ref[1], ref[2])
    root = len(p["ops"]) - 1
    out.append(f"  pdl.rewrite %o{root} {{")
    k = 0
    rk = 0

    def vref(ref: list) -> str:
        nonlocal rk
        if ref[0] == "v":
            return f"%v{ref[1]}"
        if ref[0] == "mr":
            decl_res(ref[1], ref[2], "    ")
            return f"%r{ref[1]}_{ref[2]}"
        rk += 1
        out.append(f"    %q{rk} = pdl.result {ref[2]} of %n{ref[1]}")
        return f"%q{rk}"

    def oref(ref: list) -> str:
        return f"%o{ref[1]}" if ref[0] == "m" else f"%n{ref[1]}"

    ck = 0
    for act in p["rw"]:
        if act[0] == "op":
            opnds = [vref(r) for r in act[2]]
            attrs = []
            for n, ar in act[3]:
                if ar[0] == "c":
                    attrs.append((n, f"%a{ar[1]}"))
                else:
                    ck += 1
                    out.append(f"    %ka{ck} = pdl.attribute = {ar[1]}")
                    attrs.append((n, f"%ka{ck}"))
            tys = []
            for tr in act[4]:
                if tr[0] == "c":
                    tys.append(f"%t{tr[1]}")
                else:
                    ck += 1
                    out.append(f"    %kt{ck} = pdl.type : {tr[1]}")
                    tys.append(f"%kt{ck}")
            out.append(f"    %n{k} = " + op_text(act[1], opnds, attrs, tys))
            k += 1
        elif act[0] == "replace_vals":
            vs = [vref(r) for r in act[2]]
            if act is not p["rw"][-1] and vs:
                # xDSL's parser takes a following `%x = …` line for the optional replacement operation: generic form
                out.append(f'    "pdl.replace"({oref(act[1])}, {", ".join(vs)}) <{{operandSegmentSizes = array<i32: 1, 0, {len(vs)}>}}> '
                           f': (!pdl.operation, {_valty(len(vs))}) -> ()')
            else:
                out.append(f"    pdl.replace {oref(act[1])} with ({', '.join(vs)} : {_valty(len(vs))})" if vs
                           else f"    pdl.replace {oref(act[1])} with")
        elif act[0] == "replace_op":
            out.append(f"    pdl.replace {oref(act[1])} with {oref(act[2])}")
        elif act[0] == "erase":
            out.append(f"    pdl.erase {oref(act[1])}")
        else:
            raise ValueError(act)
    out.append("  }")
    return "builtin.module {\n" + header_text(hdr_of(p)) + " {\n" + "\n".join(out) + "\n}\n}\n"


def payload_text(pl: dict) -> str:
    lines = []
    args = ", ".join(f"%a{k} : {t}" for k, t in enumerate(pl["args"]))
    lines.append(f'builtin.module {{\n"{WRAPPER}"() ({{')
    if pl["args"]:
        lines.append(f"^bb0({args}):")
    for i, o in enumerate(pl["ops"]):
        opnds = []
        otys = []
        for ref in o["operands"]:
            if ref[0] == "a":
                opnds.append(f"%a{ref[1]}")
                otys.append(pl["args"][ref[1]])
            else:
                opnds.append(f"%x{ref[1]}_{ref[2]}")
                otys.append(pl["ops"][ref[1]]["results"][ref[2]])
        res = ", ".join(f"%x{i}_{r}" for r in range(len(o["results"])))
        name = o["name"] if o["name"] != "builtin.unregistered" else "unreg.x"
        s = (res + " = " if res else "") + f'"{name}"({", ".join(opnds)})'
        if o.get("props"):
            s += " <{" + ", ".join(f'"{n}" = {v}' for n, v in o["props"]) + "}>"
        if o.get("attrs"):
            s += " {" + ", ".join(f'"{n}" = {v}' for n, v in o["attrs"]) + "}"
        s += f" : ({', '.join(otys)}) -> ({', '.join(o['results'])})"
        lines.append("  " + s)
    lines.append('  "test.termop"() : () -> ()')
    lines.append("}) : () -> ()\n}\n")
    return "\n".join(lines)


# ---------------------------------------------------------------------------------------------
# xDSL plumbing
# ---------------------------------------------------------------------------------------------

_CTX = None


def get_ctx():
    global _CTX
    if _CTX is None:
        from xdsl.context import Context
        from xdsl.dialects import arith, builtin, func, pdl, pdl_interp, test
        c = Context(allow_unregistered=True)
        for d in (builtin.Builtin, pdl.PDL, pdl_interp.PDLInterp, test.Test, arith.Arith, func.Func):
            c.load_dialect(d)
        _CTX = c
    return _CTX


def parse(text: str):
    from xdsl.parser import Parser
    m = Parser(get_ctx(), text).parse_module()
    return m


def attr_text(a: Any) -> str:
    from xdsl.printer import Printer
    s = io.StringIO()
    Printer(stream=s).print_attribute(a)
    return s.getvalue()


def payload_block(module):
    """the single payload block (inside the wrapper op) of a module produced by payload_text"""
    w = module.body.block.first_op
    return w.regions[0].block


def canon_block(block) -> dict:
    """abstract payload of a block of region-free ops (ids = positions)"""
    from xdsl.ir import BlockArgument, OpResult
    body = [op for op in block.ops if op.name != "test.termop"]
    pos = {op: i for i, op in enumerate(body)}
    ops = []
    for op in body:
        opnds = []
        for v in op.operands:
            if isinstance(v, BlockArgument) and v.block is block:
                opnds.append(["a", v.index])
            elif isinstance(v, OpResult) and v.op in pos:
                opnds.append(["r", pos[v.op], v.index])
            else:
                opnds.append(["dangling", type(v).__name__])
        ops.append({
            # an unregistered op is called "builtin.unregistered" as far as both matchers are concerned
            "name": op.name,
            "operands": opnds,
            "attrs": sorted([n, attr_text(a)] for n, a in op.attributes.items() if n != "op_name__"),
            "props": sorted([n, attr_text(a)] for n, a in op.properties.items() if n != "op_name__"),
            "results": [attr_text(r.type) for r in op.results],
        })
    return {"args": [attr_text(a.type) for a in block.args], "ops": ops}


def canon_line(pl: dict) -> str:
    """one-line canonical text of an abstract payload (the same format the Lean model prints)"""
    def v(ref):
        return f"a{ref[1]}" if ref[0] == "a" else (f"r{ref[1]}.{ref[2]}" if ref[0] == "r" else "dangling")
    parts = []
    for o in pl["ops"]:
        # properties are written `<n>=…`: an attribute and a property of the same name are different things (and so
        # are an op that keeps a value as a property and one that keeps it as an attribute)
        al = sorted([[n, t] for n, t in o.get("attrs", [])] + [["<" + n + ">", t] for n, t in o.get("props", [])])
        parts.append(o["name"] + "(" + ",".join(v(r) for r in o["operands"]) + "){" +
                     ",".join(f"{n}={t}" for n, t in al) + "}->(" + ",".join(o["results"]) + ")")
    return "[" + ",".join(pl["args"]) + "] " + " ; ".join(parts)


class StepLimit(Exception):
    pass


class Limited:
    """wraps a RewritePattern: counts rewrites, raises StepLimit after `limit` of them"""

    def __init__(self, inner, limit: int):
        from xdsl.pattern_rewriter import RewritePattern

        outer = self

        class _P(RewritePattern):
            def match_and_rewrite(self, op, rewriter):  # type: ignore[override]
                inner.match_and_rewrite(op, rewriter)
                if rewriter.has_done_action:
                    outer.n += 1
                    if outer.n > limit:
                        raise StepLimit()

        self.n = 0
        self.pattern = _P()


class Path1:
    """apply the PDL pattern directly (xdsl.interpreters.pdl)"""
    name = "pdl"

    def __init__(self, pattern_module):
        from xdsl.dialects import pdl
        from xdsl.interpreters.pdl import PDLRewritePattern
        self.module = pattern_module
        self.rw = [o for o in pattern_module.walk() if isinstance(o, pdl.RewriteOp)][0]
        self.pattern = PDLRewritePattern(self.rw, get_ctx(), None)

    def match(self, op) -> tuple[bool, Any]:
        from xdsl.interpreters.pdl import PDLMatcher
        m = PDLMatcher()
        root = self.rw.root
        ok = m.match_operation(root, root.op, op)
        return bool(ok), (m.matching_context if ok else None)

    def rewrite_at(self, op) -> bool:
        from xdsl.pattern_rewriter import PatternRewriter
        r = PatternRewriter(op)
        self.pattern.match_and_rewrite(op, r)
        return r.has_done_action


class Path2:
    """convert-pdl-to-pdl-interp, then the pdl_interp matcher/rewriter (xdsl.interpreters.pdl_interp)"""
    name = "pdl_interp"

    def __init__(self, pattern_module):
        from xdsl.dialects import pdl_interp
        from xdsl.interpreter import Interpreter
        from xdsl.interpreters.pdl_interp import PDLInterpFunctions
        from xdsl.transforms.apply_pdl_interp import PDLInterpRewritePattern
        from xdsl.transforms.convert_pdl_to_pdl_interp.conversion import ConvertPDLToPDLInterpPass
        self.module = pattern_module.clone()
        ConvertPDLToPDLInterpPass().apply(get_ctx(), self.module)
        self.module.verify()
        matcher = None
        for cur in self.module.walk():
            if isinstance(cur, pdl_interp.FuncOp) and cur.sym_name.data == "matcher":
                matcher = cur
                break
        assert matcher is not None
        self.matcher = matcher
        self.interp = Interpreter(self.module)
        self.fns = PDLInterpFunctions()
        PDLInterpFunctions.set_ctx(self.interp, get_ctx())
        self.interp.register_implementations(self.fns)
        self.pattern = PDLInterpRewritePattern(matcher, self.interp, self.fns)

    def match(self, op) -> tuple[bool, Any]:
        from xdsl.interpreters.pdl_interp import PDLInterpFunctions
        from xdsl.pattern_rewriter import PatternRewriter
        r = PatternRewriter(op)
        self.fns.set_rewriter(self.interp, r)
        pend = PDLInterpFunctions.get_pending_rewrites(self.interp)
        pend.clear()
        try:
            self.interp.call_op(self.matcher, (op,))
            n = len(pend)
        finally:
            pend.clear()
            self.fns.set_rewriter(self.interp, None)
        return n > 0, None

    def rewrite_at(self, op) -> bool:
        from xdsl.interpreters.pdl_interp import PDLInterpFunctions
        from xdsl.pattern_rewriter import PatternRewriter
        PDLInterpFunctions.get_pending_rewrites(self.interp).clear()
        r = PatternRewriter(op)
        try:
            self.pattern.match_and_rewrite(op, r)
        finally:
            PDLInterpFunctions.get_pending_rewrites(self.interp).clear()
        return r.has_done_action


def strip_hints(module) -> None:
    for op in module.walk():
        for r in op.results:
            r.name_hint = None
        for reg in op.regions:
            for b in reg.blocks:
                for a in b.args:
                    a.name_hint = None


def module_text(module) -> str:
    strip_hints(module)
    s = io.StringIO()
    from xdsl.printer import Printer
    Printer(stream=s, print_generic_format=True).print_op(module)
    return s.getvalue()


def exc_obs(e: BaseException) -> str:
    return "raise " + type(e).__name__


def run_walker(path, payload_module, limit: int, recursive: bool = True) -> str:
    """greedy application with xDSL's own PatternRewriteWalker; returns the generic text or `raise X`"""
    from xdsl.pattern_rewriter import PatternRewriteWalker
    lim = Limited(path.pattern, limit)
    try:
        PatternRewriteWalker(lim.pattern, apply_recursively=recursive).rewrite_module(payload_module)
    except StepLimit:
        return "raise StepLimit"
    except Exception as e:  # noqa: BLE001
        return exc_obs(e)
    finally:
        if hasattr(path, "interp"):
            from xdsl.interpreters.pdl_interp import PDLInterpFunctions
            PDLInterpFunctions.get_pending_rewrites(path.interp).clear()
    try:
        payload_module.verify()
    except Exception as e:  # noqa: BLE001
        return "invalid-ir " + type(e).__name__
    return module_text(payload_module)


# ---------------------------------------------------------------------------------------------
# abstract pattern from a parsed pdl.pattern (corpus patterns); None when outside the fragment
# ---------------------------------------------------------------------------------------------

def extract_pattern(pat_op) -> dict | None:
    from xdsl.dialects import pdl
    from xdsl.ir import OpResult
    types: list = []
    attrs: list = []
    vals: list = []
    ops: list = []
    tix: dict = {}
    aix: dict = {}
    vix: dict = {}
    oix: dict = {}
    body = list(pat_op.body.block.ops)
    if not body or not isinstance(body[-1], pdl.RewriteOp):
        return None
    rw = body[-1]
    if rw.root is None or rw.body is None or rw.name_ is not None or len(rw.body.blocks) != 1:
        return None

    def ty(v) -> int | None:
        if v in tix:
            return tix[v]
        o = v.owner
        if not isinstance(o, pdl.TypeOp):
            raise KeyError("not a pdl.type")
        tix[v] = len(types)
        types.append(attr_text(o.constantType) if o.constantType is not None else None)
        return tix[v]

    try:
        for o in body[:-1]:
            if isinstance(o, pdl.TypeOp):
                ty(o.result)
            elif isinstance(o, pdl.AttributeOp):
                aix[o.output] = len(attrs)
                attrs.append({"v": attr_text(o.value) if o.value is not None else None,
                              "t": ty(o.value_type) if o.value_type is not None else None})
            elif isinstance(o, pdl.OperandOp):
                vix[o.value] = len(vals)
                vals.append(ty(o.value_type) if o.value_type is not None else None)
            elif isinstance(o, pdl.ResultOp):
                pass
            elif isinstance(o, pdl.OperationOp):
                opnds = []
                for v in o.operand_values:
                    if v in vix:
                        opnds.append(["v", vix[v]])
                    elif isinstance(v, OpResult) and isinstance(v.op, pdl.ResultOp):
                        opnds.append(["r", oix[v.op.parent_], v.op.index.value.data])
                    else:
                        return None
                oix[o.op] = len(ops)
                ops.append({"name": o.opName.data if o.opName is not None else None,
                            "attrs": [[n.data, aix[a]] for n, a in zip(o.attributeValueNames.data, o.attribute_values)],
                            "operands": opnds,
                            "results": [ty(t) for t in o.type_values]})
            else:
                return None
        if not ops or oix.get(rw.root) != len(ops) - 1:
            return None
        # every non-root op must be reachable from the root through result operands
        reach = {len(ops) - 1}
        for i in range(len(ops) - 1, -1, -1):
            if i in reach:
                for r in ops[i]["operands"]:
                    if r[0] == "r":
                        reach.add(r[1])
        if len(reach) != len(ops):
            return None
        # rewrite section
        acts: list = []
        nix: dict = {}
        rvals: dict = {}
        rattr: dict = {}
        rty: dict = {}

        def vref(v):
            if v in vix:
                return ["v", vix[v]]
            if v in rvals:
                return rvals[v]
            if isinstance(v, OpResult) and isinstance(v.op, pdl.ResultOp) and v.op.parent_ in oix:
                return ["mr", oix[v.op.parent_], v.op.index.value.data]
            raise KeyError("value")

        def oref(v):
            if v in oix:
                return ["m", oix[v]]
            return ["n", nix[v]]

        for o in rw.body.block.ops:
            if isinstance(o, pdl.AttributeOp):
                if o.value is None:
                    return None
                rattr[o.output] = ["k", attr_text(o.value)]
            elif isinstance(o, pdl.TypeOp):
                if o.constantType is None:
                    return None
                rty[o.result] = ["k", attr_text(o.constantType)]
            elif isinstance(o, pdl.ResultOp):
                if o.parent_ in oix:
                    rvals[o.val] = ["mr", oix[o.parent_], o.index.value.data]
                else:
                    rvals[o.val] = ["nr", nix[o.parent_], o.index.value.data]
            elif isinstance(o, pdl.OperationOp):
                if o.opName is None:
                    return None
                nix[o.op] = len(nix)
                acts.append(["op", o.opName.data, [vref(v) for v in o.operand_values],
                             [[n.data, rattr[a] if a in rattr else ["c", aix[a]]]
                              for n, a in zip(o.attributeValueNames.data, o.attribute_values)],
                             [rty[t] if t in rty else ["c", tix[t]] for t in o.type_values]])
            elif isinstance(o, pdl.ReplaceOp):
                if o.repl_operation is not None:
                    acts.append(["replace_op", oref(o.op_value), oref(o.repl_operation)])
                else:
                    acts.append(["replace_vals", oref(o.op_value), [vref(v) for v in o.repl_values]])
            elif isinstance(o, pdl.EraseOp):
                acts.append(["erase", oref(o.op_value)])
            else:
                return None
    except KeyError:
        return None
    hdr = {"benefit": pat_op.benefit.value.data % 65536, "sym": pat_op.sym_name.data if pat_op.sym_name is not None else None}
    return {"types": types, "attrs": attrs, "vals": vals, "ops": ops, "rw": acts, "hdr": hdr}


def normalise_pattern(p: dict) -> dict:
    """drop layout hints and renumber nothing: used to compare extract(parse(text(p))) with p"""
    return {**{k: p[k] for k in ("types", "attrs", "vals", "ops", "rw")}, "hdr": hdr_of(p)}


# ---------------------------------------------------------------------------------------------
# Reference: PDL specification, written independently of both xDSL paths.
#
# A pattern is a set of constraints over a binding of its nodes.  The binding is forced by the access
# paths from the root (operand k of …, result type k of …, attribute "n" of …); the reference first collects,
# for every node, ALL entities the access paths lead to, then demands that they agree and satisfy the
# node's own constraints.
# ---------------------------------------------------------------------------------------------

TYPED_ATTR_TYPES: dict[str, str | None] = {}


def attr_type_of(text: str) -> str | None:
    """type of an attribute given as text (None when it is not a typed attribute)"""
    if text not in TYPED_ATTR_TYPES:
        from xdsl.ir import TypedAttribute
        from xdsl.parser import Parser
        a = Parser(get_ctx(), text).parse_attribute()
        TYPED_ATTR_TYPES[text] = attr_text(a.get_type()) if isinstance(a, TypedAttribute) else None
    return TYPED_ATTR_TYPES[text]


def norm_attr_text(text: str) -> str:
    from xdsl.parser import Parser
    return attr_text(Parser(get_ctx(), text).parse_attribute())


def pl_value_type(pl: dict, ref: list) -> str:
    return pl["args"][ref[1]] if ref[0] == "a" else pl["ops"][ref[1]]["results"][ref[2]]


def pl_attr(op: dict, name: str) -> str | None:
    """attribute or property called `name`"""
    for n, t in op.get("props", []):
        if n == name:
            return t
    for n, t in op.get("attrs", []):
        if n == name:
            return t
    return None


def ref_match(p: dict, pl: dict, root: int) -> dict | None:
    return ref_match_why(p, pl, root)[0]


def ref_match_why(p: dict, pl: dict, root: int) -> tuple[dict | None, str]:
    """(binding, "") or (None, the first constraint that is violated).  Binding =
    {"ops": {i: payload op}, "vals": {i: valref}, "attrs": {i: text}, "types": {i: text}}"""
    cand_ops: dict[int, list[int]] = {len(p["ops"]) - 1: [root]}
    cand_vals: dict[int, list] = {}
    cand_attrs: dict[int, list[str]] = {}
    cand_tys: dict[int, list[str]] = {}
    ops: dict[int, int] = {}
    for i in range(len(p["ops"]) - 1, -1, -1):
        c = cand_ops.get(i)
        if not c:
            return None, "pattern op not connected to the root"          # outside the fragment
        if any(x != c[0] for x in c):
            return None, "one pattern op reached through two different payload ops"
        x = pl["ops"][c[0]]
        ops[i] = c[0]
        po = p["ops"][i]
        if po["name"] is not None and po["name"] != x["name"]:
            return None, "operation name differs"
        if len(po["operands"]) != len(x["operands"]):
            return None, "operand count differs"
        if len(po["results"]) != len(x["results"]):
            return None, "result count differs"
        for (n, a) in po["attrs"]:
            av = pl_attr(x, n)
            if av is None:
                return None, "attribute missing"
            cand_attrs.setdefault(a, []).append(av)
        for ref, actual in zip(po["operands"], x["operands"]):
            if ref[0] == "v":
                cand_vals.setdefault(ref[1], []).append(actual)
            else:
                if actual[0] != "r":
                    return None, "operand is not an operation result"
                if actual[2] != ref[2]:
                    return None, "operand is another result of the defining operation"
                cand_ops.setdefault(ref[1], []).append(actual[1])
        for t, actual in zip(po["results"], x["results"]):
            cand_tys.setdefault(t, []).append(actual)
    vals = {}
    for v, c in cand_vals.items():
        if any(list(x) != list(c[0]) for x in c):
            return None, "one pdl.operand reached through two different values"
        vals[v] = list(c[0])
        if p["vals"][v] is not None:
            cand_tys.setdefault(p["vals"][v], []).append(pl_value_type(pl, c[0]))
    attrs = {}
    for a, c in cand_attrs.items():
        if any(x != c[0] for x in c):
            return None, "one pdl.attribute reached through two different attributes"
        attrs[a] = c[0]
        d = p["attrs"][a]
        if d.get("v") is not None and d.get("t") is None and norm_attr_text(d["v"]) != c[0]:
            return None, "attribute value differs"
        if d.get("t") is not None:
            at = attr_type_of(c[0])
            if at is None:
                return None, "attribute with a type constraint has no type"
            cand_tys.setdefault(d["t"], []).append(at)
    tys = {}
    for t, c in cand_tys.items():
        if any(x != c[0] for x in c):
            return None, "one pdl.type reached through two different types"
        tys[t] = c[0]
        if p["types"][t] is not None and norm_attr_text(p["types"][t]) != c[0]:
            return None, "constant type differs"
    return {"ops": ops, "vals": vals, "attrs": attrs, "types": tys}, ""


def canon_opname(name: str) -> str:
    """the name both real paths see on a created op: unregistered ops are all `builtin.unregistered`"""
    from xdsl.dialects.builtin import UnregisteredOp
    t = get_ctx().get_optional_op(name)
    return name if t is not None and not issubclass(t, UnregisteredOp) else "builtin.unregistered"


_PROP_NAMES: dict[str, frozenset] = {}


def created_prop_names(name: str) -> frozenset:
    """the attribute names of a `pdl.operation` of the rewrite section that denote PROPERTIES of the created op:
    those the definition of the (registered) operation declares as properties; everything else, and everything on an
    unregistered op, is a discardable attribute"""
    if name not in _PROP_NAMES:
        from xdsl.dialects.builtin import UnregisteredOp
        from xdsl.irdl import IRDLOperation
        t = get_ctx().get_optional_op(name)
        if t is not None and issubclass(t, IRDLOperation) and not issubclass(t, UnregisteredOp):
            _PROP_NAMES[name] = frozenset(t.get_irdl_definition().properties.keys())
        else:
            _PROP_NAMES[name] = frozenset()
    return _PROP_NAMES[name]


class RefError(Exception):
    pass


def ref_apply(p: dict, pl: dict, b: dict) -> dict:
    """the rewrite of `p` under binding `b` on the abstract payload; raises RefError where the rewrite is ill-formed
    at run time (wrong number of replacement values, erasing an op that still has uses, using an unbound or erased
    value).  Payload ops carry a hidden unique "id"; the result is renumbered by position."""
    ops = [{**o, "operands": [list(r) for r in o["operands"]], "id": i} for i, o in enumerate(pl["ops"])]
    next_id = len(ops)
    root_id = b["ops"][len(p["ops"]) - 1]
    created: list[int] = []

    def find(i: int) -> dict | None:
        for o in ops:
            if o["id"] == i:
                return o
        return None

    def val(ref) -> list:
        if ref[0] == "v":
            if ref[1] not in b["vals"]:
                raise RefError("unbound value")
            v = b["vals"][ref[1]]
        elif ref[0] == "mr":
            v = ["r", b["ops"][ref[1]], ref[2]]
        else:
            v = ["r", created[ref[1]], ref[2]]
        if v[0] == "r":
            o = find(v[1])
            if o is None or v[2] >= len(o["results"]):
                raise RefError("value not available")
        return v

    def opid(ref) -> int:
        i = b["ops"][ref[1]] if ref[0] == "m" else created[ref[1]]
        if find(i) is None:
            raise RefError("op not available")
        return i

    def erase(i: int) -> None:
        for o in ops:
            for r in o["operands"]:
                if r[0] == "r" and r[1] == i:
                    raise RefError("erased op still has uses")
        ops[:] = [o for o in ops if o["id"] != i]

    def replace(i: int, vs: list) -> None:
        x = find(i)
        assert x is not None
        if len(vs) != len(x["results"]):
            raise RefError("number of replacement values")
        for k, nv in enumerate(vs):
            for o in ops:
                o["operands"] = [list(nv) if (r[0] == "r" and r[1] == i and r[2] == k) else r for r in o["operands"]]
        erase(i)

    for act in p["rw"]:
        if act[0] == "op":
            attrs, props = [], []
            for n, ar in act[3]:
                if ar[0] == "c":
                    if ar[1] not in b["attrs"]:
                        raise RefError("unbound attribute")
                    t = b["attrs"][ar[1]]
                else:
                    t = norm_attr_text(ar[1])
                (props if n in created_prop_names(act[1]) else attrs).append([n, t])
            tys = []
            for tr in act[4]:
                if tr[0] == "c":
                    if tr[1] not in b["types"]:
                        raise RefError("unbound type")
                    tys.append(b["types"][tr[1]])
                else:
                    tys.append(norm_attr_text(tr[1]))
            new = {"name": canon_opname(act[1]), "operands": [val(r) for r in act[2]], "attrs": attrs, "props": props,
                   "results": tys, "id": next_id}
            created.append(next_id)
            next_id += 1
            at = next((k for k, o in enumerate(ops) if o["id"] == root_id), None)
            if at is None:
                raise RefError("root erased before insertion")
            ops.insert(at, new)
        elif act[0] == "replace_vals":
            i = opid(act[1])
            replace(i, [val(r) for r in act[2]])
        elif act[0] == "replace_op":
            i = opid(act[1])
            j = opid(act[2])
            n = find(j)
            assert n is not None
            replace(i, [["r", j, k] for k in range(len(n["results"]))])
        elif act[0] == "erase":
            erase(opid(act[1]))
    pos = {o["id"]: k for k, o in enumerate(ops)}
    out = []
    for o in ops:
        out.append({"name": o["name"],
                    "operands": [r if r[0] == "a" else ["r", pos[r[1]], r[2]] for r in o["operands"]],
                    "attrs": sorted(o.get("attrs", [])), "props": sorted(o.get("props", [])),
                    "results": list(o["results"])})
    return {"args": list(pl["args"]), "ops": out}


# ---------------------------------------------------------------------------------------------
# reference DRIVER: greedy application as PatternRewriteWalker does it (worklist, use lists), written from
# pattern_rewriter.py / utils/worklist.py / ir/core.py on top of the reference matcher (mirrored by the Lean
# model `driveW` of XdslModel/PDL.lean)
# ---------------------------------------------------------------------------------------------

class DriveFuel(Exception):
    pass


def ref_drive(p: dict, pl: dict, reverse: bool = False, fuel: int = 400, trace: list | None = None) -> dict:
    """the payload after `PatternRewriteWalker(pattern, walk_reverse=reverse).rewrite_module` according to the
    specification: ops are visited in worklist order (a LIFO stack without duplicates, populated with every op so
    that the first — `reverse`: the last — op is on top; created ops, users of replaced results, modified ops and the
    single-use producers of an erased op's operands are pushed; erased ops are removed), the use lists are kept
    newest-first like IRWithUses; the walk is repeated until one whole walk changes nothing.
    Raises RefError where a rewrite is ill-formed (the real driver aborts there), DriveFuel after `fuel` visits."""
    ops = [{**o, "operands": [list(r) for r in o["operands"]], "id": i} for i, o in enumerate(pl["ops"])]
    next_id = [len(ops)]
    uses: dict[tuple, list[tuple[int, int]]] = {}
    wl: list[int] = []                     # top of the stack = wl[0]

    def key(v) -> tuple:
        return tuple(v)

    def add_use(v, u) -> None:
        uses.setdefault(key(v), []).insert(0, u)

    def remove_use(v, u) -> None:
        uses[key(v)].remove(u)

    for o in ops:
        for k, v in enumerate(o["operands"]):
            add_use(v, (o["id"], k))

    def push(i: int) -> None:
        if i not in wl:
            wl.insert(0, i)

    def find(i: int) -> dict | None:
        return next((o for o in ops if o["id"] == i), None)

    def as_payload() -> tuple[dict, dict[int, int]]:
        pos = {o["id"]: k for k, o in enumerate(ops)}
        return ({"args": list(pl["args"]),
                 "ops": [{"name": o["name"], "operands": [r if r[0] == "a" else ["r", pos[r[1]], r[2]] for r in o["operands"]],
                          "attrs": sorted(o.get("attrs", [])), "props": sorted(o.get("props", [])),
                          "results": list(o["results"])} for o in ops]}, pos)

    def erase(x: dict) -> None:
        for v in x["operands"]:                                   # _add_operands_to_worklist
            if v[0] == "r" and len(uses.get(key(v), [])) == 1:
                push(v[1])
        if x["id"] in wl:
            wl.remove(x["id"])
        for k, v in enumerate(x["operands"]):                     # drop_all_references
            remove_use(v, (x["id"], k))
        for k in range(len(x["results"])):
            if uses.get(("r", x["id"], k)):
                raise RefError("erased op still has uses")
        ops.remove(x)

    def replace(x: dict, vs: list) -> None:
        if len(vs) != len(x["results"]):
            raise RefError("number of replacement values")
        for k in range(len(x["results"])):                        # _handle_operation_replacement
            for (u, _) in list(uses.get(("r", x["id"], k), [])):
                push(u)
        for k, nv in enumerate(vs):                               # replace_all_uses_with, result by result
            old = ["r", x["id"], k]
            if list(nv) == old:
                continue
            snapshot = list(uses.get(key(old), []))
            for (u, idx) in snapshot:
                remove_use(old, (u, idx))
                find(u)["operands"][idx] = list(nv)
                add_use(nv, (u, idx))
            for (u, _) in snapshot:                               # _handle_operation_modification
                push(u)
        erase(x)

    def visit(root_id: int) -> bool:
        cur, pos = as_payload()
        b, _ = ref_match_why(p, cur, pos[root_id])
        if b is None:
            return False
        inv = {k: i for i, k in pos.items()}
        bops = {i: inv[k] for i, k in b["ops"].items()}
        bvals = {i: (v if v[0] == "a" else ["r", inv[v[1]], v[2]]) for i, v in b["vals"].items()}
        created: list[int] = []

        def val(ref) -> list:
            if ref[0] == "v":
                if ref[1] not in bvals:
                    raise RefError("unbound value")
                v = bvals[ref[1]]
            elif ref[0] == "mr":
                v = ["r", bops[ref[1]], ref[2]]
            else:
                v = ["r", created[ref[1]], ref[2]]
            if v[0] == "r":
                o = find(v[1])
                if o is None or v[2] >= len(o["results"]):
                    raise RefError("value not available")
            return list(v)

        def opref(ref) -> dict:
            o = find(bops[ref[1]] if ref[0] == "m" else created[ref[1]])
            if o is None:
                raise RefError("op not available")
            return o

        for act in p["rw"]:
            if act[0] == "op":
                attrs, props = [], []
                for n, ar in act[3]:
                    if ar[0] == "c":
                        if ar[1] not in b["attrs"]:
                            raise RefError("unbound attribute")
                        t = b["attrs"][ar[1]]
                    else:
                        t = norm_attr_text(ar[1])
                    (props if n in created_prop_names(act[1]) else attrs).append([n, t])
                tys = []
                for tr in act[4]:
                    if tr[0] == "c":
                        if tr[1] not in b["types"]:
                            raise RefError("unbound type")
                        tys.append(b["types"][tr[1]])
                    else:
                        tys.append(norm_attr_text(tr[1]))
                new = {"name": canon_opname(act[1]), "operands": [val(r) for r in act[2]], "attrs": attrs, "props": props,
                       "results": tys, "id": next_id[0]}
                next_id[0] += 1
                created.append(new["id"])
                at = next((k for k, o in enumerate(ops) if o["id"] == root_id), None)
                if at is None:
                    raise RefError("root erased before insertion")
                ops.insert(at, new)
                for k, v in enumerate(new["operands"]):
                    add_use(v, (new["id"], k))
                push(new["id"])                                   # _handle_operation_insertion
            elif act[0] == "replace_vals":
                x = opref(act[1])
                replace(x, [val(r) for r in act[2]])
            elif act[0] == "replace_op":
                x, y = opref(act[1]), opref(act[2])
                replace(x, [["r", y["id"], k] for k in range(len(y["results"]))])
            elif act[0] == "erase":
                erase(opref(act[1]))
        return bool(p["rw"])

    visits = 0
    while True:
        for o in (ops if reverse else reversed(ops)):             # _populate_worklist
            push(o["id"])
        changed = False
        while wl:
            i = wl.pop(0)
            visits += 1
            if visits > fuel:
                raise DriveFuel()
            if trace is not None:
                trace.append(as_payload()[1][i])
            changed |= visit(i)
        if not changed:
            return as_payload()[0]


# ---------------------------------------------------------------------------------------------
# encoding for the Lean model `pdl` (XdslModel/PDL.lean): everything is a sequence of naturals
# ---------------------------------------------------------------------------------------------

_NORM: dict[str, str] = {}


def norm(text: str) -> str:
    if text not in _NORM:
        _NORM[text] = norm_attr_text(text)
    return _NORM[text]


class Interner:
    def __init__(self, p: dict, pl: dict):
        tys: set[str] = set()
        avs: set[str] = set()
        names: set[str] = set()
        opnames: set[str] = set()
        for t in p["types"]:
            if t is not None:
                tys.add(norm(t))
        for d in p["attrs"]:
            if d.get("v") is not None:
                avs.add(norm(d["v"]))
        for o in p["ops"]:
            if o["name"] is not None:
                opnames.add(o["name"])
            for n, _ in o["attrs"]:
                names.add(n)
        for act in p["rw"]:
            if act[0] == "op":
                opnames.add(canon_opname(act[1]))
                for n, ar in act[3]:
                    names.add(n)
                    if ar[0] == "k":
                        avs.add(norm(ar[1]))
                for tr in act[4]:
                    if tr[0] == "k":
                        tys.add(norm(tr[1]))
        tys.update(pl["args"])
        for o in pl["ops"]:
            opnames.add(o["name"])
            tys.update(o["results"])
            for n, t in list(o.get("attrs", [])) + list(o.get("props", [])):
                names.add(n)
                avs.add(t)
        for a in list(avs):
            t = attr_type_of(a)
            if t is not None:
                tys.add(t)
        self.ty = {t: i for i, t in enumerate(sorted(tys))}
        self.av = {a: i for i, a in enumerate(sorted(avs))}
        self.name = {n: i for i, n in enumerate(sorted(names))}
        self.opname = {n: i for i, n in enumerate(sorted(opnames))}

    def attr(self, text: str) -> list[int]:
        t = attr_type_of(text)
        return [self.av[text], 0 if t is None else self.ty[t] + 1]


def _opt(x: int | None) -> int:
    return 0 if x is None else x + 1


def encode_pattern(p: dict, I: Interner) -> str:
    out: list[int] = []
    out.append(len(p["types"]))
    for t in p["types"]:
        out.append(_opt(None if t is None else I.ty[norm(t)]))
    out.append(len(p["attrs"]))
    for d in p["attrs"]:
        if d.get("v") is None:
            out.append(0)
        else:
            v, vt = I.attr(norm(d["v"]))
            out += [v + 1, vt]
        out.append(_opt(d.get("t")))
    out.append(len(p["vals"]))
    for t in p["vals"]:
        out.append(_opt(t))
    out.append(len(p["ops"]))
    for o in p["ops"]:
        out.append(_opt(None if o["name"] is None else I.opname[o["name"]]))
        out.append(len(o["attrs"]))
        for n, a in o["attrs"]:
            out += [I.name[n], a]
        out.append(len(o["operands"]))
        for r in o["operands"]:
            out += [0, r[1], 0] if r[0] == "v" else [1, r[1], r[2]]
        out.append(len(o["results"]))
        out += list(o["results"])

    def rval(r):
        return [0, r[1], 0] if r[0] == "v" else ([1, r[1], r[2]] if r[0] == "mr" else [2, r[1], r[2]])

    def rop(r):
        return [0 if r[0] == "m" else 1, r[1]]

    out.append(len(p["rw"]))
    for act in p["rw"]:
        if act[0] == "op":
            out += [0, I.opname[canon_opname(act[1])], len(act[2])]
            for r in act[2]:
                out += rval(r)
            out.append(len(act[3]))
            for n, ar in act[3]:
                if ar[0] == "c":
                    out += [I.name[n], 0, ar[1], 0]
                else:
                    out += [I.name[n], 1, *I.attr(norm(ar[1]))]
            out.append(len(act[4]))
            for tr in act[4]:
                out += [0, tr[1]] if tr[0] == "c" else [1, I.ty[norm(tr[1])]]
        elif act[0] == "replace_vals":
            out += [1, *rop(act[1]), len(act[2])]
            for r in act[2]:
                out += rval(r)
        elif act[0] == "replace_op":
            out += [2, *rop(act[1]), *rop(act[2])]
        else:
            out += [3, *rop(act[1])]
    return "pat " + " ".join(map(str, out))


def encode_ir(pl: dict, I: Interner) -> str:
    out: list[int] = [len(pl["args"])] + [I.ty[t] for t in pl["args"]]
    out.append(len(pl["ops"]))
    for i, o in enumerate(pl["ops"]):
        out += [i * 7 + 3, I.opname[o["name"]], len(o["operands"])]     # ids are deliberately not positions
        for r in o["operands"]:
            out += [0, r[1], 0] if r[0] == "a" else [1, r[1] * 7 + 3, r[2]]
        al = list(o.get("props", [])) + list(o.get("attrs", []))
        out.append(len(al))
        for n, t in al:
            out += [I.name[n], *I.attr(t)]
        out.append(len(o["results"]))
        out += [I.ty[t] for t in o["results"]]
    return "ir " + " ".join(map(str, out))


def lean_ir_line(pl: dict, I: Interner) -> str:
    """the text `showIR` of the Lean model prints for this payload"""
    def v(ref):
        return f"a{ref[1]}" if ref[0] == "a" else (f"r{ref[1]}.{ref[2]}" if ref[0] == "r" else "dangling")
    parts = []
    for o in pl["ops"]:
        # (stable by name, properties first: the model keeps one list in which the property shadows the attribute)
        al = sorted(((I.name[n], I.av[t]) for n, t in list(o.get("props", [])) + list(o.get("attrs", []))), key=lambda x: x[0])
        parts.append(f"{I.opname[o['name']]}(" + ",".join(v(r) for r in o["operands"]) + "){" +
                     ",".join(f"{n}={a}" for n, a in al) + "}(" + ",".join(str(I.ty[t]) for t in o["results"]) + ")")
    return "args(" + ",".join(str(I.ty[t]) for t in pl["args"]) + ") " + ";".join(parts)


def lean_binding_line(b: dict, I: Interner) -> str:
    def v(ref):
        return f"a{ref[1]}" if ref[0] == "a" else f"r{ref[1]}.{ref[2]}"
    return ("match ops=" + ",".join(f"{i}:{o}" for i, o in sorted(b["ops"].items())) +
            " vals=" + ",".join(f"{i}:{v(x)}" for i, x in sorted(b["vals"].items())) +
            " attrs=" + ",".join(f"{i}:{I.av[x]}" for i, x in sorted(b["attrs"].items())) +
            " tys=" + ",".join(f"{i}:{I.ty[x]}" for i, x in sorted(b["types"].items())))


def binding_from_context(path1: "Path1", ctxmap: dict, block, p: dict) -> dict:
    """canonical binding from PDLMatcher.matching_context, for a pattern module emitted by pattern_text(p):
    nodes are identified through the SSA name hints %t<i>, %a<i>, %v<i>, %o<i>"""
    from xdsl.ir import Attribute, BlockArgument, Operation, OpResult
    pos = {op: i for i, op in enumerate(o for o in block.ops if o.name != "test.termop")}
    out: dict = {"ops": {}, "vals": {}, "attrs": {}, "types": {}}
    for k, x in ctxmap.items():
        h = k.name_hint or ""
        if not h or not h[1:].isdigit():
            continue
        i = int(h[1:])
        if h[0] == "o" and isinstance(x, Operation):
            out["ops"][i] = pos.get(x, -1)
        elif h[0] == "v":
            if isinstance(x, BlockArgument):
                out["vals"][i] = ["a", x.index]
            elif isinstance(x, OpResult):
                out["vals"][i] = ["r", pos.get(x.op, -1), x.index]
        elif h[0] == "a" and isinstance(x, Attribute):
            out["attrs"][i] = attr_text(x)
        elif h[0] == "t" and isinstance(x, Attribute):
            out["types"][i] = attr_text(x)
    return out


def skeleton_payload(pat_op, rng) -> dict | None:
    """a payload that follows the shape of ANY pdl.pattern (ranges, native constraints, several roots included):
    every pdl.operation of the match section becomes one op; used for corpus patterns outside the reference fragment"""
    from xdsl.dialects import pdl
    from xdsl.ir import OpResult
    args: list[str] = []
    ops: list[dict] = []
    where: dict = {}
    tyof: dict = {}
    valof: dict = {}

    def ty(v) -> list[str]:
        o = v.owner
        if isinstance(o, pdl.TypeOp):
            if v not in tyof:
                tyof[v] = attr_text(o.constantType) if o.constantType is not None else rng.choice(["i32", "i64"])
            return [tyof[v]]
        if isinstance(o, pdl.TypesOp):
            if v not in tyof:
                tyof[v] = [attr_text(t) for t in o.constantTypes.data] if o.constantTypes is not None else ["i32"] * rng.randint(0, 2)
            return list(tyof[v])
        return ["i32"]

    def value(v) -> list[list]:
        o = v.owner
        if isinstance(o, pdl.ResultOp) and o.parent_ in where:
            i = where[o.parent_]
            k = o.index.value.data
            return [["r", i, k]] if k < len(ops[i]["results"]) else []
        if isinstance(o, pdl.ResultsOp) and o.parent_ in where:
            i = where[o.parent_]
            return [["r", i, k] for k in range(len(ops[i]["results"]))]
        if v in valof:
            return valof[v]
        if isinstance(o, pdl.OperandOp):
            t = ty(o.value_type)[0] if o.value_type is not None else "i32"
            args.append(t)
            valof[v] = [["a", len(args) - 1]]
        elif isinstance(o, pdl.OperandsOp):
            n = rng.randint(0, 2)
            valof[v] = []
            for _ in range(n):
                args.append("i32")
                valof[v].append(["a", len(args) - 1])
        else:
            valof[v] = []
        return valof[v]

    for o in pat_op.body.block.ops:
        if isinstance(o, pdl.OperationOp):
            opnds = [x for v in o.operand_values for x in value(v)]
            attrs = []
            for n, a in zip(o.attributeValueNames.data, o.attribute_values):
                ao = a.owner
                if isinstance(ao, pdl.AttributeOp) and ao.value is not None:
                    attrs.append([n.data, attr_text(ao.value)])
                elif isinstance(ao, pdl.AttributeOp) and ao.value_type is not None:
                    t = ty(ao.value_type)[0]
                    attrs.append([n.data, f"1 : {t}" if t in ("i32", "i64", "index") else "1 : i32"])
                else:
                    attrs.append([n.data, "1 : i32"])
            res = [t for v in o.type_values for t in ty(v)]
            name = o.opName.data if o.opName is not None else "test.op"
            ops.append({"name": name, "operands": opnds, "attrs": attrs, "props": [], "results": res})
            where[o.op] = len(ops) - 1
    if not ops:
        return None
    # a consumer for every result, so that replacements are visible
    cons = [["r", i, k] for i, o in enumerate(ops) for k in range(len(o["results"]))]
    if cons:
        ops.append({"name": "test.op", "operands": cons[-2:], "attrs": [], "props": [], "results": []})
    return {"args": args, "ops": ops}
