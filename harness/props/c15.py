"""C15 — The interpreter computes MLIR semantics for arithmetic and control flow."""
from __future__ import annotations

import math
import struct
import subprocess
from typing import Any, Callable

from vp import core

META = {
    "title": "The interpreter computes MLIR semantics for arithmetic and control flow",
    "category": "proof",
    "design_ref": "DESIGN.md §5 C15",
    "lean_modules": ["XdslProofs.C15", "XdslProofs.C15Casts", "XdslProofs.C15FloatLogic", "XdslProofs.C15Sem"],
    "extra_targets": ["XdslGen", "driver_gen"],
    "text": (
        "The integer kernels of xdsl/interpreters/arith.py and xdsl/utils/comparisons.py are translated "
        "from the current source into Lean on every run (harness/translate); XdslProofs.C15 proves for "
        "every width w≥1 and all integer operands that each translated run_* equals the BitVec (two's-"
        "complement) MLIR semantics and stays in the signed range, wherever MLIR defines the result. "
        "The translation is cross-checked against the real interpreter on all operand pairs for i1..i4 and "
        "boundary/random values for i8..i64/index; an independent Python bit-pattern reference is the "
        "direct oracle (also for float ops and ops outside the translated fragment); multi-operation "
        "programs are run on the real interpreter and on the Lean reference interpreter; so are an enumerated "
        "family of every way a cf terminator forwards block arguments (both successors the same block with "
        "different or permuted operands, different arities, self-loops permuting their own arguments; all value "
        "types, both conditions) and sessions of several calls on ONE Interpreter instance (no call may change a "
        "later one); symbol resolution is checked on modules whose function names differ only in spelling "
        "(@a::@b vs \"a.b\", \"a::b\", \"a_b\", partially merged paths), every function adding its own constant, "
        "called in every colliding order as str / SymbolRefAttr / through func.call, and again after the callee "
        "was replaced in the module. "
        "XdslProofs.C15Casts proves the translated cast kernels (_truncate, _sign_extend, run_indexcast) equal "
        "BitVec truncate/signExtend for all positive widths; XdslProofs.C15FloatLogic proves that the branching "
        "of minimumf/maximumf/cmpf (hand model XdslModel/ArithFloatLogic.lean over abstract IEEE primitives, "
        "compared with the real functions on a float corpus) implements IEEE-754-2019 minimum/maximum and "
        "MLIR's 16-entry cmpf table, and that addf/subf/mulf return the binary64 result rounded once to the "
        "result type (packing primitives as parameters under RoundLaws). "
        "XdslProofs.C15Sem proves that this reference interpreter executes the same definitions: every "
        "value Sem.intBin returns for one of the 11 translated ops is the bit pattern of the translated "
        "kernel's result, and Sem.cmpi is the predicate table of the cmpi theorems."
    ),
    "technique": "Python→Lean translation of the kernels + Lean 4 proofs against BitVec semantics + differential correspondence",
    "level_note": (
        "Trusted: Lean kernel; the translator harness/translate/py2lean.py (whitelisted AST fragment, "
        "cross-checked by correspondence); the statement of MLIR semantics as BitVec operations; Python "
        "float arithmetic vs struct-rounded reference for f32/f64, integer-arithmetic rounding reference for f16/bf16, Lean native Float32/Float for f32/f64 (no theorem about IEEE operations "
        "themselves: C15FloatLogic takes isnan/==/</<=/copysign as parameters satisfying the laws FloatLaws, "
        "and its model of the six float kernels is hand-written, tied to the source by correspondence only); interpreter dispatch/registration machinery is exercised, not modelled. Known "
        "findings (cannot be repaired without editing pinned tests) are listed in known_findings.json."
    ),
    "rule": (
        "op-level: every supported integer op × every operand pair in the signless range for widths 1..4 "
        "(exhaustive) and boundary+random operands for widths 8,16,32,64 and index; cmpi × 10 predicates; "
        "casts over width pairs; float ops over a bit-pattern corpus (±0, ±inf, NaNs, subnormals, f32 "
        "rounding boundary cases; addf/subf/mulf also on f16 and bf16 patterns against an integer-arithmetic "
        "rounding reference, and on f32/f64 against Lean's native Float32/Float through the `sem` driver). Non-trivial = the result wraps, an operand has its top bit set, or the "
        "operand is given as a non-canonical (unsigned) representative; distinct = distinct (op, width, "
        "operands). Program level: distinct (program, input) / (program, position in the session) / (symbol module, "
        "call sequence). Inputs on which MLIR gives poison/undefined are generated but excluded from the oracle."
    ),
    "trusted_base": [
        "translator harness/translate/py2lean.py + generate.py (regenerated and cross-checked every run)",
        "reference semantics stated as BitVec operations in XdslProofs/C15.lean and C15Casts.lean",
        "hand model XdslModel/ArithFloatLogic.lean of run_minimumf/run_maximumf/run_cmpf/run_addf/run_subf/run_mulf + the IEEE laws FloatLaws and packing laws RoundLaws (assumed of the machine's binary64 and of struct packing)",
    ],
    "budget": {"quick": 150, "thorough": 1200},
}

PREDS = ["eq", "ne", "slt", "sle", "sgt", "sge", "ult", "ule", "ugt", "uge"]


def sgn(u: int, w: int) -> int:
    return u - (1 << w) if u >> (w - 1) & 1 else u


def tdiv(a: int, b: int) -> int:
    q = abs(a) // abs(b)
    return -q if (a < 0) != (b < 0) else q


def ceil_div(a: int, b: int) -> int:
    return -((-a) // b)


# reference semantics on bit patterns: (w, ua, ub) -> None (poison/undefined) or result pattern
REF: dict[str, Callable[[int, int, int], int | None]] = {
    "addi": lambda w, a, b: (a + b) % (1 << w),
    "subi": lambda w, a, b: (a - b) % (1 << w),
    "muli": lambda w, a, b: (a * b) % (1 << w),
    "andi": lambda w, a, b: a & b,
    "ori": lambda w, a, b: a | b,
    "xori": lambda w, a, b: a ^ b,
    "shli": lambda w, a, b: None if b >= w else (a << b) % (1 << w),
    "shrui": lambda w, a, b: None if b >= w else a >> b,
    "shrsi": lambda w, a, b: None if b >= w else (sgn(a, w) >> b) % (1 << w),
    "divui": lambda w, a, b: None if b == 0 else a // b,
    "remui": lambda w, a, b: None if b == 0 else a % b,
    "divsi": lambda w, a, b: None if b == 0 or (sgn(a, w) == -(1 << (w - 1)) and sgn(b, w) == -1) else tdiv(sgn(a, w), sgn(b, w)) % (1 << w),
    "remsi": lambda w, a, b: None if b == 0 or (sgn(a, w) == -(1 << (w - 1)) and sgn(b, w) == -1) else (sgn(a, w) - tdiv(sgn(a, w), sgn(b, w)) * sgn(b, w)) % (1 << w),
    "floordivsi": lambda w, a, b: None if b == 0 or (sgn(a, w) == -(1 << (w - 1)) and sgn(b, w) == -1) else (sgn(a, w) // sgn(b, w)) % (1 << w),
    "ceildivsi": lambda w, a, b: None if b == 0 or (sgn(a, w) == -(1 << (w - 1)) and sgn(b, w) == -1) else ceil_div(sgn(a, w), sgn(b, w)) % (1 << w),
    "ceildivui": lambda w, a, b: None if b == 0 else ceil_div(a, b) % (1 << w),
    "minsi": lambda w, a, b: min(sgn(a, w), sgn(b, w)) % (1 << w),
    "maxsi": lambda w, a, b: max(sgn(a, w), sgn(b, w)) % (1 << w),
    "minui": lambda w, a, b: min(a, b),
    "maxui": lambda w, a, b: max(a, b),
}
OPCLASS = {
    "addi": "AddiOp", "subi": "SubiOp", "muli": "MuliOp", "andi": "AndIOp", "ori": "OrIOp", "xori": "XOrIOp",
    "shli": "ShLIOp", "shrui": "ShRUIOp", "shrsi": "ShRSIOp", "divui": "DivUIOp", "remui": "RemUIOp",
    "divsi": "DivSIOp", "remsi": "RemSIOp", "floordivsi": "FloorDivSIOp", "ceildivsi": "CeilDivSIOp",
    "ceildivui": "CeilDivUIOp", "minsi": "MinSIOp", "maxsi": "MaxSIOp", "minui": "MinUIOp", "maxui": "MaxUIOp",
}
# name of the translated kernel (method name in ArithFunctions)
GEN_NAME = {"shli": "run_shlsi"}


def ref_cmpi(p: int, w: int, a: int, b: int) -> bool:
    sa, sb = sgn(a, w), sgn(b, w)
    return [a == b, a != b, sa < sb, sa <= sb, sa > sb, sa >= sb, a < b, a <= b, a > b, a >= b][p]


class Impl:
    """adapter around the real interpreter"""

    def __init__(self, index_bitwidth: int = 64) -> None:
        from xdsl.dialects import arith, builtin
        from xdsl.dialects.builtin import ModuleOp
        from xdsl.interpreter import Interpreter
        from xdsl.interpreters.arith import ArithFunctions
        from xdsl.utils.test_value import create_ssa_value

        self.arith, self.builtin = arith, builtin
        self.interp = Interpreter(ModuleOp([]), index_bitwidth=index_bitwidth)  # type: ignore[arg-type]
        self.interp.register_implementations(ArithFunctions())
        self.create = create_ssa_value
        self.vals: dict[Any, Any] = {}
        self.ops: dict[Any, Any] = {}
        self.unsupported: set[str] = set()

    def ty(self, w: int | str):
        if w == "index":
            return self.builtin.IndexType()
        if w in ("f32", "f64", "f16", "bf16"):
            return {"f32": self.builtin.Float32Type, "f64": self.builtin.Float64Type, "f16": self.builtin.Float16Type, "bf16": self.builtin.BFloat16Type}[w]()
        return self.builtin.IntegerType(w)

    def val(self, w, k=0):
        key = (w, k)
        if key not in self.vals:
            self.vals[key] = self.create(self.ty(w))
        return self.vals[key]

    def binop(self, name: str, w):
        key = (name, w)
        if key not in self.ops:
            cls = getattr(self.arith, OPCLASS.get(name, name))
            self.ops[key] = cls(self.val(w, 0), self.val(w, 1))
        return self.ops[key]

    def cmpi(self, p: int, w):
        key = ("cmpi", p, w)
        if key not in self.ops:
            self.ops[key] = self.arith.CmpiOp(self.val(w, 0), self.val(w, 1), PREDS[p])
        return self.ops[key]

    def run(self, op, args) -> tuple[str, Any]:
        """('ok', value) | ('raise', ExcName) | ('unsupported', None)"""
        from xdsl.utils.exceptions import InterpretationError

        try:
            r = self.interp.run_op(op, args)
            return ("ok", r[0])
        except InterpretationError as e:
            if "Could not find" in str(e) or "not implemented" in str(e).lower():
                return ("unsupported", None)
            return ("raise", "InterpretationError")
        except Exception as e:  # noqa: BLE001
            return ("raise", core.exc_name(e))


def operands_for(w: int, rng, exhaustive: bool, n: int) -> list[int]:
    lo, hi = -(1 << (w - 1)), 1 << w
    if exhaustive:
        return list(range(lo, hi))
    edge = {lo, lo + 1, -2, -1, 0, 1, 2, 3, w - 1, w, w + 1, (1 << (w - 1)) - 1, 1 << (w - 1), (1 << (w - 1)) + 1, hi - 2, hi - 1}
    vals = sorted(v for v in edge if lo <= v < hi)
    while len(vals) < n:
        r = rng.random()
        v = rng.randrange(lo, hi) if r < 0.6 else (rng.choice([-1, 1]) * (1 << rng.randrange(0, w)) + rng.randrange(-2, 3))
        if lo <= v < hi and v not in vals:
            vals.append(v)
    return vals


def classify_int(name: str, w: int, a: int, b: int, got: Any, exp: int) -> str:
    lo, hi = -(1 << (w - 1)), 1 << (w - 1)
    canon = lo <= a < hi and lo <= b < hi
    if not isinstance(got, int):
        return f"{name}: non-integer result"
    if not (lo <= got < (1 << w)):
        return f"{name}: result outside the type's range ({'canonical' if canon else 'unsigned-representative'} operands)"
    return f"{name}: wrong bits ({'canonical' if canon else 'unsigned-representative'} operands)"


def run_int_ops(ctx: core.Ctx, impl: Impl, gen_lines: list[str], gen_expect: list[tuple[str, Any, Any]]) -> None:
    widths: list[tuple[Any, int, bool]] = [(1, 1, True), (2, 2, True), (3, 3, True), (4, 4, True)]
    widths += [(8, 8, False), (16, 16, False), (32, 32, False), (64, 64, False), ("index", 64, False)]
    nper = 14 if ctx.tier == "quick" else 40
    for name in REF:
        for wt, w, exh in widths:
            op = impl.binop(name, wt)
            xs = operands_for(w, ctx.rng, exh, nper)
            probe = impl.run(op, (0, 1))
            if probe[0] == "unsupported":
                impl.unsupported.add(name)
                ctx.count(f"unsupported.{name}")
                break
            for a in xs:
                for b in xs:
                    ua, ub = a % (1 << w), b % (1 << w)
                    exp = REF[name](w, ua, ub)
                    if name in ("shli", "shrsi", "shrui") and ub >= max(w, 4096):
                        continue  # avoid astronomically large Python shifts in the poison region
                    st, got = impl.run(op, (a, b))
                    ctx.ev()
                    ctx.count(f"int.{name}")
                    if ua >> (w - 1) or ub >> (w - 1) or a >= (1 << (w - 1)) or b >= (1 << (w - 1)):
                        ctx.nt(("i", name, wt, a, b))
                    gname = "ArithInterp." + GEN_NAME.get(name, "run_" + name)
                    gen_lines.append(f"{gname} {w} {a} {b}")
                    gen_expect.append((f"{name}@{wt}({a},{b})", st, got))
                    if exp is None:
                        ctx.count("int.poison_or_undefined_excluded")
                        continue
                    if st != "ok":
                        ctx.fail(f"xdsl.interpreters.arith.ArithFunctions.{GEN_NAME.get(name, 'run_' + name)}",
                                 f"{name}: raises {got} on a defined input",
                                 {"op": name, "width": wt, "a": a, "b": b}, f"arith.{name} : i{wt} on ({a}, {b}) raised {got}; MLIR result is 0x{exp:x}", got, exp)
                        continue
                    ok = isinstance(got, int) and got % (1 << w) == exp and -(1 << (w - 1)) <= got < (1 << w)
                    if not ok:
                        ctx.fail(f"xdsl.interpreters.arith.ArithFunctions.{GEN_NAME.get(name, 'run_' + name)}",
                                 classify_int(name, w, a, b, got, exp),
                                 {"op": name, "width": wt, "a": a, "b": b},
                                 f"arith.{name} : i{wt} on ({a}, {b}) returned {got}; MLIR bit pattern is 0x{exp:x} (signed {sgn(exp, w)})", got, exp)
    # cmpi
    for p in range(10):
        for wt, w, exh in widths:
            op = impl.cmpi(p, wt)
            xs = operands_for(w, ctx.rng, exh, nper)
            for a in xs:
                for b in xs:
                    ua, ub = a % (1 << w), b % (1 << w)
                    exp = ref_cmpi(p, w, ua, ub)
                    st, got = impl.run(op, (a, b))
                    ctx.ev()
                    ctx.count(f"int.cmpi.{PREDS[p]}")
                    if (ua >> (w - 1)) != (ub >> (w - 1)) or a >= (1 << (w - 1)) or b >= (1 << (w - 1)):
                        ctx.nt(("c", p, wt, a, b))
                    gen_lines.append(f"ArithInterp.run_cmpi {w} {p} {a} {b}")
                    gen_expect.append((f"cmpi {PREDS[p]}@{wt}({a},{b})", st, got))
                    if st != "ok" or bool(got) != exp or got not in (0, 1, True, False):
                        raw = [a == b, a != b, a < b, a <= b, a > b, a >= b, a < b, a <= b, a > b, a >= b][p]
                        if st == "ok" and p >= 6 and bool(got) == raw:
                            sig = f"cmpi {PREDS[p]}: unsigned predicate compares the raw signless representatives"
                        elif st == "ok" and bool(got) == raw:
                            sig = f"cmpi {PREDS[p]}: compares raw representatives without normalising"
                        else:
                            sig = f"cmpi {PREDS[p]}: wrong result"
                        ctx.fail("xdsl.interpreters.arith.ArithFunctions.run_cmpi", sig,
                                 {"op": "cmpi", "pred": PREDS[p], "width": wt, "a": a, "b": b},
                                 f"arith.cmpi {PREDS[p]} : i{wt} on ({a}, {b}) gave {got if st == 'ok' else 'raise ' + str(got)}; bit patterns 0x{ua:x}, 0x{ub:x} compare {exp}", got, exp)


def run_casts(ctx: core.Ctx, impl: Impl, gen_lines: list[str], gen_expect: list[tuple[str, Any, Any]]) -> None:
    arith = impl.arith
    pairs = [(wi, wo) for wi in (1, 2, 3, 4, 8, 16, 32, 64) for wo in (1, 2, 3, 4, 8, 16, 32, 64)]
    for wi, wo in pairs:
        xs = operands_for(wi, ctx.rng, wi <= 4, 10)
        cases = []
        if wi < wo:
            cases += [("extsi", arith.ExtSIOp, lambda u: sgn(u, wi) % (1 << wo)), ("extui", arith.ExtUIOp, lambda u: u)]
        if wi > wo:
            cases += [("trunci", arith.TruncIOp, lambda u: u % (1 << wo))]
        # index_cast between iN and index (64): sign-extending / truncating
        for cname, cls, f in cases:
            try:
                op = cls(impl.val(wi, 0), impl.ty(wo))
            except Exception:  # noqa: BLE001
                continue
            if impl.run(op, (0,))[0] == "unsupported":
                impl.unsupported.add(cname)
                ctx.count(f"unsupported.{cname}")
                continue
            for a in xs:
                st, got = impl.run(op, (a,))
                ctx.ev(); ctx.count(f"cast.{cname}")
                exp = f(a % (1 << wi))
                if a < 0 or a >= (1 << (wi - 1)):
                    ctx.nt(("cast", cname, wi, wo, a))
                if st != "ok" or not isinstance(got, int) or got % (1 << wo) != exp or not (-(1 << (wo - 1)) <= got < (1 << wo)):
                    ctx.fail(f"xdsl.interpreters.arith.ArithFunctions.run_{cname}", f"{cname}: wrong result",
                             {"op": cname, "from": wi, "to": wo, "a": a}, f"arith.{cname} i{wi}->i{wo} on {a} gave {got}; expected pattern 0x{exp:x}", got, exp)
    # index_cast for both supported index widths, including source/result types wider than index
    for iw, im in ((64, impl), (32, Impl(index_bitwidth=32))):
        for w in (1, 2, 3, 4, 8, 16, 32, 64, 128):
            if w == iw:
                continue
            for direction in ("to_index", "from_index"):
                wi, wo = (w, iw) if direction == "to_index" else (iw, w)
                op = arith.IndexCastOp(im.val(w if direction == "to_index" else "index", 0), im.ty("index" if direction == "to_index" else w))
                xs = operands_for(wi, ctx.rng, wi <= 4, 12)
                for a in xs:
                    st, got = im.run(op, (a,))
                    ctx.ev(); ctx.count(f"cast.index_cast.index{iw}")
                    u = a % (1 << wi)
                    exp = sgn(u, wi) % (1 << wo) if wi < wo else u % (1 << wo)
                    if a < 0 or a >= (1 << (wi - 1)):
                        ctx.nt(("icast", iw, wi, wo, a))
                    gen_lines.append(f"ArithInterp.run_indexcast {wi} {wo} {a}")
                    gen_expect.append((f"index_cast {wi}->{wo}({a})", st, got))
                    if st != "ok" or not isinstance(got, int) or got % (1 << wo) != exp or not (-(1 << (wo - 1)) <= got < (1 << wo)):
                        ctx.fail("xdsl.interpreters.arith.ArithFunctions.run_indexcast", "index_cast: wrong result",
                                 {"op": "index_cast", "index_bitwidth": iw, "from": wi, "to": wo, "a": a},
                                 f"arith.index_cast {wi}->{wo} bits (index = {iw} bits) on {a} gave {got}; expected pattern 0x{exp:x}", got, exp)


# ---------------------------------------------------------------------------------------------
# floats
# ---------------------------------------------------------------------------------------------

def f64_bits(x: float) -> int:
    return struct.unpack("<Q", struct.pack("<d", x))[0]


def bits_f64(b: int) -> float:
    return struct.unpack("<d", struct.pack("<Q", b))[0]


def f32_bits(x: float) -> int:
    return struct.unpack("<I", struct.pack("<f", x))[0]


def bits_f32(b: int) -> float:
    return struct.unpack("<f", struct.pack("<I", b))[0]


def round32(x: float) -> float:
    try:
        return struct.unpack("<f", struct.pack("<f", x))[0]
    except OverflowError:
        return math.copysign(math.inf, x)


def same_float(a: float, b: float) -> bool:
    if math.isnan(a) or math.isnan(b):
        return math.isnan(a) and math.isnan(b)
    return f64_bits(a) == f64_bits(b)


F32_CORPUS = [0x00000000, 0x80000000, 0x3F800000, 0xBF800000, 0x7F800000, 0xFF800000, 0x7FC00000, 0x7FC00001,
              0x00000001, 0x80000001, 0x007FFFFF, 0x00800000, 0x7F7FFFFF, 0xFF7FFFFF, 0x4B800000, 0x4B800001,
              0x33800000, 0x3DCCCCCD, 0x3E4CCCCD, 0x3F000000, 0x40490FDB, 0x4B7FFFFF, 0x3F7FFFFF, 0x3F800001]
F64_CORPUS = [0x0, 0x8000000000000000, 0x3FF0000000000000, 0xBFF0000000000000, 0x7FF0000000000000, 0xFFF0000000000000,
              0x7FF8000000000000, 0x7FF8000000000001, 0x1, 0x8000000000000001, 0x000FFFFFFFFFFFFF, 0x0010000000000000,
              0x7FEFFFFFFFFFFFFF, 0x4340000000000000, 0x4340000000000001, 0x3FB999999999999A, 0x3FC999999999999A,
              0x3CA0000000000000, 0x400921FB54442D18]


def run_floats(ctx: core.Ctx, impl: Impl) -> None:
    arith = impl.arith
    fops = {"addf": (arith.AddfOp, lambda a, b: a + b), "subf": (arith.SubfOp, lambda a, b: a - b),
            "mulf": (arith.MulfOp, lambda a, b: a * b)}
    if hasattr(arith, "DivfOp"):
        def fdiv(a, b):
            if b == 0:
                if a == 0 or math.isnan(a):
                    return math.nan
                return math.copysign(math.inf, a) * math.copysign(1.0, b)
            return a / b
        fops["divf"] = (arith.DivfOp, fdiv)

    def fmin(a, b):
        if math.isnan(a) or math.isnan(b):
            return math.nan
        if a == 0 and b == 0:
            return -0.0 if (math.copysign(1, a) < 0 or math.copysign(1, b) < 0) else 0.0
        return min(a, b)

    def fmax(a, b):
        if math.isnan(a) or math.isnan(b):
            return math.nan
        if a == 0 and b == 0:
            return 0.0 if (math.copysign(1, a) > 0 or math.copysign(1, b) > 0) else -0.0
        return max(a, b)

    fops["minimumf"] = (arith.MinimumfOp, fmin)
    fops["maximumf"] = (arith.MaximumfOp, fmax)
    extra = 6 if ctx.tier == "quick" else 40
    for ty, corpus, frombits, rnd in (("f32", F32_CORPUS, bits_f32, round32), ("f64", F64_CORPUS, bits_f64, lambda x: x)):
        vals = [frombits(b) for b in corpus]
        for _ in range(extra):
            vals.append(frombits(ctx.rng.getrandbits(32 if ty == "f32" else 64)))
        for name, (cls, f) in fops.items():
            op = cls(impl.val(ty, 0), impl.val(ty, 1))
            if impl.run(op, (1.0, 1.0))[0] == "unsupported":
                impl.unsupported.add(name); ctx.count(f"unsupported.{name}")
                continue
            for a in vals:
                for b in vals:
                    st, got = impl.run(op, (a, b))
                    ctx.ev(); ctx.count(f"float.{name}.{ty}")
                    exp = rnd(f(a, b))
                    if math.isnan(a) or math.isnan(b) or a == 0 or b == 0 or math.isinf(a) or math.isinf(b) or exp != f(a, b):
                        ctx.nt(("f", name, ty, f64_bits(a), f64_bits(b)))
                    if st != "ok" or not isinstance(got, float) or not same_float(got, exp):
                        if st == "ok" and isinstance(got, float) and ty != "f64" and same_float(got, f(a, b)):
                            sig = f"{name}@{ty}: computed in double precision, result not rounded to {ty}"
                        else:
                            sig = f"{name}@{ty}: wrong IEEE-754 result"
                        ctx.fail(f"xdsl.interpreters.arith.ArithFunctions.run_{name}", sig,
                                 {"op": name, "type": ty, "a_bits": hex(f64_bits(a)), "b_bits": hex(f64_bits(b))},
                                 f"arith.{name} : {ty} on ({a!r}, {b!r}) gave {got!r}; IEEE-754 {ty} result is {exp!r}",
                                 repr(got), repr(exp))
        # cmpf
        preds = ["false", "oeq", "ogt", "oge", "olt", "ole", "one", "ord", "ueq", "ugt", "uge", "ult", "ule", "une", "uno", "true"]
        for p, pn in enumerate(preds):
            op = arith.CmpfOp(impl.val(ty, 0), impl.val(ty, 1), pn)
            for a in vals:
                for b in vals:
                    st, got = impl.run(op, (a, b))
                    ctx.ev(); ctx.count(f"float.cmpf.{ty}")
                    un = math.isnan(a) or math.isnan(b)
                    base = [False, a == b, a > b, a >= b, a < b, a <= b, a != b][p if p < 8 else p - 7] if p not in (0, 7, 14, 15) else None
                    if p == 0:
                        exp = False
                    elif p == 15:
                        exp = True
                    elif p == 7:
                        exp = not un
                    elif p == 14:
                        exp = un
                    elif p < 8:
                        exp = (not un) and bool(base)
                    else:
                        exp = un or bool(base)
                    if un or (a == 0 and b == 0):
                        ctx.nt(("cf", p, ty, f64_bits(a), f64_bits(b)))
                    if st != "ok" or bool(got) != exp:
                        ctx.fail("xdsl.interpreters.arith.ArithFunctions.run_cmpf", f"cmpf {pn}: wrong result",
                                 {"op": "cmpf", "pred": pn, "type": ty, "a_bits": hex(f64_bits(a)), "b_bits": hex(f64_bits(b))},
                                 f"arith.cmpf {pn} on ({a!r}, {b!r}) gave {got}; expected {exp}", got, exp)


# ---------------------------------------------------------------------------------------------
# floats, narrow types (f16, bf16) and the f32/f64 arithmetic against Lean's native Float32/Float
# ---------------------------------------------------------------------------------------------

NARROW = {"f16": (5, 10), "bf16": (8, 7)}  # type -> (exponent bits, fraction bits)


def decode_narrow(bits: int, e: int, m: int) -> float:
    """value of an IEEE-style bit pattern with e exponent and m fraction bits (exact as a double)"""
    sign = -1.0 if bits >> (e + m) else 1.0
    ex, fr, bias = (bits >> m) & ((1 << e) - 1), bits & ((1 << m) - 1), (1 << (e - 1)) - 1
    if ex == (1 << e) - 1:
        return math.nan if fr else sign * math.inf
    if ex == 0:
        return sign * math.ldexp(fr, 1 - bias - m)
    return sign * math.ldexp((1 << m) | fr, ex - bias - m)


def round_narrow(x: float, e: int, m: int) -> float:
    """the double x rounded to the nearest value of the (e, m) format, ties to even, overflow to
    infinity; integer arithmetic only (independent of struct and of xDSL's packing code)"""
    if math.isnan(x) or math.isinf(x) or x == 0:
        return x
    bias = (1 << (e - 1)) - 1
    mant, ex = math.frexp(abs(x))             # abs(x) = mant * 2**ex, 0.5 <= mant < 1
    sig = int(math.ldexp(mant, 53))           # exact: 53-bit integer, abs(x) = sig * 2**(ex-53)
    if ex - 1 > bias:
        return math.copysign(math.inf, x)
    ulp_exp = max(ex - 1, 1 - bias) - m       # exponent of the unit in the last place of the target
    shift = ulp_exp - (ex - 53)
    if shift <= 0:
        q = sig << -shift
    else:
        q, rem, half = sig >> shift, sig & ((1 << shift) - 1), 1 << (shift - 1)
        if rem > half or (rem == half and q & 1):
            q += 1
    if q >= 1 << (bias + 1 - ulp_exp):        # q * 2**ulp_exp >= 2**(bias+1): beyond the largest finite value
        return math.copysign(math.inf, x)
    return math.copysign(math.ldexp(q, ulp_exp), x)


def narrow_corpus(e: int, m: int) -> list[int]:
    top = 1 << (e + m)
    emax, one = ((1 << e) - 2) << m, ((1 << (e - 1)) - 1) << m
    frac = (1 << m) - 1
    pats = [0, 1, frac, 1 << m, one, one | 1, one | frac, one - 1, emax | frac, emax, ((1 << e) - 1) << m,
            (((1 << e) - 1) << m) | (1 << (m - 1)), one + ((m + 1) << m), (one + ((m + 1) << m)) | 1,
            one + ((m + 2) << m), one - ((m + 1) << m), one - ((m + 2) << m) | 1, (one >> 1) & ~frac | 3]
    return list(dict.fromkeys(pats + [p | top for p in pats[:12]]))


def run_floats_narrow(ctx: core.Ctx, impl: Impl) -> None:
    """addf/subf/mulf/minimumf/maximumf on f16 and bf16: the result must be the exact result rounded
    once to the result type (the reference rounds the double result with integer arithmetic; the
    double result of +,-,* on operands of <= 11 significant bits rounds innocuously)."""
    arith = impl.arith
    fops = {"addf": (arith.AddfOp, lambda a, b: a + b), "subf": (arith.SubfOp, lambda a, b: a - b),
            "mulf": (arith.MulfOp, lambda a, b: a * b)}
    for ty, (e, m) in NARROW.items():
        pats = narrow_corpus(e, m)
        for _ in range(8 if ctx.tier == "quick" else 60):
            pats.append(ctx.rng.getrandbits(1 + e + m))
        vals = [decode_narrow(p, e, m) for p in pats]
        for name, (cls, f) in fops.items():
            op = cls(impl.val(ty, 0), impl.val(ty, 1))
            if impl.run(op, (1.0, 1.0))[0] == "unsupported":
                impl.unsupported.add(name); ctx.count(f"unsupported.{name}")
                continue
            for a in vals:
                for b in vals:
                    st, got = impl.run(op, (a, b))
                    ctx.ev(); ctx.count(f"float.{name}.{ty}")
                    raw = f(a, b)
                    exp = round_narrow(raw, e, m)
                    if math.isnan(raw) or math.isinf(raw) or raw == 0 or not same_float(exp, raw):
                        ctx.nt(("f", name, ty, f64_bits(a), f64_bits(b)))
                    if st != "ok" or not isinstance(got, float) or not same_float(got, exp):
                        if st == "ok" and isinstance(got, float) and same_float(got, raw):
                            sig = f"{name}@{ty}: computed in double precision, result not rounded to {ty}"
                        else:
                            sig = f"{name}@{ty}: wrong IEEE-754 result"
                        ctx.fail(f"xdsl.interpreters.arith.ArithFunctions.run_{name}", sig,
                                 {"op": name, "type": ty, "a_bits": hex(f64_bits(a)), "b_bits": hex(f64_bits(b))},
                                 f"arith.{name} : {ty} on ({a!r}, {b!r}) gave {got!r}; IEEE-754 {ty} result is {exp!r}",
                                 repr(got), repr(exp))


def run_float_sem(ctx: core.Ctx, impl: Impl) -> None:
    """addf/subf/mulf/minimumf/maximumf on f32 and f64, real interpreter vs the Lean reference semantics
    (driver model `sem`: Lean's native Float32/Float, a stack independent of CPython and struct)."""
    from vp import miniir, proggen

    names = [n for n in ("addf", "subf", "mulf", "minimumf", "maximumf") if n not in impl.unsupported]
    lines: list[str] = []
    expect: list[tuple[str, str, float, float, str]] = []
    for ty, corpus, frombits in (("f32", F32_CORPUS, bits_f32), ("f64", F64_CORPUS, bits_f64)):
        vals = [frombits(b) for b in corpus]
        for _ in range(6 if ctx.tier == "quick" else 40):
            vals.append(frombits(ctx.rng.getrandbits(32 if ty == "f32" else 64)))
        for name in names:
            text = (f"builtin.module {{\n  func.func @main(%a : {ty}, %b : {ty}) -> {ty} {{\n"
                    f"    %r = arith.{name} %a, %b : {ty}\n    func.return %r : {ty}\n  }}\n}}\n")
            m = proggen.parse_module(text)
            lines.append("prog " + miniir.serialize(m))
            expect.append((name, ty, 0.0, 0.0, "ok"))
            for a in vals:
                for b in vals:
                    lines.append(f"run 1000 main {miniir.arg_text(ty, a)} {miniir.arg_text(ty, b)}")
                    expect.append((name, ty, a, b, miniir.run_real(m, "main", [a, b])))
                    ctx.ev(); ctx.count(f"floatsem.{name}.{ty}")
    outs = ctx.model("sem", lines)
    for (name, ty, a, b, real), out in zip(expect, outs):
        if real == "ok":
            if out != "ok":
                raise core.InfraError("MiniIR serialisation of a one-op float program rejected by the Lean parser")
            continue
        if real != out:
            unrounded = "!unrounded" in real
            sig = (f"{name}@{ty}: computed in double precision, result not rounded to {ty}" if unrounded
                   else f"{name}@{ty}: wrong IEEE-754 result")
            ctx.fail(f"xdsl.interpreters.arith.ArithFunctions.run_{name}", sig,
                     {"op": name, "type": ty, "a_bits": hex(f64_bits(a)), "b_bits": hex(f64_bits(b))},
                     f"arith.{name} : {ty} on ({a!r}, {b!r}): the interpreter and the Lean reference semantics (native {ty}) differ",
                     real, out)
            break


# ---------------------------------------------------------------------------------------------
# float decision logic: hand model XdslModel/ArithFloatLogic.lean (driver model arith_float_logic)
# ---------------------------------------------------------------------------------------------

LOGIC_CORPUS = [0x0, 0x8000000000000000, 0x3FF0000000000000, 0xBFF0000000000000, 0x7FF0000000000000,
                0xFFF0000000000000, 0x7FF8000000000000, 0xFFF8000000000000, 0x7FF0000000000001, 0x1,
                0x8000000000000001, 0x7FEFFFFFFFFFFFFF, 0xFFEFFFFFFFFFFFFF, 0x3FB99999A0000000, 0x4000000000000000]


def run_float_logic(ctx: core.Ctx, impl: Impl) -> None:
    """minimumf / maximumf / cmpf / addf / subf / mulf of the real interpreter vs. the hand model whose
    branching XdslProofs.C15FloatLogic proves correct (NaN / both-zero / ordered arm, resp. the arm of the
    rounding to the result type, and the result)."""
    arith = impl.arith
    bits = list(LOGIC_CORPUS)
    if ctx.tier != "quick":
        bits += [f64_bits(bits_f32(b)) for b in F32_CORPUS] + F64_CORPUS
    for _ in range(4 if ctx.tier == "quick" else 30):
        bits.append(ctx.rng.getrandbits(64))
        bits.append(f64_bits(bits_f32(ctx.rng.getrandbits(32))))
    bits = list(dict.fromkeys(bits))
    vals = [(b, bits_f64(b)) for b in bits]
    preds = ["false", "oeq", "ogt", "oge", "olt", "ole", "one", "ord", "ueq", "ugt", "uge", "ult", "ule", "une", "uno", "true"]

    def is_f32(x: float) -> bool:
        return math.isnan(x) or math.isinf(x) or round32(x) == x

    ops: dict[Any, Any] = {}

    def get(kind: str, ty: str, p: int = 0):
        key = (kind, ty, p)
        if key not in ops:
            a, b = impl.val(ty, 0), impl.val(ty, 1)
            ops[key] = arith.MinimumfOp(a, b) if kind == "minimumf" else arith.MaximumfOp(a, b) if kind == "maximumf" else arith.CmpfOp(a, b, preds[p])
        return ops[key]

    def show(st: str, got: Any, arm: str | None) -> str:
        if st != "ok":
            return f"raise {got}"
        if isinstance(got, bool):
            return "bool " + ("true" if got else "false")
        if isinstance(got, float):
            return (arm + " " if arm else "") + ("nan" if math.isnan(got) else f"f {f64_bits(got)}")
        return f"other {got!r}"

    lines: list[str] = []
    obs: list[str] = []
    for ba, a in vals:
        for bb, b in vals:
            ty = "f32" if is_f32(a) and is_f32(b) else "f64"
            arm = "nan" if (math.isnan(a) or math.isnan(b)) else "zeros" if (a == 0 and b == 0) else "order"
            for kind in ("minimumf", "maximumf"):
                st, got = impl.run(get(kind, ty), (a, b))
                lines.append(f"{kind} {ba} {bb}")
                obs.append(show(st, got, arm))
                ctx.ev(); ctx.count(f"floatlogic.{kind}")
            for p in range(16):
                st, got = impl.run(get("cmpf", ty, p), (a, b))
                lines.append(f"cmpf {p} {ba} {bb}")
                obs.append(show(st, bool(got) if st == "ok" and got in (0, 1, True, False) else got, None))
                ctx.ev(); ctx.count("floatlogic.cmpf")
            if arm != "order" or a == b:
                ctx.nt(("fl", ba, bb))
    # addf/subf/mulf: hand model of _round_to_float_type (arm: wide | rounded | overflow) with Lean's
    # native Float -> Float32 -> Float conversion as the re-packing primitive
    aops = {"addf": (arith.AddfOp, lambda a, b: a + b), "subf": (arith.SubfOp, lambda a, b: a - b),
            "mulf": (arith.MulfOp, lambda a, b: a * b)}
    avals = [(b, x) for b, x in vals if is_f32(x)]
    for ty in ("f32", "f64"):
        for kind, (cls, f) in aops.items():
            if kind in impl.unsupported:
                continue
            op = cls(impl.val(ty, 0), impl.val(ty, 1))
            for ba, a in (avals if ty == "f32" else vals):
                for bb, b in (avals if ty == "f32" else vals):
                    raw = f(a, b)
                    rarm = "wide" if ty == "f64" else "overflow" if (not math.isinf(raw) and math.isinf(round32(raw))) else "rounded"
                    st, got = impl.run(op, (a, b))
                    lines.append(f"{kind} {ty} {ba} {bb}")
                    obs.append(show(st, got, rarm))
                    ctx.ev(); ctx.count(f"floatlogic.{kind}")
                    if rarm == "overflow" or (ty == "f32" and not math.isnan(raw) and round32(raw) != raw):
                        ctx.nt(("fa", kind, ty, ba, bb))
    outs = ctx.model("arith_float_logic", lines)
    for l, o, e in zip(lines, outs, obs):
        if o != e:
            ctx.mismatch("correspondence:C15/arith_float_logic", {"model_line": l}, e, o)
            break


# ---------------------------------------------------------------------------------------------
# generated-kernel correspondence
# ---------------------------------------------------------------------------------------------

def run_generated(lines: list[str]) -> list[str]:
    exe = core.LEAN / ".lake" / "build" / "bin" / "driver_gen"
    if not exe.exists():
        raise core.InfraError("driver_gen not built")
    p = subprocess.run([str(exe)], input="".join(l + "\n" for l in lines), capture_output=True, text=True, timeout=900)
    if p.returncode != 0:
        raise core.InfraError("driver_gen failed: " + p.stderr[-300:])
    out = p.stdout.split("\n")
    if out and out[-1] == "":
        out.pop()
    if len(out) != len(lines):
        raise core.InfraError("driver_gen line count mismatch")
    return out


def compare_generated(ctx: core.Ctx, gen_lines: list[str], gen_expect: list[tuple[str, Any, Any]]) -> None:
    # also ask for the precondition of every call that has one
    outs = run_generated(gen_lines)
    pre_lines = [l.split(" ", 1)[0] + "_pre " + l.split(" ", 1)[1] for l in gen_lines]
    pres = run_generated(pre_lines)
    ncmp = 0
    for line, out, pre, (desc, st, got) in zip(gen_lines, outs, pres, gen_expect):
        if out == "bad-op":
            ctx.count("generated.not_translated")
            continue
        ncmp += 1
        if st == "unsupported":
            continue
        if pre == "bool false":
            if not (st == "raise" and got == "AssertionError"):
                ctx.mismatch("correspondence:C15/generated-kernels", {"call": line, "case": desc}, f"{st} {got}", "assert fails (AssertionError)")
            continue
        if st == "raise":
            # e.g. Python MemoryError/OverflowError on astronomically large shifts: outside the model
            if got in ("OverflowError", "MemoryError", "ValueError"):
                ctx.count("generated.python_resource_error")
                continue
            if out == "none" and got == "InterpretationError":
                continue
            ctx.mismatch("correspondence:C15/generated-kernels", {"call": line, "case": desc}, f"raise {got}", out)
            continue
        exp = f"bool {'true' if got else 'false'}" if isinstance(got, bool) else f"int {got}"
        if out != exp:
            ctx.mismatch("correspondence:C15/generated-kernels", {"call": line, "case": desc}, exp, out)
    ctx.count("generated.compared", ncmp)


def run_comparisons_module(ctx: core.Ctx) -> None:
    """utils/comparisons.py directly: generated definitions vs the real functions + range oracle"""
    from xdsl.utils import comparisons as C

    lines, exp = [], []
    for w in list(range(0, 9)) + [16, 32, 64]:
        for f in ("unsigned_upper_bound", "signed_lower_bound", "signed_upper_bound"):
            lines.append(f"Comparisons.{f} {w}"); exp.append(f"int {getattr(C, f)(w)}")
        for f in ("unsigned_value_range", "signed_value_range", "signless_value_range"):
            a, b = getattr(C, f)(w)
            lines.append(f"Comparisons.{f} {w}"); exp.append(f"pair {a} {b}")
        xs = list(range(-20, 20)) if w <= 4 else operands_for(max(w, 1), ctx.rng, False, 24) + [-(1 << w) - 3, (1 << w) + 5, 3 * (1 << w)]
        for x in xs:
            s, u = C.to_signed(x, w), C.to_unsigned(x, w)
            lines.append(f"Comparisons.to_signed {x} {w}"); exp.append(f"int {s}")
            lines.append(f"Comparisons.to_unsigned {x} {w}"); exp.append(f"int {u}")
            ctx.ev(2)
            if w >= 1:
                if not (0 <= u < (1 << w) and (u - x) % (1 << w) == 0):
                    ctx.fail("xdsl.utils.comparisons.to_unsigned", "to_unsigned: wrong representative", {"x": x, "w": w}, f"to_unsigned({x},{w})={u}", u, x % (1 << w))
                if not (-(1 << (w - 1)) <= s < (1 << (w - 1)) and (s - x) % (1 << w) == 0):
                    ctx.fail("xdsl.utils.comparisons.to_signed", "to_signed: wrong representative", {"x": x, "w": w}, f"to_signed({x},{w})={s}", s, sgn(x % (1 << w), w))
    outs = run_generated(lines)
    for l, o, e in zip(lines, outs, exp):
        if o != e and o != "bad-op":
            ctx.mismatch("correspondence:C15/generated-kernels", {"call": l}, e, o)
            break
    ctx.count("comparisons.calls", len(lines))


def run(ctx: core.Ctx) -> None:
    from translate.generate import generate

    rep = generate(core.REPO)
    ctx.extra["translator"] = {"translated": len(rep["translated"]), "refused": rep["refused"], "regenerated_files": rep["changed_files"]}
    for k, v in rep["refused"].items():
        ctx.broken_proof(f"translator refused {k}", v)
    ctx.lean()
    impl = Impl()
    gen_lines: list[str] = []
    gen_expect: list[tuple[str, Any, Any]] = []
    run_int_ops(ctx, impl, gen_lines, gen_expect)
    run_casts(ctx, impl, gen_lines, gen_expect)
    run_floats(ctx, impl)
    try:
        run_comparisons_module(ctx)
        compare_generated(ctx, gen_lines, gen_expect)
    except core.InfraError as e:
        if any(f.kind == "broken-proof" for f in ctx.failures):
            ctx.count("generated.driver_unavailable")
        else:
            raise
    ctx.extra["unsupported_ops_skipped"] = sorted(impl.unsupported)
    ctx.sample({"op": "addi", "width": 8, "a": 127, "b": 1, "expect_pattern": "0x80"})
    ctx.sample({"op": "cmpi ult", "width": 4, "a": -1, "b": 1, "expect": False})
    ctx.exhaustive = True
    ctx.extra["exhaustive_scope"] = "all operand pairs of the signless range for widths 1..4, every supported integer op and cmpi predicate"
    from props import c15_programs
    c15_programs.run_programs(ctx)
    # last, so that the random stream seen by the generators above is the same as before this was added
    try:
        run_float_logic(ctx, impl)
    except core.InfraError:
        if any(f.kind == "broken-proof" for f in ctx.failures):
            ctx.count("floatlogic.driver_unavailable")
        else:
            raise
    # added after the repair of run_addf/run_subf/run_mulf (results are rounded to the result type)
    run_floats_narrow(ctx, impl)
    try:
        run_float_sem(ctx, impl)
    except core.InfraError:
        if any(f.kind == "broken-proof" for f in ctx.failures):
            ctx.count("floatsem.driver_unavailable")
        else:
            raise
    # round 4: terminator-edge family, symbol-resolution family, multi-call sessions on one Interpreter
    c15_programs.run_round4(ctx)


def replay(ctx: core.Ctx, body: dict) -> int:
    case = body["case"]
    from props import c15_programs
    rc = c15_programs.replay_case(ctx, body)
    if rc is not None:
        return rc
    impl = Impl()
    if "model_line" in case:
        print("hand model arith_float_logic:", case["model_line"], "->", ctx.model("arith_float_logic", [case["model_line"]]))
        print("recorded implementation observation:", body.get("impl_observation"))
        return 0
    if "call" in case:
        print("generated kernel:", case["call"], "->", run_generated([case["call"]]))
        print("recorded implementation observation:", body.get("impl_observation"))
        return 0
    name = case["op"]
    if name == "cmpi":
        w = 64 if case["width"] == "index" else case["width"]
        p = PREDS.index(case["pred"])
        st, got = impl.run(impl.cmpi(p, case["width"]), (case["a"], case["b"]))
        exp = ref_cmpi(p, w, case["a"] % (1 << w), case["b"] % (1 << w))
        print(f"implementation: {st} {got}; MLIR semantics: {exp}")
        return 0 if st == "ok" and bool(got) == exp else 1
    if name in REF:
        w = 64 if case["width"] == "index" else case["width"]
        st, got = impl.run(impl.binop(name, case["width"]), (case["a"], case["b"]))
        exp = REF[name](w, case["a"] % (1 << w), case["b"] % (1 << w))
        print(f"implementation: {st} {got}; MLIR bit pattern: {exp}")
        ok = st == "ok" and exp is not None and got % (1 << w) == exp and -(1 << (w - 1)) <= got < (1 << w)
        return 0 if ok else 1
    if name in ("addf", "subf", "mulf") and case.get("type") in ("f16", "bf16", "f32", "f64"):
        ty = case["type"]
        a = bits_f64(int(case["a_bits"], 16)) if "a_bits" in case else float(case["a"])
        b = bits_f64(int(case["b_bits"], 16)) if "b_bits" in case else float(case["b"])
        raw = {"addf": a + b, "subf": a - b, "mulf": a * b}[name]
        exp = raw if ty == "f64" else round32(raw) if ty == "f32" else round_narrow(raw, *NARROW[ty])
        cls = {"addf": impl.arith.AddfOp, "subf": impl.arith.SubfOp, "mulf": impl.arith.MulfOp}[name]
        st, got = impl.run(cls(impl.val(ty, 0), impl.val(ty, 1)), (a, b))
        print(f"implementation: {st} {got!r}; IEEE-754 {ty} result: {exp!r}")
        return 0 if st == "ok" and isinstance(got, float) and same_float(got, exp) else 1
    print("replay of this case kind: re-run ./check C15; case =", case)
    return 0
