"""C22 — RISC-V backend output computes the source results and keeps callee state; RISC-V
canonicalization alone never changes results."""
from __future__ import annotations

import json
import random
import subprocess
from typing import Any

from props import c22_pipe as pp
from props import c22_pmov as pm
from props import c22_rv as rv
from props import c22_snip as sn
from props import c22_tv as tv
from vp import core, miniir, proggen

META = {
    "title": "RISC-V backend output computes the source results and keeps callee state",
    "category": "proof",
    "design_ref": "DESIGN.md §5 C22",
    "lean_modules": ["XdslProofs.C22", "XdslProofs.C22Frame", "XdslProofs.C22FrameWalk", "XdslProofs.C22Float", "XdslProofs.C22Kernels",
                     "XdslProofs.C22Validate", "XdslProofs.C22Labels"],
    "extra_targets": ["XdslGen", "driver_gen"],
    "text": (
        "Lean (BitVec 32, x0 hard-wired, Mathlib-free): an RV32IM(+rv32-dialect bit immediates) machine with a straight-line "
        "executor `exec` and a program-counter executor `run`; every integer pattern of canonicalization_patterns/riscv.py "
        "as a rule on one instruction given the facts the pattern reads from defining ops (constant / addi-of / xori-of), "
        "with the side conditions of the fixed code explicit. rv_rule_sound / rv_rule_sound_exact: whenever a rule fires "
        "and its facts hold in a state, the emitted sequence leaves every register (except the fresh temporary of one "
        "rule), memory and trapping exactly as the original instruction, for all register values and constants; "
        "rv_rule_encodable: every emitted immediate is encodable; counterexample theorems for the unguarded rules "
        "(xori/load look-through after allocation, ShiftbyZero on single-bit ops, unwrapped immediates, old cmpi table, "
        "the listed loop-carried register sharing); cmpi_lowering_sound/total: the fixed arith.cmpi table computes MLIR's "
        "predicate for all operands and all 10 predicates; frame_sound: prologue ++ body ++ epilogue of "
        "PrologueEpilogueInsertion restores sp and every saved register for every body that keeps sp and the frame "
        "words; run_straight/run_function: the program-counter machine executes straight-line segments exactly as exec. "
        "Tie: (A) generated snippets per pattern with boundary constants, real single pattern and real canonicalize, "
        "before/after executed on an independent Python RV32 machine + encodability of everything emitted, Lean rule "
        "output = real pattern output on the same op, Lean machine = Python machine; (B) generated func/arith/scf.for "
        "programs through the documented pipeline, executed after each of six stages (structured executor over the IR, "
        "program-counter machine on the emitted assembler text) against the Lean reference semantics of the source; "
        "callee-saved registers and sp compared at return (values pinned to s-registers to exercise prologue/epilogue), "
        "emitted prologue/epilogue = Lean prologue/epilogue, real cmpi lowering = Lean table; (C) py_operation of the "
        "rv32/rv64 immediate-shift ops vs bit formulas. TRANSLATED KERNELS (C22Kernels, regenerated from the source every run by "
        "harness/translate: lean/XdslModel/Generated/RiscvPyOps.lean): py_operation of the 8 rv32 and 8 rv64 immediate-shift / single-bit "
        "classes, const_evaluate of the 6 riscv_cf branches, _fits_si12, _folded_li_immediate. kernel32_sound / kernel64_sound: for every "
        "payload of i32 (i64) and every shift amount < XLEN the kernel does not raise and returns the two's-complement reading of the "
        "register the instruction writes (BitVec 32 machine model resp. BitVec 64); pyShift_eq_kernel: the hand-written fold of the rule "
        "model is the translated kernel; const_evaluate_sound: const_evaluate = the branch decision of the machine for all Python ints; "
        "fits_si12_eq, folded_li_immediate_i32/_i64/_sound. Each translated definition is run through driver_gen against the real function "
        "on boundary and random values (raise <-> none). PROVED VALIDATOR (C22Validate, XdslModel/RiscVValidate.lean): validate src body : Bool "
        "symbolically executes the emitted RV32 instruction list of a loop-free, call-free i32 function over the 31 entry registers "
        "(expression trees; sp-relative spill slots), normalises source and target terms to polynomials modulo 2^32 over hash-consed atoms "
        "for the non-polynomial operations (with the and/or/xor/div identities canonicalization uses) and compares; validate_sound: "
        "acceptance implies that from EVERY entry state with aligned sp the body runs without trap, a0.. hold the source results whenever "
        "MLIR defines them (source semantics = Sem.intBin/Sem.cmpi of the reference semantics), and ra, sp, s0-s11 are restored; "
        "backend_correct_straightline_partial: the same on the program-counter machine for body; ret. Leg B runs validate on every "
        "loop-free function that reaches the assembler (all certified on the unchanged tree); a rejected function is searched for a "
        "failing input (boundary cross product + random, Lean evalSrc as reference), loops stay on the stage-wise execution path. riscv_cf: constEvaluate_sound (const_evaluate of beq/bne/blt/bge/bltu/bgeu "
        "= what the branch instruction does, incl. equal operands) and elideConstantBranch_sound (the folded branch gives the same "
        "machine step); leg A runs every conditional branch op × boundary/equal constant pairs (li / mv / zero shapes, allocated "
        "and not) and constant-bound block-structured loops through the real canonicalize and executes before/after on a "
        "basic-block executor; leg B additionally takes the second way out of riscv_scf from the allocated module "
        "(convert-riscv-scf-to-riscv-cf, canonicalize, parallel-mov lowering, prologue/epilogue → assembler) incl. zero-trip and "
        "lb == ub constant loops, and nested loops whose inner result is yielded by the outer loop. A failure of the allocated "
        "stage is attributed to the listed allocator finding only if the *source* loop has the listed shape and an independent "
        "interference analysis (value-token tracking over registers, loop bodies re-run to a fixpoint) finds a live value "
        "overwritten in a loop-carried register. "
        "PASS ORDER AND FRAME COLLECTION (C22FrameWalk, XdslModel/RiscVFrameFloat.lean): the statement lists the passes, not one order, so "
        "leg B also runs riscv-prologue-epilogue-insertion while riscv_scf loops are still structured (P: after canonicalize, then "
        "lower-riscv-scf-to-labels; Q: right after allocation, then convert-riscv-scf-to-riscv-cf) and canonicalize before allocation (E); "
        "the IR with the inserted frame is executed (lw/sw/fld/fsd) and callee-saved registers incl. fs0-fs11 are compared there and on the "
        "emitted code, with loop-body temporaries pinned to s-/fs-registers. usedCalleeSaved_spec: the pass's register collection over "
        "func.walk() saves a register iff it is callee-saved and the result of a non-get_register op at ANY nesting depth; "
        "usedCalleeSaved_nodup, layout_disjoint/layout_within_frame (4-byte s-slots, 8-byte fs-slots); topLevelOnly_counterexample; "
        "frame_restores_every_callee_saved: for a straight-line body and the list the pass computes, sp and ALL of s0-s11 are restored "
        "(saved ones through the frame, the others because no instruction writes them: exec_preserves). The Lean collection + layout is "
        "compared with what the real pass inserted for every function at every place the pass runs. "
        "FLOAT (C22Float): the Python machine has the F/D subset the arith lowering and canonicalization emit (correctly rounded + - * / "
        "min max on exact rationals, fused multiply-add with ONE rounding, sign injection, NaN boxing, fld/fsd/flw/fsw); leg A covers the 7 "
        "float patterns (FuseMultiplyAddD: all 81 pairs of {none, fast, 7 single flags} on product and sum + mixed sets, one/two uses, "
        "work in between, allocated/unallocated; inputs where the product's rounding error survives the sum); a before/after difference is "
        "accepted only if it is a contraction licensed by `contract` on BOTH operations (read from the snippet, not from xDSL). Leg B lowers "
        "f64/f32 arith programs with per-op fast-math flags and compares every stage with the set of results the source's flags admit "
        "(own exact evaluator, strict reading cross-checked with the Lean reference semantics). fuseMultiplyAddD_licensed / _sound: for every "
        "float arithmetic the rule fires only with contract on sum and product, single use, stable multiplicands, and then writes a "
        "licensed value; fuse_reassoc_counterexample, fuse_stale_counterexample (the repaired post-allocation defect); Lean rule = real pattern per op. "
        "ONE ASSEMBLER UNIT (C22Labels, XdslModel/RiscVLabels.lean): a module is emitted as one unit in which function names and the local labels "
        "of all functions share a namespace. Leg B lowers modules of 2-4 functions (>= 2 with loops: one loop, two in sequence, nested; constant and "
        "argument-dependent trip counts; now and then a caller) as a whole, loads every stage output as a whole and calls EVERY function as an entry "
        "point against the reference semantics of that function; labels are resolved the way an assembler does: a name defined twice (in the IR: two "
        "riscv.label / function symbols of one module; in the text: two definitions) or a branch to an undefined label makes the unit unassemblable "
        "and is a failing input for every entry point, blamed on the first stage whose output has it. assemble_dup_iff / assemble_ok_sound / "
        "assemble_ok_policy_free: the model assembler rejects exactly the units with a duplicate definition, resolves every target of an accepted unit "
        "to a position holding that label, and first-wins = last-wins there (dup_resolution_differs: not so with a duplicate); allocShared_nodup: the "
        "numbering of both loop lowerings (ONE counter per module) gives pairwise distinct labels for every number of functions and loops; "
        "allocPerFunction_dup(_general): a counter restarted per function defines a label twice as soon as two functions have a loop. The labels the "
        "real lowerings define per function = Lean allocShared, the oracle's symbol table = Lean assemble (incl. rejected one-edit mutants of emitted units). "
        "PARALLEL MOVES ALONE (leg P, c22_pmov): inside the pipeline riscv-lower-parallel-mov only sees what the func / loop lowering create (one float type per "
        "function, never a designated free register: a float cycle there does not compile), so the pass is also run alone - like canonicalization in leg A - on "
        "generated riscv.parallel_mov operations between allocated registers: chains, fan-outs, one / two cycles with trees hanging off them, self-moves, integer "
        "and float registers in one op, a width (32 / 64) per source register mixed inside cycles, with and without designated free registers. The emitted "
        "mv / fmv.s / fmv.d / xor (mnemonics and registers as xDSL prints them) run on the machine from register files in which every source holds a value of its "
        "declared width (f32 NaN-boxed, f64 an arbitrary 64-bit pattern; fmv.s of a register that is not NaN-boxed yields the canonical NaN): every destination must "
        "hold what its source held, no register other than destinations and designated free registers may change. "
        "FLOAT COMPARISONS: arith.cmpf, all 16 predicates x both operand orders (f32; f64 is refused by the repaired lowering), on relational operand pairs - "
        "lt / eq / gt / unordered each occur: equal patterns, +0 vs -0, equal infinities, adjacent values, NaN left / right / both - judged like the cmpi programs "
        "after the arith lowering, allocation and early canonicalization against the Lean reference semantics (Sem.cmpfTable)."
    ),
    "technique": "Lean 4 proofs of rewrite rules over an RV32 BitVec machine + theorems over fold kernels translated from the Python source + a proved symbolic-execution translation validator run on every emitted loop-free function + differential snippets + stage-wise execution on an independent machine model",
    "level_note": (
        "Proved: per-rule soundness/encodability on the model, cmpi table, frame discipline for straight-line bodies, the translated "
        "fold kernels, soundness of the translation validator (all inputs, per accepted function). "
        "Validated per program, not proved: the lowering passes, register allocation, parallel-move lowering and the "
        "loop lowering (loop-free functions: certified for all inputs by the proved validator, ∀-programs is enumeration; functions with "
        "scf.for or calls: executed on generated programs × inputs only). The validator is incomplete by design (ring identities mod 2^32 + "
        "the listed bitwise/division identities): a rejection is not a finding, it triggers a failing-input search and is otherwise "
        "recorded as unproved in the evidence (0 on the unchanged tree). i1 results cannot leave a riscv function in the pinned pipeline "
        "(riscv-lower-parallel-mov: unsupported width), so cmpi reaches the validator only through the Lean examples. Float: executed on "
        "the Python machine only (the Lean machine is integer; the FuseMultiplyAddD rule and its licence are proved over an abstract "
        "arithmetic, IEEE rounding itself is not modelled in Lean); two NaNs are the same result; fast-math flags other than `contract` "
        "licence nothing here (no pattern uses them) and `contract` licences exactly product-into-sum/difference fusion; float programs are "
        "straight-line addf/subf/mulf/divf (arith.negf on f64 lowers to the single-precision fsgnjn.s - no double-precision op exists in "
        "the dialect -, minimumf/maximumf lower to fmin/fmax with different NaN behaviour, conversions: outside the generated family; cmpf: one comparison per "
        "program, f32 only - f64 operands are refused by the repaired lowering, the dialect has no feq.d/flt.d/fle.d -, observed like cmpi before parallel-move lowering). "
        "Leg P is value level: fmv.d of a NaN-boxed f32 copies all 64 bits and is not an error here (the declared-width discipline of every emitted move is C20's); "
        "two spellings of one register and the zero register in parallel moves are C20's as well; PassFailedException (float cycle without free register) = does not compile. "
        "Calls: a function that contains a call does not get through riscv-allocate-registers (the call excludes all a-/t-registers: "
        "OutOfRegisters = does not compile), so modules with a caller are executed on the unallocated form only (S1/E1, calls followed by "
        "the IR executor); jal to a name the unit does not define is left to the linker. "
        "Frame: restoring every callee-saved register is proved for straight-line bodies; bodies with loops and the placement of the "
        "pass in the pipeline are validated by execution. Outside the machine model (stated): snitch ScfgwOpUsingImmediate, "
        "RV64 execution (only py_operation kernels of rv64 are checked). Pipeline exceptions count as 'does not "
        "compile' (outside the statement, counted in the evidence). Inputs on which MLIR gives UB/poison (shift ≥ 32, "
        "division by zero, INT_MIN/-1) are excluded by the Lean reference semantics. Python `&|^` of the bitwise folds are "
        "modelled on the 32-bit images (equal for in-range operands: Lemmas/BV.lean) and cross-checked every run."
    ),
    "rule": (
        "leg A: for each of the 29 integer patterns ≥ N generated snippets (operands: block args, li constants drawn "
        "from a boundary table {0,±1,2047,2048,−2048,−2049,2^31−1,−2^31,2^32−1,…} or random, constants seen through mv / "
        "the zero register; unallocated and register-allocated by the real allocator) + fixed minimal inputs of every "
        "known defect + mixed dataflow snippets; each executed before/after on 10 register vectors (boundary+random). "
        "Non-trivial = the rewrite changed the instruction list. leg B: generated programs (1–4 i32 args, ≤6 statements, "
        "scf.for depth ≤1, all 13 integer ops, 10 cmpi predicates, constants incl. boundary immediates, optional helper "
        "call, optional s-register pinning) × 5 input vectors; non-trivial = reached the emitted assembler (all stages) "
        "on an input with defined source semantics. riscv_cf: 6 branch ops × 28 constant pairs (equal, adjacent, sign/unsigned "
        "boundary) + constants through mv / zero / allocated registers + half-constant and register-only branches + 15 constant "
        "loops (bge/blt, bgeu/bltu, beq/bne; zero-trip, lb == ub, one trip, INT_MAX bound) + random pairs; non-trivial = a "
        "branch was folded. Pipeline programs include 6 fixed + random nested loops (inner result yielded by the outer loop, outer "
        "carried value read in the inner body, ≥ 2 iterations, also zero-trip) and 7 constant-bound loops with equal/adjacent "
        "bounds, each also through the cf path. Distinct = distinct (snippet | program, input). Validator: every generated program without "
        "scf.for / call whose assembler is label + straight-line body + ret (non-trivial = certified function, distinct by source and body); "
        "translated kernels: 16 shift kernels x 8 shift amounts x 21 constants, 6 const_evaluate x 40 pairs x {32, 64}, _fits_si12 and "
        "_folded_li_immediate on 27 boundary/random values x 4 source type lists. Float: leg A 81+ directed flag pairs + >= 56 random "
        "FuseMultiplyAddD snippets (10 shapes) + 14 per other float pattern, 8 vectors (30% special values, 60% full-mantissa, the addend "
        "cancelling a product with probability 1/2); leg B 37 fixed + 40 random float programs x 6 inputs, half of the random ones with values "
        "pinned to fs-registers; 26 fixed loop programs repeated with loop-body temporaries pinned to s-registers (p = 0.7); every loop "
        "program also through P (and Q for pinned ones / half of the rest), every float program and 15% of the others through E. "
        "Multi-function modules: 5 fixed (3 of them again with pinned s-registers) + 12 (thorough 1500) generated, 3 random + 2 fixed input vectors per "
        "function, every function an entry point; distinct = (module, entry, input). Labels: every emitted unit with a local label vs Lean assemble, "
        "2 rejected mutants per multi-function unit, every loop lowering (cf conversion, labels pass before and after prologue insertion) vs Lean allocShared. "
        "Leg P: 110 fixed parallel moves (two- and three-cycles in every rotation with all 32/64 width patterns, with / without free register, float and integer, "
        "two cycles sharing one free register, both register files in one op) + 400 (thorough 30000) generated x 3 register files; non-trivial = the pass emitted "
        "at least one instruction, distinct by (moves, widths, free list). cmpf: 16 predicates x 2 operand orders on f32 + 5 with fastmath<fast> + 16 on f64, "
        "15 relational + 3 random operand pairs each (finite pairs only under fastmath<fast>: nnan / ninf make the others poison)."
    ),
    "trusted_base": [
        "independent Python RV32 machine harness/props/c22_rv.py (integer part cross-checked against the Lean machine every run; the F/D part - "
        "IEEE arithmetic on exact rationals - against the Lean reference semantics' native floats through the strict reading of every float program)",
        "hand-written Lean model XdslModel/RiscVFrameFloat.lean (register collection + frame layout tied to the real pass per function, FuseMultiplyAddD tied to the real pattern per op)",
        "hand-written Lean models XdslModel/RiscV.lean, RiscVRules.lean (rules tied to the real patterns by per-op correspondence)",
        "hand-written Lean model XdslModel/RiscVLabels.lean (label numbering tied to both real loop lowerings per module; assembler symbol table tied to the oracle's)",
        "Lean reference semantics XdslModel/Sem.lean for the source programs (C15)",
        "assembler-text parser for the emitted subset; an instruction it cannot read counts as not assembling",
        "translator harness/translate/py2lean.py + generate.py (regenerated and cross-checked against the real kernels every run)",
        "source encoder harness/props/c22_tv.py (func.func -> Src of the validator); Lean evalSrc is compared with the reference semantics on every sampled input",
    ],
    "budget": {"quick": 100, "thorough": 1100},
}

CP = "xdsl.transforms.canonicalization_patterns.riscv."
CANON_SITE = "xdsl.transforms.canonicalize.CanonicalizePass[riscv]"
LOOP_SITE = "xdsl.dialects.riscv_scf.ForRofOperation.allocate_registers"
LOOP_SIG = "loop-carried register shared with a value that is still live"

SIG_RAISE = "raises on verified IR"
SIG_ENC = "emits an instruction that cannot be encoded"
SIG_UNALLOC = "introduces an unallocated register into allocated code"
SIG_DIFF = "changes the result"
SIG_UNIT = "emitted assembly defines a label twice"
SIG_UNDEF = "emitted assembly branches to an undefined label"


# ================================================================================================
# leg A
# ================================================================================================

def facts_and_target(func: Any, target: str, nm: sn.Namer) -> tuple[Any, list[str]] | None:
    """the op defining %target and the facts the patterns can read from its operands' definitions"""
    from xdsl.dialects import riscv
    from xdsl.dialects.builtin import IntegerAttr
    from xdsl.ir import OpResult
    from xdsl.transforms.canonicalization_patterns.riscv import get_constant_value

    op = None
    for o in func.body.blocks.first.ops:
        if target.startswith("#"):
            if isinstance(o, riscv.SwOp):
                op = o
        elif any(r.name_hint == target for r in o.results):
            op = o
    if op is None:
        return None
    facts: list[str] = []
    seen: set[str] = set()
    for v in op.operands:
        r = nm.reg(v)
        if r in seen:
            continue
        seen.add(r)
        c = get_constant_value(v)
        if c is not None:
            facts.append(f"c {rv.regnum(r)} {c.value.data}")
        if isinstance(v, OpResult) and isinstance(v.op, (riscv.AddiOp, riscv.XoriOp)) and isinstance(v.op.immediate, IntegerAttr):
            k = "a" if isinstance(v.op, riscv.AddiOp) else "x"
            facts.append(f"{k} {rv.regnum(r)} {rv.regnum(nm.reg(v.op.rs1))} {v.op.immediate.value.data}")
    return op, facts


def fuse_line(op: Any, nm: sn.Namer) -> str:
    """protocol line of the Lean FuseMultiplyAddD rule for this fadd.d: its fast-math flags and registers, and
    for each operand what the pattern can read from its definition (fmul.d: multiplicands, flags, number of uses)"""
    from xdsl.dialects import riscv

    def mask(o: Any) -> int:
        fm = getattr(o, "fastmath", None)
        names = {f.value for f in fm.data} if fm is not None else set()
        return sum(1 << k for k, n in enumerate(sn.FLAG_NAMES) if n in names)

    def fr(v: Any) -> int:
        return rv.fregnum(nm.reg(v))

    parts = [f"fuse {mask(op)} {fr(op.rd)} {fr(op.rs1)} {fr(op.rs2)}"]
    for v in (op.rs1, op.rs2):
        o = v.owner
        if isinstance(o, riscv.FMulDOp):
            parts.append(f"mul {fr(o.rs1)} {fr(o.rs2)} {mask(o)} {sum(1 for _ in v.uses)}")
        else:
            parts.append("-")
    return " | ".join(parts)


def apply_to_op(pattern: Any, op: Any, nm: sn.Namer, fl: bool = False) -> str:
    """run the real pattern on exactly this op; protocol text of what replaced it"""
    from xdsl.dialects import riscv
    from xdsl.pattern_rewriter import PatternRewriter

    blk = op.parent
    before = list(blk.ops)
    ids = {id(o) for o in before}
    old_name = nm.reg(op.results[0]) if op.results else None
    rw = PatternRewriter(op)
    try:
        pattern.match_and_rewrite(op, rw)
    except Exception as e:  # noqa: BLE001
        return "raise " + core.exc_name(e)
    if not rw.has_done_action:
        return "none"
    new = [o for o in blk.ops if id(o) not in ids]
    # the value that replaces the old result keeps the old result's register name
    if old_name is not None and new and new[-1].results and not new[-1].results[0].type.is_allocated:
        nm.ids[id(new[-1].results[0])] = old_name
        nm.keep.append(new[-1].results[0])
    out = []
    for o in new:
        if isinstance(o, riscv.RISCVInstruction):
            out.append(rv.flean_instr(pp.ins_of(o, nm)) if fl else rv.lean_instr(pp.ins_of(o, nm)))
    return "some " + ";".join(out)


def snippet_case(pattern: str, mode: str, s: dict[str, Any]) -> dict[str, Any]:
    return {"leg": "A", "pattern": pattern, "mode": mode, "snippet": s, "mlir": sn.snip_text(s)}


def eval_snippet(ctx: core.Ctx, pats: dict[str, Any], pattern: str, mode: str, s: dict[str, Any],
                 vectors: int, lean_lines: list[str], lean_expect: list[tuple[str, Any, str]],
                 report: bool = True, aux: dict[str, list[Any]] | None = None) -> str | None:
    """returns the failure signature (None = property holds on this snippet)"""
    rng = ctx.rng
    isf = sn.is_float_snippet(s)
    try:
        m = sn.parse(sn.snip_text(s))
    except Exception as e:  # noqa: BLE001
        ctx.count("legA.generator_rejected." + core.exc_name(e))
        return None
    f = sn.the_func(m)
    if s.get("alloc"):
        try:
            sn.allocate(m)
        except Exception as e:  # noqa: BLE001
            ctx.count("legA.allocator_rejected." + core.exc_name(e))
            return None
    nm = sn.Namer()
    p0, argr, rets0 = sn.extract(f, nm)
    fset = frozenset(sn.float_regs(f, nm)) if isf else frozenset()
    if any(rv.encodable(i, True) for i in p0):
        ctx.count("legA.generator_rejected.unencodable_input")
        return None
    site = CP + pattern + ".match_and_rewrite" if mode == "single" else CANON_SITE
    case = snippet_case(pattern, mode, s)
    ctx.ev()

    def fail(sig: str, desc: str, impl: Any, want: Any) -> str:
        if report:
            ctx.fail(site, sig, case, desc, impl, want)
        return sig

    # rule correspondence (single mode with a designated target op): Lean rule vs the real pattern on that op
    if mode == "single" and "target" in s and pattern == "FuseMultiplyAddD" and aux is not None:
        # Lean rule (XdslModel/RiscVFrameFloat.lean, fuseMultiplyAddD) vs the real pattern on the designated fadd.d
        from xdsl.dialects import riscv as _riscv

        def target_op(fn: Any) -> Any:
            return next((o for o in fn.body.blocks.first.ops
                         if isinstance(o, _riscv.FAddDOp) and o.rd.name_hint == s["target"]), None)
        op = target_op(f)
        if op is not None:
            line = fuse_line(op, nm)
            m2 = sn.parse(sn.snip_text(s))
            if s.get("alloc"):
                sn.allocate(m2)
            nm2 = sn.Namer()
            f2 = sn.the_func(m2)
            sn.extract(f2, nm2)
            op2 = target_op(f2)
            if op2 is not None:
                aux["frame_lines"].append(line)
                aux["frame_expect"].append(("fuse", case, apply_to_op(pats[pattern], op2, nm2, fl=True)))
    elif mode == "single" and "target" in s and pattern in sn.INT_PATTERNS:
        ft = facts_and_target(f, s["target"], nm)
        if ft is not None:
            op, facts = ft
            ins_txt = rv.lean_instr(pp.ins_of(op, nm))
            fresh = 32 + nm.n
            line = f"rule {pattern} | {';'.join(facts)} | {ins_txt} | {fresh}"
            m2 = sn.parse(sn.snip_text(s))
            if s.get("alloc"):
                sn.allocate(m2)
            nm2 = sn.Namer()
            f2 = sn.the_func(m2)
            sn.extract(f2, nm2)
            ft2 = facts_and_target(f2, s["target"], nm2)
            if ft2 is not None:
                real = apply_to_op(pats[pattern], ft2[0], nm2)
                lean_lines.append(line)
                lean_expect.append(("rule", case, real))
    try:
        if mode == "single":
            changed = sn.apply_single(m, pats[pattern])
        else:
            sn.canonicalize(m)
            changed = None
        m.verify()
    except Exception as e:  # noqa: BLE001
        return fail(SIG_RAISE, f"{'pattern ' + pattern if mode == 'single' else 'canonicalize'} raised {core.exc_name(e)} on a verified snippet",
                    "raise " + core.exc_name(e) + ": " + str(e).split("\n")[0][:200], "no exception")
    p1, _, rets1 = sn.extract(sn.the_func(m), nm)
    if isf:
        fset = fset | frozenset(sn.float_regs(sn.the_func(m), nm))
    ctx.count(f"legA.{pattern}.{mode}." + ("rewritten" if p0 != p1 else "unchanged"))
    if p0 != p1:
        ctx.nt(("A", pattern, mode, json.dumps(s, sort_keys=True)))
    bad = [(rv.fmt(i), rv.encodable(i, True)) for i in p1 if rv.encodable(i, True)]
    if bad:
        return fail(SIG_ENC, "after the rewrite the function contains an instruction that does not assemble",
                    [rv.fmt(i) for i in p1], bad)
    if s.get("alloc"):
        v = [rv.fmt(i) for i in p1 if any(rv.is_virtual(a) for a in i[1])]
        if v:
            return fail(SIG_UNALLOC, "all registers were allocated before the rewrite; afterwards an instruction uses a register that has no name",
                        v, "only allocated registers")
    seed = 7 if s.get("mem") else 0
    choices = sn.contraction_choices(sn.licensed_contractions(s)) if isf else []
    for regs in (sn.input_vectors_f(rng, s, argr, vectors) if isf else sn.input_vectors(rng, argr, bool(s.get("mem")), vectors)):
        o0 = sn.run_prog(p0, regs, rets0, seed, fset)
        o1 = sn.run_prog(p1, regs, rets1, seed, fset)
        if o0[0] == "trap":
            ctx.count("legA.input_traps_before")
            continue
        if o0 != o1 and choices and any(sn.run_prog(p0, regs, rets0, seed, fset, fuse=c) == o1 for c in choices):
            # the only difference is a contraction that the `contract` flags of BOTH operations licence
            ctx.count("legA.licensed_contraction_changed_rounding")
            continue
        for prog, rets, obs in ((p0, rets0, o0), (p1, rets1, o1)):
            if isf:
                break
            if len(lean_lines) < 150000 and obs[0] == "ok":
                addrs = [a for a, _ in obs[2]]
                lean_lines.append(f"exec {seed} | {rv.lean_regs(regs)} | {rv.lean_prog(prog)} | "
                                  + " ".join(str(rv.regnum(r)) for r in rets) + " | " + " ".join(map(str, addrs)))
                lean_expect.append(("exec", {"prog": [rv.fmt(i) for i in prog], "regs": regs},
                                    "ok " + " ".join(str(x) for x in obs[1]) + " | " + " ".join(str(v) for _, v in obs[2])))
        if o0 != o1:
            case2 = dict(case, inputs=regs)
            if report:
                ctx.fail(site, SIG_DIFF, case2,
                         "executing the function on the RV32 machine gives different results before and after the rewrite"
                         + (" (F/D registers as bit patterns; the fast-math flags of the rewritten operations do not licence the change)" if isf else ""),
                         {"before": [rv.fmt(i) for i in p0], "after": [rv.fmt(i) for i in p1], "got": o1}, {"want": o0})
            return SIG_DIFF
    return None


CF_SITE = "xdsl.transforms.canonicalization_patterns.riscv_cf.ElideConstantBranches.match_and_rewrite"


def run_cf_func(m: Any, nm: sn.Namer, argr: list[str], regs: dict[str, int]) -> tuple[Any, ...]:
    mach = rv.Machine([], regs)
    ex = pp.IRExec(m, mach, fuel=20000)
    ex.nm = nm
    try:
        ex.call("f")
    except rv.Trap as e:
        return ("trap", str(e).split(":")[0])
    return ("ok", ex.ret_vals)


def eval_cf_case(ctx: core.Ctx, case: dict[str, Any], vectors: int, report: bool = True) -> str | None:
    """riscv_cf function through the real `canonicalize`; executed before and after on the RV32
    machine (block-structured executor): same returned values, i.e. every branch goes the same way"""
    from xdsl.dialects import riscv_cf

    try:
        m = sn.parse(case["mlir"])
    except Exception as e:  # noqa: BLE001
        ctx.count("legA.cf.generator_rejected." + core.exc_name(e))
        return None
    f = sn.the_func(m)
    nm = sn.Namer()
    argr = [nm.reg(a) for a in f.body.blocks.first.args]
    inputs = sn.input_vectors(ctx.rng, argr, False, vectors)
    before = [run_cf_func(m, nm, argr, r) for r in inputs]
    nbr = sum(isinstance(o, riscv_cf.ConditionalBranchOperation) for o in m.walk())
    ctx.ev()
    try:
        sn.canonicalize(m)
        m.verify()
    except Exception as e:  # noqa: BLE001
        if report:
            ctx.fail(pp.STAGE_SITE["C4-cfcanon"], SIG_RAISE, case, f"canonicalize raised {core.exc_name(e)} on a verified riscv_cf function",
                     "raise " + core.exc_name(e) + ": " + str(e).split("\n")[0][:200], "no exception")
        return SIG_RAISE
    nbr2 = sum(isinstance(o, riscv_cf.ConditionalBranchOperation) for o in m.walk())
    folded = nbr2 < nbr
    ctx.count(f"legA.cf.{case['kind']}.{case['op']}." + ("folded" if folded else "kept"))
    if folded:
        ctx.nt(("A-cf", case["mlir"]))
    for regs, o0 in zip(inputs, before):
        if o0[0] == "trap":
            ctx.count("legA.cf.input_traps_before")
            continue
        o1 = run_cf_func(m, nm, argr, regs)
        if o1 != o0:
            if report:
                ctx.fail(CF_SITE if folded else pp.STAGE_SITE["C4-cfcanon"], SIG_DIFF, dict(case, inputs=regs),
                         "executing the riscv_cf function on the RV32 machine gives different results before and after canonicalize "
                         "(a constant-folded branch goes the other way)", {"after": str(m)[:2500], "got": o1}, {"want": o0})
            return SIG_DIFF
    return None


def run_cf_snippets(ctx: core.Ctx) -> None:
    cases = sn.cf_cases(ctx.rng, 40 if ctx.tier == "quick" else 3000)
    lean_lines: list[str] = []
    lean_expect: list[tuple[str, Any, str]] = []
    for case in cases:
        if ctx.time_left() < 25:
            ctx.count("legA.cf.skipped_for_time")
            continue
        ctx.count("legA.cf.cases")
        eval_cf_case(ctx, case, 4 if ctx.tier == "quick" else 8)
    # const_evaluate of every branch class vs the Lean model of it (and, there, vs the machine's `taken`)
    from xdsl.dialects import riscv_cf

    classes = {"beq": riscv_cf.BeqOp, "bne": riscv_cf.BneOp, "blt": riscv_cf.BltOp, "bge": riscv_cf.BgeOp,
               "bltu": riscv_cf.BltuOp, "bgeu": riscv_cf.BgeuOp}
    pairs = list(sn.BR_PAIRS) + [(ctx.rng.randint(-2**31, 2**31 - 1), ctx.rng.randint(-2**31, 2**31 - 1)) for _ in range(20)]
    for opn, cls in classes.items():
        for a, b in pairs:
            na, nb = rv.s32(a), rv.s32(b)  # get_constant_value hands over normalised i32 payloads
            try:
                got = "taken" if cls.const_evaluate(None, na, nb, 32) else "fall"  # type: ignore[arg-type]
            except Exception as e:  # noqa: BLE001
                got = "raise " + core.exc_name(e)
            want = "taken" if rv.branch_taken(opn, na & rv.M32, nb & rv.M32) else "fall"
            ctx.ev()
            if got != want:
                ctx.fail(f"xdsl.dialects.riscv_cf.{cls.__name__}.const_evaluate", "constant evaluation of a branch differs from the instruction",
                         {"leg": "A", "kind": "const_evaluate", "op": opn, "rs1": na, "rs2": nb},
                         f"const_evaluate({na}, {nb}, 32) of {opn}", got, want)
            lean_lines.append(f"cbr {opn} {na} {nb}")
            lean_expect.append(("cbr", {"op": opn, "rs1": na, "rs2": nb}, got))
    outs = ctx.model("riscv", lean_lines) if lean_lines else []
    for (kind, case, want), got in zip(lean_expect, outs):
        ctx.count("lean.cbr")
        if got == "bad-op":
            ctx.count("lean.cbr.unsupported")
            continue
        if got != want and not want.startswith("raise"):
            ctx.mismatch("correspondence:C22/riscv-cbr", case, want, got, "real const_evaluate vs Lean constEvaluate")


def attribute(ctx: core.Ctx, pats: dict[str, Any], s: dict[str, Any], sig: str, vectors: int) -> str | None:
    """which single pattern reproduces a canonicalize-level failure"""
    for p in sn.INT_PATTERNS + sn.FLOAT_PATTERNS:
        sub = core.Ctx.__new__(core.Ctx)
        sub.__dict__.update(ctx.__dict__)
        sub.rng = random.Random(1)
        got = eval_snippet(sub, pats, p, "single", {k: v for k, v in s.items() if k != "target"}, vectors, [], [], report=False)
        if got == sig:
            return p
    return None


def shrink_snippet(ctx: core.Ctx, pats: dict[str, Any], pattern: str, mode: str, s: dict[str, Any], sig: str) -> dict[str, Any]:
    def still(ops: list[Any]) -> bool:
        t = dict(s, ops=ops)
        t.pop("target", None)
        sub = core.Ctx.__new__(core.Ctx)
        sub.__dict__.update(ctx.__dict__)
        sub.rng = random.Random(2)
        try:
            return eval_snippet(sub, pats, pattern, mode, t, 12, [], [], report=False) == sig
        except Exception:  # noqa: BLE001
            return False
    ops = core.shrink_list(list(s["ops"]), still, max_steps=60)
    t = dict(s, ops=ops)
    t.pop("target", None)
    return t


def run_snippets(ctx: core.Ctx) -> None:
    pats = sn.pattern_instances()
    g = sn.FGen(ctx.rng)
    aux: dict[str, list[Any]] = {"frame_lines": [], "frame_expect": []}
    per = 14 if ctx.tier == "quick" else 500
    nmixed = 80 if ctx.tier == "quick" else 5000
    vectors = 8 if ctx.tier == "quick" else 14
    cases: list[tuple[str, dict[str, Any]]] = list(sn.directed())
    for p in sn.INT_PATTERNS:
        for _ in range(per):
            cases.append((p, sn.gen_for(p, g)))
    cases += sn.float_directed()
    for p in sn.FLOAT_PATTERNS:
        for _ in range(per * (4 if p == "FuseMultiplyAddD" else 1)):
            cases.append((p, sn.gen_float(p, g)))
    for _ in range(nmixed):
        cases.append(("mixed", sn.gen_mixed(g)))
    lean_lines: list[str] = []
    lean_expect: list[tuple[str, Any, str]] = []
    for pattern, s in cases:
        if ctx.time_left() < 25:
            ctx.count("legA.skipped_for_time")
            continue
        ctx.count("legA.cases")
        for mode in (["single"] if pattern != "mixed" else []) + ["canon"]:
            sig = eval_snippet(ctx, pats, pattern, mode, s, vectors, lean_lines, lean_expect, report=False, aux=aux)
            if sig is None:
                continue
            pat, md, sm = pattern, mode, s
            if mode == "canon":
                blamed = attribute(ctx, pats, s, sig, vectors)
                if blamed is not None:
                    pat, md = blamed, "single"
            if pattern == "mixed":
                sm = shrink_snippet(ctx, pats, pat, md, s, sig)
            eval_snippet(ctx, pats, pat, md, sm, 16, [], [], report=True)
    if len(ctx.samples) < 3 and cases:
        ctx.sample({"leg": "A", "pattern": cases[-1][0], "mlir": sn.snip_text(cases[-1][1])})
    # Lean: machine and rule correspondence
    outs = ctx.model("riscv", lean_lines) if lean_lines else []
    for (kind, case, want), got in zip(lean_expect, outs):
        ctx.count(f"lean.{kind}")
        if got == "bad-op":
            ctx.count(f"lean.{kind}.unsupported")
            continue
        if kind == "rule" and want.startswith("raise"):
            continue  # reported by the oracle above
        if got != want:
            ctx.mismatch(f"correspondence:C22/riscv-{kind}", case, want, got,
                         "real pattern output vs Lean rule" if kind == "rule" else "Python RV32 machine vs Lean RV32 machine")
    outs = ctx.model("riscv_frame", aux["frame_lines"]) if aux["frame_lines"] else []
    for (kind, case, want), got in zip(aux["frame_expect"], outs):
        ctx.count(f"lean.{kind}")
        if got == "bad-op":
            ctx.count(f"lean.{kind}.unsupported")
            continue
        if want.startswith("raise"):
            continue
        if got != want:
            ctx.mismatch(f"correspondence:C22/riscv-{kind}", case, want, got, "real FuseMultiplyAddD output vs Lean fuseMultiplyAddD")


# ================================================================================================
# leg B
# ================================================================================================

def entry_view(p: dict[str, Any], name: str) -> dict[str, Any]:
    """the program as seen from one of its entry points: `arg_types` / `ret_types` of that function"""
    f = next((f for f in p.get("funcs", []) if f["name"] == name), None)
    if f is None:
        return dict(p, entry=name)
    return dict(p, entry=name, arg_types=f["arg_types"], ret_types=f["ret_types"])


def compile_and_run(p: dict[str, Any], vecs: list[list[int]], regsets: list[dict[str, int]], pin_seed: int | None,
                    ctx: core.Ctx | None, paths: tuple[str, ...] = ("C", "P", "Q"), entries: list[str] | None = None) -> dict[str, Any]:
    """all stages of the main path and of the side paths `paths` (pass-order family, see c22_pipe);
    observations per stage per input.  `entries`: the function each input is for (default `main`); the module is
    compiled once, as one unit, and every stage output is loaded as a whole before an entry point is called"""
    out: dict[str, Any] = {"stages": [], "nocompile": None, "nocompile_cf": None, "nocompile_side": {}, "unsafe_loops": False,
                           "interference": [], "asm": None, "prog": None, "frames": []}
    m = proggen.parse_module(p["text"])
    entries = entries or [p.get("entry", "main")] * len(vecs)
    # on the source, before any pass under test: per entry point, over the functions it can reach
    out["reach"] = pp.call_closure(m)
    out["unsafe_by_entry"] = {e: pp.unsafe_source_loops(m, out["reach"].get(e, {e})) for e in set(entries)}
    out["unsafe_loops"] = any(out["unsafe_by_entry"].values())
    rets = [pp.abi_regs(entry_view(p, e)["ret_types"]) for e in entries]
    has_loop = "scf.for" in p["text"]
    snaps: dict[str, Any] = {}

    def run_stage(m: Any, sname: str, passes: list[str]) -> tuple[str, str, str] | None:
        if sname == "S2-allocated" and pin_seed is not None:
            out["pinned"] = pp.pin_s_registers(m, random.Random(pin_seed), p.get("pin_p", 0.4))
        loops = pp.loops_per_function(m) if sname in pp.KINDS_OF_STAGE else []
        err = pp.apply_passes(m, passes, frame_obs=lambda fr: out["frames"].extend((sname,) + x for x in fr))
        if err:
            return err
        if any(n for _, n in loops):
            # the names the loop lowering gave the loops of the module (for the Lean model of its numbering)
            out.setdefault("label_alloc", []).append(
                (sname, pp.KINDS_OF_STAGE[sname], [n for _, n in loops],
                 pp.labels_per_function(pp.ir_label_defs(m), [f for f, _ in loops], pp.KINDS_OF_STAGE[sname])))
        if sname == "S2-allocated":
            try:
                out["interference"] = pp.interference(m)
            except Exception as e:  # noqa: BLE001
                out["interference"] = [{"analysis": "failed: " + core.exc_name(e)}]
        if sname in pp.ASM_STAGES:
            asm = pp.asm_text(m)
            prog = rv.parse_asm(asm)
            out.setdefault("asm_by_stage", {})[sname] = (asm, prog)
            if sname == pp.FINAL:
                out["asm"], out["prog"] = asm, prog
            bad = [(rv.fmt(i), rv.encodable(i)) for i in prog if rv.encodable(i)]
            unit = rv.unit_errors(prog)   # what makes an assembler reject the unit whatever the input
            if bad:
                out["stages"].append((sname, [("unencodable", bad)] * len(vecs), asm))
            elif unit:
                out["stages"].append((sname, [("unassemblable", unit)] * len(vecs), asm))
            else:
                out["stages"].append((sname, [pp.run_asm(prog, r, rt, e) for r, rt, e in zip(regsets, rets, entries)], asm))
        else:
            # the labels are operations of the IR: a name defined twice in the module is already the defect
            dups = rv.duplicates(pp.ir_label_defs(m))
            if dups:
                out["stages"].append((sname, [("unassemblable", [f"label {n} is defined twice" for n in dups])] * len(vecs), str(m)))
                return None
            try:
                out["stages"].append((sname, [pp.run_ir(m, r, rt, e) for r, rt, e in zip(regsets, rets, entries)], str(m)))
            except pp.IRUnsupported as e:
                if ctx is not None:
                    ctx.count("legB.ir_executor_unsupported." + str(e)[:40])
        return None

    for sname, passes in pp.STAGES:
        err = run_stage(m, sname, passes)
        if err:
            out["nocompile"] = (sname,) + err
            break
        if (sname == "S1-lowered" and "E" in paths) or (sname in ("S2-allocated", "S4-canon") and has_loop):
            snaps[sname] = m.clone()
    for name in paths:
        start, stages = pp.SIDE_PATHS[name]
        if start not in snaps or (name != "E" and not has_loop):
            continue
        m2 = snaps[start].clone()
        for sname, passes in stages:
            err = run_stage(m2, sname, passes)
            if err:
                out["nocompile_side"][name] = (sname,) + err
                break
    out["nocompile_cf"] = out["nocompile_side"].get("C")
    return out


def judge(p: dict[str, Any], regs: dict[str, int], want: Any, stage_obs: list[tuple[str, Any, str]]) -> tuple[str, str, str, Any] | None:
    """(stage, signature, description, observation) of the first stage that breaks the property.  `want`: the
    source results, or (float programs) {"admissible": [results…]} - every result the fast-math flags admit"""
    wants = want["admissible"] if isinstance(want, dict) else [want]
    for sname, ob, txt in stage_obs:
        if ob[0] == "unencodable":
            return (sname, SIG_ENC, "the emitted assembler contains an instruction that does not assemble", ob[1])
        if ob[0] == "unassemblable":
            twice = any("defined twice" in x for x in ob[1])
            return (sname, SIG_UNIT if twice else SIG_UNDEF,
                    "the module is emitted as one assembler unit; " + ("it defines a label more than once (an assembler rejects the unit; "
                    "resolved to either definition, branches of one function land in another)" if twice else
                    "a branch names a label that the unit does not define"), ob[1])
        if ob[0] != "ok":
            return (sname, "execution traps", f"executing the stage output traps: {ob[1]}", ob[1])
        if sname in ("S2-allocated", "S3-pmov", "S4-canon", "C3-cf", "C4-cfcanon", "P5-frame", "Q3-frame") and len(ob) > 3 and ob[3]:
            return (sname, SIG_UNALLOC, "registers were allocated, yet the stage output uses values without a register", ob[3])
        got = pp.canon_rets(ob[1], p["ret_types"])
        if got not in wants:
            return (sname, "result differs from the source semantics",
                    f"{', '.join(pp.abi_regs(p['ret_types']))} after executing the {sname} output differ from the source results"
                    + (" (no contraction that the fast-math flags of the source licence explains them)" if isinstance(want, dict) else ""),
                    {"got": got, "want": wants[0] if len(wants) == 1 else {"any of": wants}})
        if sname in pp.FINALS or sname in pp.FRAME_IR:
            cs = {r: (regs[r], ob[2][r]) for r in pp.ALL_CALLEE_SAVED if ob[2][r] != regs[r]}
            if cs:
                return (sname, "callee-saved register or sp not restored",
                        "callee-saved registers / sp differ between entry and return", cs)
    return None


def run_pipeline(ctx: core.Ctx) -> None:
    rng = ctx.rng
    g = pp.Gen(rng)
    nprog = 90 if ctx.tier == "quick" else 10000
    progs = [pp.cmpi_program(pr, sw) for pr in proggen.CMPI for sw in (False, True)]
    progs += pp.directed_programs()
    ndirected = len(progs)
    # the same loop programs with loop-body temporaries in callee-saved registers (prologue/epilogue must see them
    # wherever it runs in the pipeline), and the float programs (fast-math flags decide what may be contracted)
    progs += [dict(q, pin=True, pin_p=0.7) for q in pp.directed_programs() if "scf.for" in q["text"]]
    progs += pp.float_directed()
    # float comparisons: all 16 predicates x both operand orders on f32 (+ fast-math flag on a sample); the inputs
    # are relational (equal, +0/-0, adjacent, unordered): see pp.cmpf_inputs
    progs += [pp.cmpf_program(pr, "f32", sw) for pr in pp.CMPF for sw in (False, True)]
    progs += [pp.cmpf_program(pr, "f32", False, "fast") for pr in pp.CMPF[1::3]]
    progs += [pp.cmpf_program(pr, "f64") for pr in pp.CMPF]
    # modules of several functions with loops: ONE assembler unit, every function an entry point (labels are
    # resolved over the whole unit, the way an assembler does)
    md = pp.multi_directed()
    progs += md + [dict(q, pin=True, pin_p=0.7) for q in md[:3]]
    ndirected = len(progs)
    progs += [g.multi_program() for _ in range(12 if ctx.tier == "quick" else 1500)]
    progs += [pp.nested_program(rng) for _ in range(8 if ctx.tier == "quick" else 1500)]
    progs += [g.program() for _ in range(nprog)]
    progs += [pp.float_program(rng) for _ in range(40 if ctx.tier == "quick" else 4000)]
    frame_lines: list[str] = []
    frame_expect: list[tuple[str, Any, str]] = []
    sem_lines: list[str] = []
    expect: list[Any] = []
    lean_lines: list[str] = []
    lean_expect: list[tuple[str, Any, str]] = []
    tv_lines: list[str] = []
    tv_items: list[dict[str, Any]] = []
    lab_lines: list[str] = []
    lab_expect: list[tuple[str, Any, str]] = []

    def unit_line(prog: list[tuple[str, list[Any]]], case: dict[str, Any]) -> None:
        """the oracle's symbol table of an emitted unit vs the Lean `assemble`"""
        line, names = rv.lean_unit(prog)
        kind, val = rv.assemble(prog)
        lab_lines.append(line)
        lab_expect.append(("asm", case, ("ok " + " ".join(map(str, val))).strip() if kind == "ok" else f"{kind} {names[val]}"))

    for idx, p in enumerate(progs):
        if ctx.time_left() < 30:
            ctx.count("legB.skipped_for_time")
            continue
        try:
            m = proggen.parse_module(p["text"])
            sexp = miniir.serialize(m)
        except Exception as e:  # noqa: BLE001
            ctx.count("legB.generator_rejected." + core.exc_name(e))
            continue
        src = tv.src_of(m)  # the validator's view of the source (None: loops, calls, other types)
        ctx.programs += 1
        isfloat = "fspec" in p
        entries: list[str] | None = None
        if isfloat:
            vecs = pp.float_inputs(rng, p, 6)
        elif p.get("float_args"):
            vecs = pp.cmpf_inputs(rng, p["arg_types"][0], finite_only="fastmath" in p["text"])
            ctx.count("legB.cmpf.programs")
        elif "funcs" in p:
            vecs, entries = [], []
            for f in p["funcs"]:
                fv = g.inputs(f["arg_types"], 3) + ([[2, 3], [-8, 5]] if len(f["arg_types"]) == 2 else [])
                vecs += fv
                entries += [f["name"]] * len(fv)
            ctx.count("legB.multi.modules")
            ctx.count("legB.multi.functions_with_loops", sum("scf.for" in t for t in p["text"].split("func.func")[1:]))
        else:
            vecs = g.inputs(p["arg_types"], 5)
            if idx < ndirected and len(p["arg_types"]) == 2 and not p.get("pin"):
                vecs += pp.BOUNDARY_PAIRS
        views = [entry_view(p, e) for e in entries] if entries else [p] * len(vecs)
        regsets = [pp.entry_regs(rng, v, pv["arg_types"]) for v, pv in zip(vecs, views)]
        if isfloat and idx >= ndirected and rng.random() < 0.5:
            p = dict(p, pin=True, pin_p=0.7)
        pin_seed = rng.randrange(1 << 30) if (p.get("pin") or (idx >= ndirected and rng.random() < 0.4)) else None
        # side paths: C and P for every loop program; Q (prologue before the cf conversion) when values sit in
        # callee-saved registers and for half of the others; E for float programs and a sample of the integer ones
        paths = ("C", "P") + (("Q",) if (pin_seed is not None or rng.random() < 0.5) else ()) \
            + (("E",) if (isfloat or rng.random() < 0.15) else ())
        res = compile_and_run(p, vecs, regsets, pin_seed, ctx, paths, entries)
        if entries and any(sn_ in pp.FINALS for sn_, _, _ in res["stages"]):
            ctx.count("legB.multi.reached_assembler")
        for pth, nc in res["nocompile_side"].items():
            if pth != "C":
                ctx.count(f"legB.path_{pth}.does_not_compile." + ".".join(nc[:3]))
        for sn_, _, _ in res["stages"]:
            if sn_ in ("E1-earlycanon", "P6-asm", "Q4-cfasm"):
                ctx.count(f"legB.path_{sn_[0]}.compiled")
        if isfloat and any(sn_ == pp.FINAL for sn_, _, _ in res["stages"]):
            ctx.count("legB.float.compiled" + ("_with_fs_registers" if res.get("pinned") else ""))
        # what PrologueEpilogueInsertion saved vs the Lean model of its register collection and frame layout
        for sname_, fname_, tree_, real_ in res["frames"]:
            if len(frame_lines) < 3000:
                frame_lines.append("clobber " + tree_)
                frame_expect.append(("clobber", {"leg": "B", "program": p["text"], "stage": sname_, "function": fname_, "pin_seed": pin_seed}, real_))
        if res["nocompile"]:
            ctx.count("legB.does_not_compile." + ".".join(res["nocompile"][:3]))
        elif any(sn_ == pp.FINAL for sn_, _, _ in res["stages"]):
            ctx.count("legB.compiled")
            if res.get("pinned"):
                ctx.count("legB.compiled_with_s_registers")
        if res["nocompile_cf"]:
            ctx.count("legB.cf_path.does_not_compile." + ".".join(res["nocompile_cf"][:3]))
        elif any(sn_ == "C5-cfasm" for sn_, _, _ in res["stages"]):
            ctx.count("legB.cf_path.compiled")
        # labels: numbering by the loop lowerings vs the Lean `allocShared`; emitted units vs the Lean `assemble`
        for sname_, kinds_, loops_, real_ in res.get("label_alloc", []):
            if len(lab_lines) < 3000:
                lab_lines.append("alloc " + " ".join(map(str, kinds_)) + " | " + " ".join(map(str, loops_)))
                lab_expect.append(("alloc", {"leg": "B", "program": p["text"], "stage": sname_, "pin_seed": pin_seed}, real_))
        for sname_, (asm_, prog_) in res.get("asm_by_stage", {}).items():
            if len(lab_lines) < 3000 and any(mm == "label" for mm, _ in prog_[1:]) and (entries or sname_ in pp.FINALS):
                unit_line(prog_, {"leg": "B", "stage": sname_, "asm": asm_})
                if entries and sname_ == pp.FINAL:
                    # the rejecting verdicts on units one edit away from an emitted one: a label renamed to an earlier
                    # one (defined twice), a branch target's definition removed (undefined)
                    locs = [k for k, (mm, a) in enumerate(prog_) if mm == "label" and a[0].startswith("scf_")]
                    if len(locs) >= 2:
                        k1, k2 = sorted(rng.sample(locs, 2))
                        unit_line(prog_[:k2] + [("label", [prog_[k1][1][0]])] + prog_[k2 + 1:], {"leg": "B", "mutant": "renamed", "asm": asm_})
                        unit_line(prog_[:k1] + prog_[k1 + 1:], {"leg": "B", "mutant": "dropped", "asm": asm_})
        # translation validation with the proved validator: every loop-free function that reached the assembler
        item = None
        if src is None:
            ctx.count("legB.tv.not_straightline")
        elif res["prog"] is None:
            ctx.count("legB.tv.not_compiled")
        else:
            body = tv.body_of(res["prog"])
            if body is None:
                ctx.count("legB.tv.unsupported_assembler_shape")
            else:
                item = {"p": p, "src": src[0], "body": body, "prog": res["prog"], "asm": res["asm"], "pin_seed": pin_seed,
                        "tv_at": len(tv_lines), "ev": [], "bad": []}
                tv_lines.append(tv.tv_line(src[0], body))
                tv_items.append(item)
        sem_lines.append("prog " + sexp)
        expect.append(None)
        for i, vec in enumerate(vecs):
            pv = views[i]
            ename = pv.get("entry", "main")
            sem_lines.append(f"run 200000 {ename} " + " ".join(sem_arg(t, v) for t, v in zip(pv["arg_types"], vec)))
            # attribution data of the entry point: its own source loops / the interference found in functions it reaches
            reach = res["reach"].get(ename, {ename})
            expect.append((pv, vec, regsets[i], [(s, o[i], txt) for s, o, txt in res["stages"]], pin_seed,
                           (res["unsafe_by_entry"].get(ename, False),
                            [x for x in res["interference"] if x.get("function", ename) in reach]), item))
            if item is not None:
                item["ev"].append(len(tv_lines))
                tv_lines.append(tv.ev_line(src[0], vec))
            ctx.ev()
        # Lean machine vs Python machine on the emitted assembler
        for fin in pp.FINALS:
            st_obs = next((o for sn_, o, _ in res["stages"] if sn_ == fin), None)
            if st_obs is None or len(lean_lines) >= 4000:
                continue
            asm_f, prog = res["asm_by_stage"][fin]
            try:
                ptxt = None if rv.unit_errors(prog) else rv.lean_prog(prog)
            except (ValueError, KeyError):
                ptxt = None
            if ptxt is not None:
                # the first two inputs; modules of several functions: the first input of every entry point
                which = [entries.index(e) for e in dict.fromkeys(entries)][:3] if entries else list(range(min(2, len(vecs))))
                for i in which:
                    ob = st_obs[i]
                    ename = views[i].get("entry", "main")
                    entry = next((k for k, (mm, a) in enumerate(prog) if mm == "label" and a[0] == ename), None)
                    if entry is None or ob[0] not in ("ok", "trap"):
                        continue
                    obs = [f"a{k}" for k in range(len(views[i]["ret_types"]))] + rv.CALLEE_SAVED
                    lean_lines.append(f"run 200000 {entry} 0 | {rv.lean_regs(regsets[i])} | {ptxt} | " + " ".join(str(rv.regnum(r)) for r in obs))
                    if ob[0] == "ok":
                        want = "ok " + " ".join(str(x) for x in ob[1] + [ob[2][r] for r in rv.CALLEE_SAVED])
                    else:
                        want = "trap"
                    lean_expect.append(("run", {"asm": asm_f, "regs": regsets[i]}, want))
        # prologue / epilogue text vs Lean `prologue`/`epilogue` (the lists frame_sound is about)
        if res["prog"] is not None and res.get("pinned") and len(lean_lines) < 4000:
            fr = frame_of(res["prog"], "main")
            if fr is not None:
                saved, real = fr
                lean_lines.append("frame " + " ".join(str(rv.regnum(r)) for r in saved))
                lean_expect.append(("frame", {"asm": res["asm"]}, real))
        # the cmpi table: real lowering vs Lean lowerCmpi
        if idx < 20 and res["stages"]:
            pred = proggen.CMPI.index(p["text"].split("arith.cmpi ")[1].split(",")[0])
            swap = "%a1, %a0" in p["text"]
            real = cmpi_instrs(p)
            a, b = (33, 32) if swap else (32, 33)
            lean_lines.append(f"cmpi {pred} 99 98 {a} {b}")
            lean_expect.append(("cmpi", {"program": p["text"]}, real))
    outs = ctx.model("sem", sem_lines) if sem_lines else []
    reported = 0
    for e, o in zip(expect, outs):
        if e is None:
            if o != "ok":
                raise core.InfraError("MiniIR serialisation rejected by the Lean parser")
            continue
        p, vec, regs, stage_obs, pin_seed, (unsafe, interf), item = e
        want = pp.want_from_sem(o, p["ret_types"])
        if item is not None:
            item.setdefault("sem", []).append(want)
        if want is None:
            ctx.count("legB.source_outcome." + o.split(" ")[0])
            continue
        ctx.count("legB.source_outcome.ok")
        if "fspec" in p:
            # the oracle's evaluator (exact rationals, one rounding per operation) agrees with the Lean reference
            # semantics on the strict reading; the admissible set adds the licensed contractions
            adm = pp.float_admissible(p, vec)
            if adm[0] != want:
                ctx.mismatch("correspondence:C22/float-source", {"leg": "B", "program": p["text"], "args": vec}, adm[0], want,
                             "strict evaluation of the float source: Python IEEE evaluator vs Lean reference semantics (sem)")
                continue
            if len(adm) > 1:
                ctx.count("legB.float.inputs_where_contraction_changes_the_result")
            want = {"admissible": adm}
        bad = judge(p, regs, want, stage_obs)
        if item is not None and bad is not None:
            item["bad"].append((bad[0], bad[1], vec))
        if any(sn_ == pp.FINAL for sn_, _, _ in stage_obs):
            ctx.disagreements_checked += 1
            ctx.nt(("B", p["text"], p.get("entry", "main"), tuple(vec)))
        if bad is None:
            continue
        sname, sig, desc, obs = bad
        site = pp.STAGE_SITE[sname]
        # the listed allocator limitation: the *source* loop yields a value the allocator cannot tie to the
        # block argument AND the independent interference analysis of the allocated module finds a value
        # overwritten in a loop-carried register; anything else at this stage is new
        confirmed = [x for x in interf if x.get("loop_carried_register") == "True"]
        if sname == "S2-allocated" and unsafe and confirmed and sig == "result differs from the source semantics":
            site, sig = LOOP_SITE, LOOP_SIG
        elif sname == "S2-allocated" and interf:
            desc += "; interference analysis of the allocated module: " + json.dumps(interf[:4])
        case = {"leg": "B", "program": p["text"], "arg_types": p["arg_types"], "ret_types": p["ret_types"], "args": vec,
                "entry_regs": regs, "pin_seed": pin_seed, "pin_p": p.get("pin_p", 0.4)}
        if "funcs" in p:
            case["entry"], case["funcs"] = p.get("entry", "main"), p["funcs"]
        if "fspec" in p:
            case["fspec"] = p["fspec"]
        elif p.get("float_args"):
            case["float_args"] = True   # one operation: nothing to shrink
        elif reported < 6 and site != LOOP_SITE:
            reported += 1
            case = shrink_program(ctx, case, sname, sig)
        ctx.fail(site, sig, case, desc, {"stage": sname, "observation": obs,
                                         "stage_output": next(t for s, _, t in stage_obs if s == sname)[:3000]}, {"source_results": want})
    run_validator(ctx, tv_lines, tv_items)
    outs = ctx.model("riscv_frame", frame_lines) if frame_lines else []
    for (kind, case, want), got in zip(frame_expect, outs):
        ctx.count(f"lean.{kind}")
        if got == "bad-op":
            ctx.count(f"lean.{kind}.unsupported")
            continue
        if got != want:
            ctx.mismatch(f"correspondence:C22/riscv-{kind}", case, want, got,
                         "registers saved / frame layout of the real PrologueEpilogueInsertion vs Lean usedCalleeSaved + layout "
                         "of the function as func.walk() sees it")
    outs = ctx.model("riscv_labels", lab_lines) if lab_lines else []
    for (kind, case, want), got in zip(lab_expect, outs):
        ctx.count(f"lean.labels.{kind}" + ("." + want.split(" ")[0] if kind == "asm" else ""))
        if got == "bad-op":
            ctx.count(f"lean.labels.{kind}.unsupported")
            continue
        if got != want:
            ctx.mismatch(f"correspondence:C22/riscv-labels-{kind}", case, want, got,
                         "labels the real loop lowering defined per function vs Lean allocShared (one counter per module)" if kind == "alloc"
                         else "symbol table of the emitted unit: Python assembler model vs Lean assemble")
    outs = ctx.model("riscv", lean_lines) if lean_lines else []
    for (kind, case, want), got in zip(lean_expect, outs):
        ctx.count(f"lean.{kind}")
        if got == "bad-op":
            ctx.count(f"lean.{kind}.unsupported")
            continue
        if kind == "run" and got.startswith("ok"):
            got = got.split(" steps=")[0]
        if got != want:
            ctx.mismatch(f"correspondence:C22/riscv-{kind}", case, want, got,
                         "Python RV32 machine vs Lean RV32 machine on the emitted assembler" if kind == "run"
                         else "emitted prologue/epilogue vs Lean prologue/epilogue" if kind == "frame"
                         else "real LowerArithCmpi output vs Lean lowerCmpi")
    if progs:
        ctx.sample({"leg": "B", "program": progs[-1]["text"]})


def sem_arg(t: str, v: int) -> str:
    """argument text for the Lean reference semantics; floats are handed over as bit patterns"""
    return f"{t}:{v}" if t in ("f32", "f64") else miniir.arg_text(t, v)


TV_SITE = "xdsl.backend.riscv.lowering[straight-line function]"
SEARCH_VALUES = [0, 1, -1, 2, 3, 5, 31, 32, 33, -2, -3, 2047, 2048, -2048, 65536, (1 << 31) - 1, -(1 << 31), -(1 << 31) + 1, 0x55555555, -0x55555556]


def run_validator(ctx: core.Ctx, tv_lines: list[str], tv_items: list[dict[str, Any]]) -> None:
    """Lean `validate` (proved sound: XdslProofs/C22Validate.lean) on every loop-free function the pipeline
    emitted, and Lean `evalSrc` (the source semantics of that theorem) against the reference semantics `sem`.

    accepted  -> the function is certified for ALL inputs (counted; an accepted function that misbehaved on
                 the Python machine would be a correspondence failure of the machine models);
    rejected  -> the validator is incomplete by design, so a rejection alone is not a finding: the function is
                 searched for a failing input (boundary cross product + random vectors, source semantics from
                 Lean `evalSrc`); a found input is reported through the stage-wise path (first stage that is
                 wrong on it), no input found is recorded as `unproved`."""
    if not tv_lines:
        return
    outs = ctx.model("riscv_validate", tv_lines)
    unproved: list[dict[str, Any]] = []
    for it in tv_items:
        p = it["p"]
        verdict = outs[it["tv_at"]]
        if verdict == "bad-op":
            ctx.count("legB.tv.protocol_unsupported")
            continue
        # source semantics of the validator = reference semantics, on the sampled inputs
        for k, want in zip(it["ev"], it.get("sem", [])):
            got = outs[k]
            ctx.count("legB.tv.src_eval_compared")
            if want is None:
                if got.startswith("ok"):
                    ctx.mismatch("correspondence:C22/riscv-validate-src", {"leg": "B", "program": p["text"], "line": tv_lines[k]}, "undefined", got,
                                 "source semantics of the validator (evalSrc) defines a result where the reference semantics (sem) does not")
            elif got != "ok " + " ".join(str(v) for v in want):
                ctx.mismatch("correspondence:C22/riscv-validate-src", {"leg": "B", "program": p["text"], "line": tv_lines[k]},
                             "ok " + " ".join(str(v) for v in want), got,
                             "source semantics of the validator (evalSrc) vs reference semantics (sem)")
        if verdict == "ok":
            ctx.count("legB.tv.certified")
            ctx.nt(("B-tv", p["text"], it["body"]))
            wrong = [b for b in it["bad"] if b[0] == pp.FINAL]
            if wrong:
                ctx.mismatch("correspondence:C22/riscv-validate", {"leg": "B", "program": p["text"], "asm": it["asm"], "args": wrong[0][2]},
                             f"{wrong[0][1]} on the Python RV32 machine", "validate = ok",
                             "the proved validator accepted a function that misbehaves on the Python machine (machine models disagree?)")
            continue
        ctx.count("legB.tv.rejected." + verdict.split(":", 1)[-1].split("@")[0])
        if it["bad"]:
            ctx.count("legB.tv.rejected_and_failing_input_known")  # already reported by the stage-wise path
            continue
        found = search_failing_input(ctx, it)
        if found is None:
            ctx.count("legB.tv.unproved")
            unproved.append({"program": p["text"], "asm": it["asm"], "validator": verdict})
    if unproved:
        ctx.extra["tv_unproved"] = unproved[:5]


def search_failing_input(ctx: core.Ctx, it: dict[str, Any]) -> Any:
    """a rejected function: look for an input on which the emitted code differs from the source"""
    p = it["p"]
    n = len(p["arg_types"])
    rng = random.Random(hash(p["text"]) & 0xFFFFFF)
    vecs: list[list[int]] = []
    if n <= 2:
        vecs = [[a] if n == 1 else [a, b] for a in SEARCH_VALUES for b in (SEARCH_VALUES if n == 2 else [0])]
    vecs += [[rng.choice(SEARCH_VALUES) if rng.random() < 0.6 else rng.randint(-(1 << 31), (1 << 31) - 1) for _ in range(n)] for _ in range(300)]
    outs = ctx.model("riscv_validate", [tv.ev_line(it["src"], v) for v in vecs])
    nret = len(p["ret_types"])
    for vec, o in zip(vecs, outs):
        if not o.startswith("ok"):
            continue
        want = [int(x) for x in o.split()[1:]]
        regs = pp.entry_regs(rng, vec)
        ob = pp.run_asm(it["prog"], regs, nret)
        bad = judge(p, regs, [(w & 1) if t == "i1" else w for w, t in zip(want, p["ret_types"])], [(pp.FINAL, ob, it["asm"])])
        if bad is None:
            continue
        # blame the first stage that is wrong on this input
        res = compile_and_run(p, [vec], [regs], it["pin_seed"], None)
        stage_obs = [(s_, o_[0], txt) for s_, o_, txt in res["stages"]]
        bad2 = judge(p, regs, [(w & 1) if t == "i1" else w for w, t in zip(want, p["ret_types"])], stage_obs) or bad
        sname, sig, desc, obs = bad2
        case = {"leg": "B", "program": p["text"], "arg_types": p["arg_types"], "ret_types": p["ret_types"], "args": vec,
                "entry_regs": regs, "pin_seed": it["pin_seed"]}
        ctx.count("legB.tv.rejected_failing_input_found")
        ctx.fail(pp.STAGE_SITE[sname], sig, case, desc + " (input found after the proved validator refused to certify the function)",
                 {"stage": sname, "observation": obs, "stage_output": next((t for s_, _, t in stage_obs if s_ == sname), it["asm"])[:3000]},
                 {"source_results": want})
        return case
    return None


def frame_of(prog: list[tuple[str, list[Any]]], fname: str) -> tuple[list[str], str] | None:
    """(saved registers, `prologue | epilogue` in Lean protocol text) of a function in the emitted
    assembler, None when it has no frame"""
    try:
        start = next(i for i, (m, a) in enumerate(prog) if m == "label" and a[0] == fname) + 1
    except StopIteration:
        return None
    end = next((i for i in range(start, len(prog)) if prog[i][0] == "label" and not prog[i][1][0].startswith("scf_")), len(prog))
    body = prog[start:end]
    if not body or not (body[0][0] == "addi" and body[0][1][:2] == ["sp", "sp"] and body[0][1][2] < 0):
        return None
    n = 1
    saved = []
    while n < len(body) and body[n][0] == "sw" and body[n][1][1] == "sp" and body[n][1][0] in rv.CALLEE_SAVED:
        saved.append(body[n][1][0])
        n += 1
    if n < len(body) and body[n][0] == "fsd" and body[n][1][1] == "sp":
        return None  # a frame with fs-registers: compared through the `clobber` line (layout with 8-byte slots)
    rets = [i for i, (m, _) in enumerate(body) if m == "ret"]
    if not rets:
        return None
    ep = body[rets[-1] - len(saved) - 1:rets[-1]]
    return saved, ";".join(rv.lean_instr(i) for i in body[:n]) + " | " + ";".join(rv.lean_instr(i) for i in ep)


def cmpi_instrs(p: dict[str, Any]) -> str:
    """instructions LowerArithCmpi produced for the single cmpi program, in Lean protocol text with
    lhs/rhs copies = registers 32/33, intermediate = 98, result = 99"""
    from xdsl.dialects import riscv, riscv_func

    m = proggen.parse_module(p["text"])
    err = pp.apply_passes(m, pp.STAGES[0][1])
    if err:
        return "none"
    f = next(o for o in m.walk() if isinstance(o, riscv_func.FuncOp))
    ops = [o for o in f.body.blocks.first.ops if isinstance(o, riscv.RISCVInstruction) and not isinstance(o, riscv.MVOp) and len(o.results) == 1]
    names: dict[int, int] = {}
    mvs = [o for o in f.body.blocks.first.ops if isinstance(o, riscv.MVOp)]
    for k, o in enumerate(mvs):
        names[id(o.rd)] = 32 + k
    for o in ops[:-1]:
        names[id(o.results[0])] = 98
    names[id(ops[-1].results[0])] = 99
    out = []
    for o in ops:
        args = []
        for a in o.assembly_line_args():
            if hasattr(a, "type") and hasattr(a.type, "register_name"):
                args.append(str(0 if a.type.register_name.data == "zero" else names[id(a)]))
            else:
                args.append(str(a.value.data))
        out.append(o.assembly_instruction_name() + " " + " ".join(args))
    return "some " + ";".join(out)


def split_functions(text: str) -> tuple[list[str], list[list[str]], list[str]] | None:
    """module text → (lines before the first function, one list of lines per function, closing lines); the
    generated functions start with `func.func @` and end with `}` in column 0"""
    lines = text.split("\n")
    starts = [i for i, l in enumerate(lines) if l.startswith("func.func @")]
    if not starts:
        return None
    end = max(i for i, l in enumerate(lines) if l == "}")   # the module's closing brace
    chunks = [lines[a:b] for a, b in zip(starts, starts[1:] + [end])]
    return lines[:starts[0]], chunks, lines[end:]


def shrink_program(ctx: core.Ctx, case: dict[str, Any], stage: str, sig: str) -> dict[str, Any]:
    """smaller module with the same verdict (same stage, same signature, same entry point and input): whole
    functions other than the entry point are dropped first, then statements of every remaining function"""
    entry = case.get("entry", "main")
    parts = split_functions(case["program"])
    if parts is None:
        return case
    head, chunks, tail = parts

    def name_of(chunk: list[str]) -> str:
        return chunk[0].split("@", 1)[1].split("(", 1)[0]

    def text_of(cs: list[list[str]]) -> str:
        return "\n".join(head + [l for c in cs for l in c] + tail)

    def verdict(cs: list[list[str]]) -> bool:
        if entry not in [name_of(c) for c in cs]:
            return False
        t = text_of(cs)
        p = {"text": t, "arg_types": case["arg_types"], "ret_types": case["ret_types"], "pin_p": case.get("pin_p", 0.4), "entry": entry}
        try:
            m = proggen.parse_module(t)
            sexp = miniir.serialize(m)
            res = compile_and_run(p, [case["args"]], [case["entry_regs"]], case["pin_seed"], None, ("C", "P", "Q", "E"))
        except Exception:  # noqa: BLE001
            return False
        o = ctx.model("sem", ["prog " + sexp, f"run 200000 {entry} " + " ".join(miniir.arg_text(tt, v) for tt, v in zip(case["arg_types"], case["args"]))])[1]
        want = pp.want_from_sem(o, case["ret_types"])
        if want is None:
            return False
        bad = judge(p, case["entry_regs"], want, [(s, ob[0], txt) for s, ob, txt in res["stages"]])
        return bad is not None and bad[0] == stage and bad[1] == sig

    if not verdict(chunks):
        return case
    if len(chunks) > 1:
        chunks = core.shrink_list(chunks, verdict, max_steps=12)
    for k in range(len(chunks)):
        c = chunks[k]
        if len(c) < 4:
            continue

        def still(b: list[str], k: int = k, c: list[str] = c) -> bool:
            return verdict(chunks[:k] + [[c[0]] + b + c[-2:]] + chunks[k + 1:])
        chunks[k] = [c[0]] + core.shrink_list(c[1:-2], still, max_steps=80 if len(chunks) == 1 else 30) + c[-2:]
    out = dict(case, program=text_of(chunks))
    if "funcs" in case:
        out["funcs"] = [f for f in case["funcs"] if f["name"] in [name_of(c) for c in chunks]]
    return out


# ================================================================================================
# leg P: riscv-lower-parallel-mov alone on generated parallel moves (see c22_pmov)
# ================================================================================================

def run_pmov(ctx: core.Ctx) -> None:
    rng = ctx.rng
    cases = pm.directed() + [pm.generate(rng) for _ in range(400 if ctx.tier == "quick" else 30000)]
    for case in cases:
        if ctx.time_left() < 30:
            ctx.count("legP.skipped_for_time")
            continue
        vecs = pm.vectors(rng, case, 3)
        kind, low, bad = pm.evaluate(case, vecs)
        ctx.ev()
        if kind == "nocompile":
            ctx.count("legP.does_not_compile." + low[0] + "." + str(low[1]).split(":")[0][:48].replace(" ", "_"))
            continue
        widths = {w for s, _, w in case["moves"] if pm.is_float(s)}
        ctx.count("legP.lowered")
        if low[0] == "ok" and low[1]:
            ctx.nt(("P", json.dumps(case, sort_keys=True)))
            if len(widths) == 2 and case["free"]:
                ctx.count("legP.mixed_float_widths_with_free_register")
            if any(m == "xor" for m, _ in low[1]):
                ctx.count("legP.xor_swap")
        if bad is None:
            continue
        sig, desc, obs, regs = bad

        def still(mv: list[Any], regs: dict[str, int] = regs, sig: str = sig) -> bool:
            k, _, b = pm.evaluate(dict(case, moves=mv), [regs])
            return k == "bad" and b[0] == sig
        small = dict(case, moves=core.shrink_list(case["moves"], still, max_steps=60))
        kind2, low2, bad2 = pm.evaluate(small, [regs])
        if kind2 != "bad":
            small, low2, bad2 = case, low, bad
        ctx.fail(pm.SITE, bad2[0], dict(small, regs={r: regs[r] for r in pm.IPOOL + pm.FPOOL}), pm.text(small) + ": " + bad2[1],
                 {"emitted": [rv.fmt(i) for i in low2[1]] if low2[0] == "ok" else low2[1], "observation": bad2[2]},
                 {"simultaneous_assignment": {d: f"{regs[s_]:#x}" for s_, d, _ in small["moves"]}})
    ctx.sample(cases[-1])


# ================================================================================================
# leg C: py_operation kernels of the immediate-shift ops (rv32 and rv64)
# ================================================================================================

def ref_shift(name: str, x: int, n: int, w: int) -> int:
    mask = (1 << w) - 1
    u = x & mask
    s = u - (1 << w) if u >> (w - 1) else u
    r = {"slli": u << n, "srli": u >> n, "srai": s >> n, "bclri": u & ~(1 << n), "bexti": (u >> n) & 1,
         "binvi": u ^ (1 << n), "bseti": u | (1 << n), "rori": (u >> n) | (u << (w - n))}[name] & mask
    return r


def run_generated(lines: list[str]) -> list[str]:
    """the translated kernels (lean/XdslModel/Generated/*.lean) through `driver_gen`"""
    exe = core.LEAN / ".lake" / "build" / "bin" / "driver_gen"
    if not exe.exists():
        raise core.InfraError("driver_gen not built")
    p = subprocess.run([str(exe)], input="".join(l + "\n" for l in lines), capture_output=True, text=True, timeout=600)
    if p.returncode != 0:
        raise core.InfraError("driver_gen failed: " + p.stderr[-300:])
    out = p.stdout.split("\n")
    if out and out[-1] == "":
        out.pop()
    if len(out) != len(lines):
        raise core.InfraError("driver_gen line count mismatch")
    return out


def run_shift_kernels(ctx: core.Ctx) -> None:
    """oracle: py_operation(c) of every immediate-shift class = the instruction's result (bit formula);
    correspondence: the *translated* kernel (the definition the C22Kernels theorems are about) returns what
    the real method returns, `none` exactly where the real method raises"""
    from xdsl.dialects import rv32, rv64
    from xdsl.dialects.builtin import IntegerAttr, i32, i64
    from xdsl.dialects.test import TestOp
    from xdsl.dialects.riscv import Registers

    src = TestOp(result_types=[Registers.UNALLOCATED_INT]).results[0]
    gen_lines: list[str] = []
    gen_expect: list[tuple[Any, str]] = []
    for mod, w, ty in ((rv32, 32, i32), (rv64, 64, i64)):
        classes = {"slli": mod.SlliOp, "srli": mod.SrliOp, "srai": mod.SraiOp, "bclri": mod.BclrIOp, "bexti": mod.BextIOp,
                   "binvi": mod.BinvIOp, "bseti": mod.BsetIOp, "rori": mod.RorIOp}
        consts = [0, 1, -1, 2, 3, -3, 5, (1 << (w - 1)) - 1, -(1 << (w - 1)), 1 << (w - 2), -(1 << (w - 2)), 0x55555555, -0x55555556, 4096, -8]
        consts += [ctx.rng.randint(-(1 << (w - 1)), (1 << (w - 1)) - 1) for _ in range(6 if ctx.tier == "quick" else 60)]
        for name, cls in classes.items():
            for n in sorted({0, 1, 2, 5, w // 2, w - 2, w - 1, ctx.rng.randrange(w)}):
                op = cls(src, n)
                for c in consts:
                    ctx.ev()
                    want = ref_shift(name, c, n, w)
                    try:
                        got = op.py_operation(IntegerAttr(c, ty)).value.data
                        line = str(got & ((1 << w) - 1))
                        gline = f"int {got}"
                    except Exception as e:  # noqa: BLE001
                        line = "raise " + core.exc_name(e)
                        gline = "none" if core.exc_name(e) == "VerifyException" else line
                    gen_lines.append(f"RiscvPyOps.rv{w}_{cls.__name__}_py_operation {c} {n}")
                    gen_expect.append(({"leg": "C", "xlen": w, "op": name, "constant": c, "shamt": n}, gline))
                    ctx.count(f"legC.rv{w}.{name}")
                    if want != (c & ((1 << w) - 1)):
                        ctx.nt(("C", w, name, n, c))
                    if line != str(want):
                        ctx.fail(f"xdsl.dialects.rv{w}.{cls.__name__}.py_operation", "constant fold of an immediate shift is not the instruction's result",
                                 {"leg": "C", "xlen": w, "op": name, "constant": c, "shamt": n},
                                 f"py_operation({c}) of {name} {n} at XLEN={w}", line, str(want))
    # const_evaluate of the riscv_cf branches, _fits_si12, _folded_li_immediate: translated definition vs the real function
    from xdsl.dialects import riscv_cf
    from xdsl.transforms.canonicalization_patterns import riscv as cpr

    pairs = list(sn.BR_PAIRS) + [(ctx.rng.randint(-2**33, 2**33), ctx.rng.randint(-2**33, 2**33)) for _ in range(12)]
    for cls in (riscv_cf.BeqOp, riscv_cf.BneOp, riscv_cf.BltOp, riscv_cf.BgeOp, riscv_cf.BltuOp, riscv_cf.BgeuOp):
        for a, b in pairs:
            for w in (32, 64):
                try:
                    g = "bool " + ("true" if cls.const_evaluate(None, a, b, w) else "false")  # type: ignore[arg-type]
                except Exception as e:  # noqa: BLE001
                    g = "raise " + core.exc_name(e)
                gen_lines.append(f"RiscvPyOps.cf_{cls.__name__}_const_evaluate {a} {b} {w}")
                gen_expect.append(({"leg": "C", "kind": "const_evaluate", "class": cls.__name__, "rs1": a, "rs2": b, "bitwidth": w}, g))
    vals = [0, 1, -1, 2047, 2048, -2048, -2049, 2**31 - 1, 2**31, -2**31, -2**31 - 1, 2**32 - 1, 2**32, 2**32 + 5, -2**32, 2**62, -2**63 - 1]
    vals += [ctx.rng.randint(-2**34, 2**34) for _ in range(10)]
    for v in vals:
        gen_lines.append(f"RiscvPyOps.fits_si12 {v}")
        gen_expect.append(({"leg": "C", "kind": "_fits_si12", "value": v}, "bool " + ("true" if cpr._fits_si12(v) else "false")))
        for tys in ((i32,), (i32, i32), (i64,), (i32, i64)):
            srcs = [IntegerAttr(0, t) for t in tys]
            try:
                r = cpr._folded_li_immediate(v, *srcs)
                g = "none" if r is None else f"int {r.value.data}"
                # i32 sources: the li constant is the 32-bit wrap of the exact result; a 64-bit source: the exact result
                # itself (a signed 32-bit value that `li` loads identically at both register widths) or no fold
                all32 = all(t == i32 for t in tys)
                if r is not None and (not -2**31 <= r.value.data < 2**31 or (r.value.data - v) % 2**32 != 0
                                      or (not all32 and r.value.data != v)):
                    ctx.fail(CP + "_folded_li_immediate", "folded li immediate does not load the exact result",
                             {"leg": "C", "kind": "_folded_li_immediate", "value": v, "sources": [str(t) for t in tys]},
                             f"_folded_li_immediate({v}) with sources {[str(t) for t in tys]}", r.value.data,
                             "the signed 32-bit wrap of the value (i32 sources) / the value itself or None (an i64 source)")
            except Exception as e:  # noqa: BLE001
                g = "raise " + core.exc_name(e)
                ctx.fail(CP + "_folded_li_immediate", SIG_RAISE, {"leg": "C", "kind": "_folded_li_immediate", "value": v, "sources": [str(t) for t in tys]},
                         f"_folded_li_immediate({v}) raised", g, "an IntegerAttr or None")
            gen_lines.append(f"RiscvPyOps.folded_li_immediate {v} {1 if all(t == i32 for t in tys) else 0}")
            gen_expect.append(({"leg": "C", "kind": "_folded_li_immediate", "value": v, "sources": [str(t) for t in tys]}, g))
            ctx.ev()
    try:
        outs = run_generated(gen_lines)
    except core.InfraError:
        if any(f.kind == "broken-proof" for f in ctx.failures):
            ctx.count("generated.driver_unavailable")
            return
        raise
    for line, (case, want), got in zip(gen_lines, gen_expect, outs):
        ctx.count("generated.compared")
        if got == "bad-op":
            ctx.count("generated.not_translated")
            continue
        if got != want:
            ctx.mismatch("correspondence:C22/generated-kernels", dict(case, call=line), want, got,
                         "real kernel vs its translation (lean/XdslModel/Generated/RiscvPyOps.lean)")


# ================================================================================================

def run(ctx: core.Ctx) -> None:
    import time
    t0 = time.time()
    from translate.generate import generate

    rep = generate(core.REPO)
    ctx.extra["translator"] = {"translated": len(rep["translated"]), "refused": rep["refused"], "regenerated_files": rep["changed_files"]}
    for k, v in rep["refused"].items():
        if ".RiscvPyOps." in k:
            ctx.broken_proof(f"translator refused {k}", v)
    ctx.lean()
    ctx.extra["lean_build_audit_s"] = round(time.time() - t0, 1)
    ctx.exhaustive = False
    secs: dict[str, float] = {}
    for name, leg in (("C", run_shift_kernels), ("A", run_snippets), ("A-cf", run_cf_snippets), ("P", run_pmov), ("B", run_pipeline)):
        t1 = time.time()
        leg(ctx)
        secs[name] = round(time.time() - t1, 1)
    ctx.extra["leg_seconds"] = secs
    t = ctx.budget_s
    ctx.extra["legs"] = {"A": "canonicalization snippets", "B": "pipeline programs, stage-wise", "C": "fold kernels rv32/rv64/riscv_cf/pattern guards: oracle + translated definitions (driver_gen)",
                         "B-tv": "proved validator on every emitted loop-free function",
                         "P": "riscv-lower-parallel-mov alone on generated parallel moves (mixed widths, free registers)"}
    ctx.extra["budget_s"] = t


def replay(ctx: core.Ctx, body: dict) -> int:
    case = body.get("case") or {}
    leg = case.get("leg")
    if leg == "A" and case.get("kind") in ("cf-branch", "cf-loop"):
        print(case["mlir"])
        sig = eval_cf_case(ctx, case, 24, report=True)
        for f in ctx.failures:
            print("implementation:", json.dumps(f.impl_obs, default=str)[:2500])
            print("expected      :", json.dumps(f.model_obs, default=str)[:600])
        print("property FAILS on this case: " + sig if sig else "property holds on this case")
        return 1 if sig else 0
    if leg == "A" and case.get("kind") == "const_evaluate":
        from xdsl.dialects import riscv_cf

        cls = {"beq": riscv_cf.BeqOp, "bne": riscv_cf.BneOp, "blt": riscv_cf.BltOp, "bge": riscv_cf.BgeOp,
               "bltu": riscv_cf.BltuOp, "bgeu": riscv_cf.BgeuOp}[case["op"]]
        got = cls.const_evaluate(None, case["rs1"], case["rs2"], 32)  # type: ignore[arg-type]
        want = rv.branch_taken(case["op"], case["rs1"] & rv.M32, case["rs2"] & rv.M32)
        print(f"{case['op']} {case['rs1']}, {case['rs2']}: const_evaluate = {got}, the instruction branches = {want}")
        print("property holds on this case" if got == want else "property FAILS on this case")
        return 0 if got == want else 1
    if leg == "A":
        pats = sn.pattern_instances()
        s, pattern, mode = case["snippet"], case["pattern"], case["mode"]
        print(sn.snip_text(s))
        sig = eval_snippet(ctx, pats, pattern if pattern != "mixed" else "AddImmediates", mode, s, 24, [], [], report=True)
        for f in ctx.failures:
            print("implementation:", json.dumps(f.impl_obs, default=str)[:1500])
            print("expected      :", json.dumps(f.model_obs, default=str)[:600])
        print("property FAILS on this case: " + sig if sig else "property holds on this case")
        return 1 if sig else 0
    if leg == "B":
        entry = case.get("entry", "main")
        p = {"text": case["program"], "arg_types": case["arg_types"], "ret_types": case["ret_types"], "pin_p": case.get("pin_p", 0.4),
             "entry": entry}
        if "fspec" in case:
            p["fspec"] = case["fspec"]
        print(p["text"])
        m = proggen.parse_module(p["text"])
        res = compile_and_run(p, [case["args"]], [case["entry_regs"]], case.get("pin_seed"), ctx, ("C", "P", "Q", "E"))
        o = ctx.model("sem", ["prog " + miniir.serialize(m), f"run 200000 {entry} " + " ".join(sem_arg(t, v) for t, v in zip(case["arg_types"], case["args"]))])[1]
        print(f"entry point: @{entry}  arguments: {case['args']}")
        print("source semantics:", o)
        if res["nocompile"]:
            print("does not compile:", res["nocompile"])
        for s, obs, txt in res["stages"]:
            print(f"--- {s}: {obs[0][:2]}")
        want = pp.want_from_sem(o, p["ret_types"])
        if want is not None and "fspec" in p:
            want = {"admissible": pp.float_admissible(p, case["args"])}
            print("results the source's fast-math flags admit:", want["admissible"])
        src = tv.src_of(m)
        body = tv.body_of(res["prog"]) if res["prog"] is not None else None
        if src is not None and body is not None:
            print("proved validator (XdslProofs/C22Validate.lean):", ctx.model("riscv_validate", [tv.tv_line(src[0], body)])[0])
        bad = judge(p, case["entry_regs"], want, [(s, ob[0], txt) for s, ob, txt in res["stages"]]) if want is not None else None
        if bad:
            print(next(t for s, _, t in res["stages"] if s == bad[0]))
            if bad[1] == SIG_UNIT:
                # the unit does not assemble; for illustration: what the entry point computes if a tool tolerated the
                # second definition (first / last definition wins)
                for s, (asm, prog) in res.get("asm_by_stage", {}).items():
                    if rv.duplicates(rv.label_defs(prog)):
                        print(f"--- emitted unit at {s}:\n{asm}")
                        for pol in ("first", "last"):
                            mach = rv.Machine(prog, case["entry_regs"], dup_policy=pol)
                            try:
                                mach.call(entry)
                                got: Any = pp.canon_rets([mach.get(r) for r in pp.abi_regs(p["ret_types"])], p["ret_types"])
                            except rv.Trap as e:
                                got = f"trap: {e}"
                            print(f"    if the {pol} definition of a label won: @{entry} returns {got}; the source returns {want}")
                        break
            print(f"property FAILS on this case at {bad[0]}: {bad[1]}: {bad[3]}")
            return 1
        print("property holds on this case")
        return 0
    if leg == "P":
        regs = case["regs"]
        print(pm.text(case))
        kind, low, bad = pm.evaluate(case, [regs])
        if low[0] == "ok":
            print("emitted by riscv-lower-parallel-mov:")
            for i in low[1]:
                print("    " + rv.fmt(i))
        else:
            print("lowering:", low)
        for s_, d, w in case["moves"]:
            print(f"    {d} must receive the {w}-bit value of {s_}: {regs[s_]:#x}")
        if bad:
            print(f"property FAILS on this case: {bad[0]}: {bad[1]}")
            return 1
        print("property holds on this case")
        return 0
    if leg == "C":
        run_shift_kernels(ctx)
        bad = [f for f in ctx.failures]
        print("property FAILS" if bad else "property holds on this case")
        return 1 if bad else 0
    if body.get("kind") in ("broken-proof", "broken-correspondence"):
        ok = ctx.lean()
        print("lean build/audit:", "ok" if ok else "FAILED")
        if case:
            print(json.dumps(case, default=str)[:2000])
            print("implementation:", body.get("impl_observation"))
            print("model         :", body.get("model_observation"))
        return 0 if ok and body.get("kind") == "broken-proof" else 1
    print("unknown replay body")
    return 2
