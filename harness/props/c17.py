"""C17 — every registered pass that succeeds leaves valid, printable IR.

A *program* is a pair (pass instance, input module).  The pass runs on a fresh parse of the module
under a CPU-time guard; if it raises, that is the "reports failure" arm of the statement.  Otherwise the
module it left is judged: (1) structure — the independent Python invariant walk and the PROVED Lean
checker `ir_wf` (XdslModel/IRWF.lean, XdslProofs/C17.lean) on a pointer-level snapshot must both say
ok, and must agree; (2) `module.verify()`; (3) the generic and the custom printed form must parse back
in a fresh context.
"""
from __future__ import annotations

import json
import multiprocessing as mp
import os
import random
import re
import time
from collections import Counter, defaultdict
from typing import Any

from vp import core

from props import c17_gen as G
from props import c17_ir as I

META = {
    "title": "Every registered pass that succeeds leaves valid, printable IR",
    "category": "translation_validation",
    "design_ref": "DESIGN.md §5 C17",
    "lean_modules": ["XdslProofs.C17", "XdslProofs.C17SSA"],
    "text": (
        "PARTIAL BY DESIGN. No pass is modelled. programs = (pass instance, input module) pairs; the quantifier "
        "'every registered pass with any accepted options x every valid input module' is EXPLORED (enumerated / "
        "sampled cross product, see rule), not proved. What is proved is the oracle for the structural half of the "
        "statement ('never leaves erased values in use, dangling successors or broken parent links'): the Lean "
        "decision procedure IRWF.checkB over a pointer-level snapshot (an IRStore of C01: _next_op/_prev_op/parent, "
        "_first_op/_last_op, block and region links, first_use/_next_use/_prev_use chains, operand/successor/result/"
        "argument/region tuples, _operand_uses/_successor_uses, index fields) with invB_iff : invB s = true <-> Inv s "
        "(sound AND complete against the store invariant of XdslProofs/C01: every op/block/region exactly once in its container forward and "
        "backward with the right parent, use lists = operand/successor positions, index fields), rootedB_iff : "
        "rootedB s root = true <-> Rooted s root (every operand of an operation attached below the module is a result "
        "of an attached operation / an argument of an attached block that its owner still lists; every successor of an "
        "attached operation is a block of the region the operation sits in; the module has no parent), "
        "attached_iff_chain (under Inv, attachedness = finitely many parent steps reach the module: the fuel of the walk "
        "always suffices, pigeonhole), checkB_iff, and verdict_eq_ok_iff : verdict s root = \"ok\" <-> Inv s /\\ Rooted s root (the "
        "driver answers 'ok' exactly when checkB holds). Per output module the structural verdict is therefore DECIDED "
        "by a proved checker run on a serialisation of the real objects; module.verify() and the print/parse round trip "
        "(generic and custom format, fresh Context) are run on the real implementation and not modelled. "
        "Validity of GENERATED inputs: xDSL's verifier does not check SSA dominance, so for the generated families "
        "(directed-cfg, directed-typed, mutants) 'valid input' additionally requires that every definition dominates its "
        "uses; the cross-block part is decided per multi-block region by the Lean model ssa_dom (XdslModel/SSADom.lean on "
        "the C24 dominance model) with check_iff : check g obs = true <-> for every obligation (a, b): a != b, a is a block "
        "of the region and every CFG path from the entry to b passes through a (XdslProofs/C17SSA.lean, from C24 "
        "dom_iff_paths_all), verdict_ok_iff, oblOk_reachable / oblOk_unreachable (an unreachable user is dominated by every "
        "block: convention of MLIR)."
    ),
    "technique": "proved structural checker (Lean) as per-output oracle + enumeration of (pass, module) pairs on real xDSL; "
                 "independent Python invariant walk cross-checked against the Lean verdict on every output",
    "level_note": (
        "Evidence is translation-validation style: programs = (pass, options, module) pairs actually run; "
        "disagreements_checked = output modules on which the Lean verdict and the independent Python walk were compared "
        "clause by clause. The forall-pass / forall-module quantifier is explored only. Quantifier as implemented: passes = "
        "xdsl.transforms.get_all_passes() (default options where default-constructible; the instances offered by "
        "schedule_space for the two passes that override it (apply-individual-rewrite, memref-stream-interleave; the "
        "base-class schedule_space is the default instance); generated assignments for options of type bool/int/"
        "Optional/Literal/tuple[int,...] and for string options with a closed vocabulary in the source; options "
        "naming files, executables and entry points keep their default). Valid input module = a chunk of "
        "tests/**/*.mlir (split on '// -----') or a generated module that parses with every dialect registered and "
        "allow_unregistered (as xdsl-opt), verifies, is structurally consistent and whose two printed forms parse "
        "back BEFORE any pass runs (otherwise a failure could not be attributed to the pass). Generated families aimed at "
        "the GUARDS of rewrite rules (harness/props/c17_gen.py; a rule is only correct because of what it tests before "
        "rewriting: types, which operands are which constants, who else uses a value, identity of operands/successors; the "
        "corpus shows each rule the shape it fires on, a weakened guard shows on an input that differs from it in one such "
        "dimension): directed-cfg = random cf graphs with block arguments (lone-branch blocks whose arguments are forwarded, "
        "dropped or used in dominated blocks, constant/repeated conditions, identical successors, switch cases repeating the "
        "default, self loops, back edges, unreachable blocks; a third of the graphs with unregistered operations, also as "
        "terminators with successors); directed-typed = arith (+ nested scf.if/scf.for) with every "
        "shape instantiated over i1..i64, index, f32, f64, operands from {earlier value, boundary constant, the other "
        "operand}, every value observed by a typed user, and earlier expressions repeated wherever their operands are "
        "visible (later in the block, nested below, in a sibling region); mutant = 1-4 IR-level edits of a corpus module that names the pass "
        "(one more use of a value at a point it dominates, another integer constant, an operand replaced by another visible "
        "value of its type, two operands swapped, an operation duplicated in place or copied to another point where its "
        "operands are visible; the observer of an added use is a test.op and is only placed in function / scf / affine / "
        "test regions or in blocks where the corpus itself has a test or unregistered operation, never in the body of a "
        "domain-specific operation). Members of these families must also be "
        "SSA-dominance-valid (Lean ssa_dom, see text). ORDER of the operations of a block (c17_gen.reorder): the corpus shows "
        "every pass definition-before-use order with the rewritten operation somewhere in the middle of its block; what is "
        "guarded by that is 'one walk over the block suffices' and 'the rewritten operation has a predecessor / a successor in "
        "the list'. (a) order variants of the corpus modules that name a pass (family mutant, edits order:*): the kinds of "
        "operation the pass removes or replaces on the module as written are determined by running it; then one such operation "
        "is moved to the first / to the last movable position of its block (enumerated: one variant per rewritten operation, "
        "those that can be rewritten without rewriting a producer first), or the movable operations of one / of every block "
        "are shuffled / reversed. These variants are STRICT: only the body of a builtin.module (a graph region: no order is "
        "required there by MLIR either) is re-ordered freely, every other block only within the orders that keep each "
        "definition before its users, so the variant is as dominance-valid as the corpus module. (b) directed-order = programs "
        "of directed-typed / directed-cfg and of TypedGen.program_graph (the same arith/scf statements directly in a module "
        "body, half of them in a module nested in the top-level one) with blocks shuffled / reversed / one operation moved, "
        "strict since vp check 12 (free order only in graph regions = builtin.module bodies; other blocks keep a topological order); earlier text: a user may precede its producer inside one block of a function or scf body too. xDSL's parser resolves "
        "such forward references and verify() accepts them (it has no dominance check), so for this family 'valid input' "
        "is what the implementation accepts (input_ok) plus the cross-block dominance obligations; the in-block order is "
        "deliberately not demanded. It goes to the dialect-independent optimisations (canonicalize, dce, cse) in full and "
        "as probes to every other pass. Any exception raised "
        "by the pass (incl. SystemExit, RecursionError) = reported failure, counted per class; CPU-time-outs "
        "(ITIMER_VIRTUAL) are counted, not judged. 'Parses back' means the parser accepts the printed text; the "
        "re-parsed module is not compared (that is C04/C05). One failure is reported per pair: a structural "
        "clause (erased-value-in-use, dangling-successor before the list clauses when several fail), else verify, else print/parse; "
        "signature = clause word + [kind of the operation at which it is detected]; a known finding may carry the signature "
        "'<clause word> [*]' when one root cause surfaces at whatever operation consumes the damaged value (it then stands "
        "for every failure of that pass and clause). Snapshot = every object reachable from the module through any "
        "pointer field except value->owner (owners are only named), so leaked detached users of attached values are "
        "checked for consistency but not required to be attached. Trusted: Lean kernel; the serialiser "
        "c17_ir.snapshot_lines (cross-checked by the Python walk on the live objects); Python object identity; the "
        "ghost fields of use lists (last pointer, owning value) are filled in by the serialiser from the chain walk. "
        "Not proved (DESIGN wf_printable): that a structurally well-formed, verified module prints to text that parses."
    ),
    "rule": (
        "case = (pass name, option dict, module text). Quick: a seeded sample of 600 corpus chunks + 40 generated modules is "
        "validated; for every registered pass a seeded sample of the valid ones (half from files whose RUN lines or path "
        "name the pass, half uniform), "
        "default options plus generated option assignments / schedule_space instances, ~2000 pairs; plus, per pass, 3-12 "
        "mutants of the corpus modules that name it (~250 pairs) and up to 6 order variants of one of them (~500 pairs); the "
        "quick sample of corpus chunks is stratified (up to 3 chunks of the files naming each pass are always in it); plus "
        "150 directed-cfg, 150 directed-typed and 100 directed-order modules, all "
        "of them for the passes they are written for (the dialect-independent optimisations: cfg -> canonicalize, dce; typed "
        "-> canonicalize, cse; order -> canonicalize, dce, cse), one "
        "probe module per family for every other pass and 6 more for each (pass, family) whose probe changed the module in "
        "another way than dce does (every pattern walker deletes trivially dead operations) "
        "(~1300 pairs). Pairs run in an order that spreads every (pass, kind of input) group evenly over the run, the first "
        "pair of every group first, so a budget cut on a loaded machine removes the same share of every group; the minimum "
        "slice of the pairs phase is stretched by the machine load (loadavg / cores, at most 6x). Thorough: the "
        "full cross product default-instance x every valid corpus module + generated modules, plus option "
        "assignments and schedule_space instances on a sample, 12-36 mutants and up to 16 order variants per pass, 1200 (order: 800) modules per directed family "
        "(all for the passes they are written for, 3 probes + 100 per responsive (pass, family)), as far as the budget "
        "allows (pairs not reached are counted). Non-trivial = the pass succeeded and changed the module (generic print differs); distinct = "
        "distinct (pass, options, module)."
    ),
    "trusted_base": [
        "snapshot serialiser harness/props/c17_ir.py (cross-checked against an independent walk over the live objects)",
        "hand-written Lean store XdslModel/IRStore.lean (the snapshot IS a store; no mutator is used) and checker XdslModel/IRWF.lean",
        "c17_ir.ssa_obligations (reduction of SSA dominance of a generated module to per-region obligation lists; the within-block order is checked there in Python)",
    ],
    "budget": {"quick": 110, "thorough": 1150},
}

TLIMIT = 5.0
TLIMIT_SMALL = 2.5   # the directed families are modules of a few dozen operations
SIG_WORD = {
    "op-list": "parent-link", "block-list": "parent-link", "region-list": "parent-link", "root": "parent-link",
    "use-list": "use-list", "block-use-list": "use-list", "result-index": "index-field", "arg-index": "index-field",
    "erased-value-in-use": "erased-value-in-use", "dangling-successor": "dangling-successor",
    "verify": "verify", "printed-form-does-not-parse": "printed-form-does-not-parse", "print-raises": "print-raises",
}


def signature(clause: str, opkind: str) -> str:
    return f"{SIG_WORD.get(clause, clause)} [{opkind}]"


# ---------------------------------------------------------------------------------------------
# modules
# ---------------------------------------------------------------------------------------------

_CHUNKS: list[tuple[str, int, str]] = []
_MODS: list[dict[str, Any]] = []
_PASSES: dict[str, type] = {}


def corpus_chunks() -> list[tuple[str, int, str]]:
    root = core.REPO / "tests"
    out = []
    for p in sorted(root.rglob("*.mlir")):
        try:
            text = p.read_text()
        except Exception:  # noqa: BLE001
            continue
        for i, part in enumerate(text.split("// -----")):
            if part.strip():
                out.append((str(p.relative_to(core.REPO)), i, part))
    return out


def generated_modules(rng: random.Random, n: int) -> list[tuple[str, int, str]]:
    from vp import proggen

    out = []
    for k in range(n):
        r = rng.random()
        try:
            if r < 0.7:
                cfg = proggen.Config(select=rng.random() < 0.5, max_stmts=rng.choice([3, 5, 8]),
                                     loop_shapes=rng.choice([[], [], ["fold", "nest"], ["licm", "hoist_if", "while"]]))
                text = proggen.ProgGen(rng, cfg).program()["text"]
            elif r < 0.85:
                text = proggen.AffineGen(rng).program()["text"]
            else:
                text = proggen.SymrefGen(rng).program()["text"]
        except Exception:  # noqa: BLE001
            continue
        out.append(("<generated>", k, text))
    return out


# the generated families aimed at rule guards, and the passes they are "written for" (the counterpart of a corpus
# file naming a pass in its RUN line): the dialect-independent optimisations, which have to be right on any
# operation, registered or not — canonicalize (the canonicalization rules of every operation + region
# simplification), dce (liveness + block reachability), cse (scoped value numbering)
DIRECTED = {"cfg": G.CfgGen, "typed": G.TypedGen, "order": G.OrderGen}
DIRECTED_FOR = {"cfg": ["canonicalize", "dce"], "typed": ["canonicalize", "cse"], "order": ["canonicalize", "dce", "cse"]}
# members of the `order` family are re-ordered (c17_gen.reorder) where they are validated; (file, chunk) -> seed
_ORDER_SEED: dict[tuple[str, int], int] = {}


# minimal failing inputs of repaired defects (known_findings.json, status "fixed", or "known" with a pending fix patch):
# always paired with their pass, so that the defect is re-found if it returns.  Detection of the classes above never depends on this list.
REGRESSION: list[tuple[str, str]] = [
    ("scf-for-loop-flatten", """builtin.module {
  func.func @f(%init: f32) -> f32 {
    %c0 = arith.constant 0 : index
    %c1 = arith.constant 1 : index
    %c8 = arith.constant 8 : index
    %c64 = arith.constant 64 : index
    %r = scf.for %i = %c0 to %c64 step %c8 iter_args(%a = %init) -> (f32) {
      %d = scf.for %j = %c0 to %c8 step %c1 iter_args(%b = %a) -> (f32) {
        "test.op"(%a) : (f32) -> ()
        scf.yield %b : f32
      }
      scf.yield %d : f32
    }
    func.return %r : f32
  }
}
"""),
    ("convert-ptr-type-offsets", """%o = ptr_xdsl.type_offset f32 : i32
%c = arith.constant 3 : i32
%s = arith.muli %o, %c : i32
"test.op"(%s) : (i32) -> ()
"""),
    ("convert-linalg-to-loops", """func.func @f(%m : memref<4xindex>) {
  linalg.generic {indexing_maps = [affine_map<(d0) -> (d0)>], iterator_types = ["parallel"]} outs(%m : memref<4xindex>) {
  ^bb0(%o : index):
    %i = linalg.index 0 : index
    linalg.yield %i : index
  }
  func.return
}
"""),
    ("loop-hoist-memref", """func.func public @f(%arg0: memref<8xf64>, %arg2: memref<f64>, %x : f64) {
  %c0 = arith.constant 0 : index
  %c8 = arith.constant 8 : index
  %c1 = arith.constant 1 : index
  %r = scf.for %arg3 = %c0 to %c8 step %c1 iter_args(%acc = %x) -> (f64) {
    %0 = memref.load %arg0[%arg3] : memref<8xf64>
    %2 = memref.load %arg2[] : memref<f64>
    %4 = arith.addf %2, %0 : f64
    memref.store %4, %arg2[] : memref<f64>
    scf.yield %acc : f64
  }
  func.return
}
"""),
    ("loop-hoist-memref", """func.func public @f(%arg0: memref<8xf64>, %arg2: memref<4xf64>) {
  %c0 = arith.constant 0 : index
  %c8 = arith.constant 8 : index
  %c1 = arith.constant 1 : index
  scf.for %arg3 = %c0 to %c8 step %c1 {
    %k = arith.constant 2 : index
    %0 = memref.load %arg0[%arg3] : memref<8xf64>
    %2 = memref.load %arg2[%k] : memref<4xf64>
    %4 = arith.addf %2, %0 : f64
    memref.store %4, %arg2[%k] : memref<4xf64>
  }
  func.return
}
"""),
]


def directed_modules(rng: random.Random, n: int) -> list[tuple[str, int, str]]:
    out = []
    for fam, cls in DIRECTED.items():
        g = cls(rng)
        for k in range(n if fam != "order" else (2 * n) // 3):
            out.append((f"<generated:{fam}>", k, g.program()))
            if fam == "order":
                _ORDER_SEED[(out[-1][0], k)] = rng.randrange(1 << 30)
    return out


def family(m: dict[str, Any]) -> str:
    if "mutant" in m:
        return "mutant"
    f = m["file"]
    if f.startswith("<regression"):
        return "regression"
    return "corpus" if not f.startswith("<generated") else ("generated" if f == "<generated>" else f[1:-1].replace("generated:", "directed-"))


# the order variants a pass gets of the modules written for it, by job number: the operation it rewrites first in its
# block, the same block(s) in another order, the operation it rewrites last (before the terminator)
# (modes, pick): `first` variants enumerate the rewritten operations of ONE module (same seed, pick = 0, 1, ...)
ORDER_PLAN: list[tuple[list[str], int | None]] = [
    (["first"], 0), (["permute", "reverse", "permute-all"], None), (["first"], 1), (["before-last"], 0), (["first"], 2),
    (["first"], 3), (["permute-all", "permute"], None), (["before-last"], 1), (["first"], 4), (["first"], 5),
    (["reverse", "permute"], None), (["before-last"], 2), (["first"], 6), (["first"], 7), (["permute-all"], None), (["before-last"], 3)]


def _mutate_validate(job: tuple[Any, ...]) -> list[tuple[Any, ...]]:
    mi, seed, nmut, order = job[:4]
    if order is None:
        cands = [G.mutate(_MODS[mi]["text"], seed, nmut, I.parse_module)]
    else:
        # re-ordered variants of a module written for the pass `order[0]`: the operations of interest are the kinds
        # the pass removes / replaces on the module as written
        kinds = I.rewritten_kinds(_PASSES[order[0]], _MODS[mi]["text"], TLIMIT_SMALL) if order[0] in _PASSES else []
        cands = []
        for j in range(order[1]):
            modes, pick = ORDER_PLAN[j % len(ORDER_PLAN)]
            cands.append(G.reorder(_MODS[mi]["text"], seed + (0 if pick is not None else 1 + j), I.parse_module, modes, kinds, 1, pick,
                                   strict=True))
    out: list[tuple[Any, ...]] = []
    seen: set[str] = set()
    for text, edits in cands:
        if text is None or text in seen:
            out.append((mi, "no-edit-applies", 0, "", None, edits, None, job))
            continue
        seen.add(text)
        st, n, gen = I.input_ok(text)
        out.append((mi, st, n, gen, text, edits, (_ssa(text) if st == "ok" else None), job))
    return out


def add_mutants(ctx: core.Ctx, mods: list[dict[str, Any]], aff: dict[str, list[int]], workers: int, base: int,
                extra_cap: int, n_order: int = 0) -> dict[str, list[int]]:
    """near misses of the modules written for a pass (c17_gen.mutate); returns pass -> indices of its mutants in mods"""
    global _MODS
    rng = _sel_rng(ctx)
    jobs: list[tuple[Any, ...]] = []
    for n in sorted(aff):
        src = [i for i in aff[n] if mods[i]["ops"] <= 250 and family(mods[i]) == "corpus"]
        if not src:
            continue
        files = len({mods[i]["file"] for i in src})
        for _ in range(base + min(extra_cap, files // 3)):
            jobs.append((rng.choice(src), rng.randrange(1 << 30), rng.randint(1, 4), None, n))
        # the same modules with their blocks in another order / the rewritten operation at the ends of its block
        # (one module and one seed per pass: the jobs enumerate its rewritten operations, see ORDER_PLAN)
        osrc = [i for i in src if mods[i]["ops"] <= 120] or src
        if n_order:
            jobs.append((rng.choice(osrc), rng.randrange(1 << 30), 1, (n, n_order)))
    _MODS = mods
    with mp.get_context("fork").Pool(workers, initializer=_init_worker) as pool:
        res = [r for rs in pool.map(_mutate_validate, jobs, chunksize=4) for r in rs]
    out: dict[str, list[int]] = defaultdict(list)
    # a mutant must be SSA-valid; so must the module it was made from (the edits only add dominated uses, so a
    # failure here means the corpus module itself was not, or the edit logic is wrong: excluded and counted)
    ssa = ssa_verdicts(ctx, [r[6] for r in res])
    for (mi, st, nops, gen, text, edits, _, job), sv in zip(res, ssa):
        n = job[4] if job[3] is None else job[3][0]
        if st == "ok" and sv != "ok":
            st = "not-ssa-valid"
        ctx.count(f"mutant.input.{st}" if job[3] is None else f"mutant.order.input.{st}")
        if st != "ok":
            continue
        for e in edits:
            ctx.count("mutant.edit." + ":".join(e.split(":")[:2]))
        mods.append({"file": mods[mi]["file"], "chunk": mods[mi]["chunk"], "text": text, "ops": nops, "generic": gen,
                     "mutant": {"seed": job[1], "edits": edits}})
        out[n].append(len(mods) - 1)
    _MODS = mods
    return out


def _ssa(text: str, in_block_order: bool = True) -> tuple[list[str], list[str]]:
    try:
        with I.quiet(), I.cpu_guard(10.0):
            return I.ssa_obligations(I.parse_module(text), in_block_order)
    except BaseException as e:  # noqa: BLE001
        return [], [f"walk raised {type(e).__name__}"]


def _validate(i: int) -> tuple[int, str, int, str, Any, str | None]:
    file, chunk, text = _CHUNKS[i]
    new = None
    if file == "<generated:order>":
        # the base program must itself be a valid input; then its blocks are re-ordered
        seed = _ORDER_SEED.get((file, chunk), chunk)
        # strict: free order only in graph regions (builtin.module bodies, legal MLIR); every other block keeps a
        # dominance-valid (topological) order.  A user placed before its producer inside a function or scf body is
        # accepted by xDSL's parser and verifier but is not valid SSA, and passes that clone or move such bodies
        # cannot be blamed for what they then produce (false alarm of vp check 12: scf-for-loop-unroll on such a body)
        new, edits = G.reorder(text, seed, I.parse_module, None, None, 1 + seed % 2, strict=True)
        if new is None:
            return i, "no-edit-applies", 0, "", None, None
        text = new
    st, n, gen = I.input_ok(text)
    # generated modules: SSA dominance is part of validity and is not checked by module.verify(); the order of the
    # operations of one block is not (order family: deliberately not)
    ssa = _ssa(text, new is None) if st == "ok" and file.startswith(("<generated:", "<regression:")) else None
    return i, st, n, gen, ssa, new


def ssa_verdicts(ctx: core.Ctx, items: list[tuple[list[str], list[str]] | None]) -> list[str | None]:
    """None (not asked), 'ok', or why the module is not SSA-valid; the cross-block part is decided by the Lean
    model `ssa_dom` (XdslProofs/C17SSA.lean `check_iff`: every path from the entry to the user passes through
    the defining block)"""
    lines: list[str] = []
    span: list[tuple[int, int] | None] = []
    for it in items:
        if it is None:
            span.append(None)
        else:
            span.append((len(lines), len(lines) + len(it[0])))
            lines.extend(it[0])
    res = ctx.model("ssa_dom", lines) if lines else []
    out: list[str | None] = []
    for it, sp in zip(items, span):
        if it is None or sp is None:
            out.append(None)
            continue
        ctx.count("ssa_dom.regions_decided_by_lean", sp[1] - sp[0])
        bad = [r for r in res[sp[0]:sp[1]] if r != "ok"]
        if any(not r.startswith("fail") for r in bad):
            raise core.InfraError(f"ssa_dom driver: {bad[:3]}")
        out.append("ok" if not bad and not it[1] else (it[1] + bad)[0])
    return out


def _init_worker() -> None:
    import warnings
    warnings.simplefilter("ignore")
    I.all_passes()


# ---------------------------------------------------------------------------------------------
# worker: a batch of tasks -> results (+ the Lean verdicts of the batch)
# ---------------------------------------------------------------------------------------------

def _work(batch: list[tuple[int, str, dict[str, Any], int]]) -> list[dict[str, Any]]:
    out: list[dict[str, Any]] = []
    lean_in: list[str] = []
    spans: list[tuple[int, int]] = []
    for (k, name, spec, mi) in batch:
        mod = _MODS[mi]
        tl = TLIMIT_SMALL if mod["file"].startswith("<generated:") else TLIMIT
        r = I.run_pair(name, _PASSES[name], spec, mod["text"], tl, mod["generic"], keep_text="probe" in spec)
        if "probe" in spec:
            # is the pass responsive to this family?  Every pattern walker deletes trivially dead operations, so
            # "changed the module" must mean: in another way than plain dead-code elimination does
            after = r.pop("after", None)
            if r.get("changed") and after is not None and "dce" in _PASSES and name != "dce":
                r2 = I.run_pair("dce", _PASSES["dce"], {"options": {}}, mod["text"], tl, mod["generic"], keep_text=True)
                r["beyond_dce"] = r2.get("after") != after
            else:
                r["beyond_dce"] = bool(r.get("changed"))
        r["k"] = k
        lines = r.pop("lines", None)
        if lines is not None:
            spans.append((len(out), len(lean_in) + len(lines) - 1))
            lean_in.extend(lines)
        out.append(r)
    if lean_in:
        try:
            res = core.run_model("ir_wf", lean_in, timeout=900)
        except Exception as e:  # noqa: BLE001
            for j, _ in spans:
                out[j]["lean"] = f"infra: {e}"[:200]
            return out
        bad = [x for x in res if x == "bad-op"]
        for j, pos in spans:
            out[j]["lean"] = "bad-op in snapshot" if bad else res[pos]
    return out


def run_tasks(ctx: core.Ctx, tasks: list[tuple[int, str, dict[str, Any], int]], workers: int, deadline: float,
              batch: int = 24, min_results: int = 0, hard_deadline: float = 0.0) -> tuple[list[dict[str, Any]], int]:
    """returns (results in task order for the batches that were run, number of tasks not reached).  The run stops at
    `deadline`, except that the first `min_results` pairs are waited for until `hard_deadline` (on a loaded machine the
    wall-clock budget is gone before the first pair of every (pass, kind of input) group has run)"""
    batches = [tasks[i:i + batch] for i in range(0, len(tasks), batch)]
    results: list[dict[str, Any]] = []
    with mp.get_context("fork").Pool(workers, initializer=_init_worker) as pool:
        # unordered: one slow batch (a pass that runs into the CPU guard several times) must not keep the
        # finished ones from being collected before the deadline; every result names its task (`k`)
        it = pool.imap_unordered(_work, batches)
        got = 0
        while got < len(batches):
            now = time.time()
            limit = deadline if len(results) >= min_results else max(deadline, hard_deadline)
            if now >= limit:
                pool.terminate()
                break
            try:
                results.extend(it.next(timeout=max(1.0, min(limit - now, 20.0))))
                got += 1
            except mp.TimeoutError:
                continue
    results.sort(key=lambda r: r["k"])
    return results, len(tasks) - len(results)


# ---------------------------------------------------------------------------------------------
# affinity: which corpus files were written for which pass
# ---------------------------------------------------------------------------------------------

_FILE_TOKS: dict[str, set[str]] = {}


def file_tokens(file: str) -> set[str]:
    toks = _FILE_TOKS.get(file)
    if toks is None:
        try:
            head = (core.REPO / file).read_text()
        except Exception:  # noqa: BLE001
            head = ""
        runs = " ".join(l for l in head.splitlines() if "RUN:" in l)
        toks = _FILE_TOKS[file] = (set(re.findall(r"[a-z][a-z0-9-]+", runs))
                                   | set(re.findall(r"[a-z][a-z0-9-]+", file.replace("_", "-"))))
    return toks


def chunk_affinity(chunks: list[tuple[str, int, str]], names: list[str]) -> dict[str, list[int]]:
    """pass -> indices of the corpus chunks of the files written for it (before validation)"""
    out: dict[str, list[int]] = {}
    ns = set(names)
    for i, (f, _, _) in enumerate(chunks):
        for n in file_tokens(f) & ns:
            out.setdefault(n, []).append(i)
    return out


def affinity(mods: list[dict[str, Any]], names: list[str]) -> dict[str, list[int]]:
    by_file: dict[str, set[str]] = {}
    for m in mods:
        if m["file"] in by_file or m["file"].startswith("<"):
            continue
        by_file[m["file"]] = file_tokens(m["file"])
    out: dict[str, list[int]] = {n: [] for n in names}
    for i, m in enumerate(mods):
        toks = by_file.get(m["file"], set())
        for n in names:
            if n in toks:
                out[n].append(i)
    return out


# ---------------------------------------------------------------------------------------------
# shrinking: delete operations (with their regions) while the same failure persists
# ---------------------------------------------------------------------------------------------

def judge(name: str, options: dict[str, Any], text: str) -> tuple[str, str, str] | None:
    """(clause, opkind, detail) if the pair fails, None otherwise (also when the input is not valid / the pass raises)"""
    st, _, gen = I.input_ok(text)
    if st != "ok":
        return None
    r = I.run_pair(name, _PASSES[name], {"options": options}, text, TLIMIT, gen)
    if r["outcome"] != "fail":
        return None
    return r["clause"], r["opkind"], r["detail"]


def shrink_module(name: str, options: dict[str, Any], text: str, want: tuple[str, str], budget_s: float) -> str:
    from xdsl.printer import Printer
    import io

    t_end = time.time() + budget_s

    def fails(t: str) -> bool:
        j = judge(name, options, t)
        return j is not None and (j[0], j[1]) == want

    cur = text

    # phase 0: delta debugging on the list of top-level operations (functions)
    def keep_top(keep: list[int]) -> str | None:
        try:
            m = I.parse_module(cur)
            tops = list(m.body.block.ops)
            ks = set(keep)
            for j in range(len(tops) - 1, -1, -1):
                if j not in ks:
                    if any(r.first_use is not None for r in tops[j].results):
                        return None
                    tops[j].detach()
                    tops[j].erase()
            buf = io.StringIO()
            Printer(stream=buf, print_generic_format=True).print_op(m)
            return buf.getvalue()
        except Exception:  # noqa: BLE001
            return None

    try:
        ntop = len(list(I.parse_module(cur).body.block.ops))
    except Exception:  # noqa: BLE001
        ntop = 0
    if ntop > 3:
        def still(keep: list[int]) -> bool:
            if time.time() > t_end:
                return False
            c = keep_top(keep)
            return c is not None and fails(c)
        kept = core.shrink_list(list(range(ntop)), still, max_steps=400)
        if len(kept) < ntop:
            c = keep_top(kept)
            if c is not None and fails(c):
                cur = c

    progress = True
    while progress and time.time() < t_end:
        progress = False
        try:
            n = sum(1 for _ in I.parse_module(cur).walk())
        except Exception:  # noqa: BLE001
            return cur
        i = n - 1
        while i >= 1 and time.time() < t_end:
            try:
                m = I.parse_module(cur)
                ops = list(m.walk())
                if i >= len(ops):
                    i = len(ops) - 1
                    continue
                op = ops[i]
                if any(r.first_use is not None for r in op.results) or op.parent is None:
                    i -= 1
                    continue
                op.detach()
                op.erase()
                buf = io.StringIO()
                Printer(stream=buf, print_generic_format=True).print_op(m)
                cand = buf.getvalue()
            except Exception:  # noqa: BLE001
                i -= 1
                continue
            if fails(cand):
                cur = cand
                progress = True
            i -= 1
    return cur



# ---------------------------------------------------------------------------------------------
# two random streams.  xDSL has many dialect-specific passes with individually listed defects (known_findings.json);
# which of them a run meets depends on WHICH (pass, corpus module / near miss) pairs it draws.  In the quick tier this
# selection is therefore the same on every run (fixed stream): the listed findings are complete for it, and a run on
# the unchanged tree cannot meet an unlisted one by the luck of VERIF_SEED.  VERIF_SEED drives the generated and
# directed programs (dialect-independent inputs) in both tiers and every selection of the thorough tier.
# ---------------------------------------------------------------------------------------------
_SEL_RNG: dict[int, random.Random] = {}

CORE_DIALECT_DIRS = ("scf", "arith", "cf", "func", "affine")


def _core_dialect_of_file(f: str) -> str | None:
    """`scf` for tests/filecheck/**/dialects/scf/*.mlir (core structured dialects only)"""
    parts = f.split("/")
    if "dialects" in parts[:-1]:
        d = parts[parts.index("dialects") + 1]
        if d in CORE_DIALECT_DIRS:
            return d
    return None



def _seed_rng(ctx: core.Ctx) -> random.Random:
    return ctx.rng


def _sel_rng(ctx: core.Ctx) -> random.Random:
    if ctx.tier != "quick":
        return ctx.rng
    if id(ctx) not in _SEL_RNG:
        _SEL_RNG[id(ctx)] = random.Random(0xC17)
    return _SEL_RNG[id(ctx)]

# ---------------------------------------------------------------------------------------------
# the run
# ---------------------------------------------------------------------------------------------

def build_modules(ctx: core.Ctx, workers: int, n_generated: int, sample: int | None = None, n_directed: int = 0,
                  names: list[str] | None = None) -> list[dict[str, Any]]:
    global _CHUNKS, _MODS
    chunks = corpus_chunks()
    ctx.count("corpus.chunks", len(chunks))
    gen = generated_modules(_seed_rng(ctx), n_generated)  # first use of the rng: the same modules in both tiers
    gen += directed_modules(_seed_rng(ctx), n_directed)
    gen += [(f"<regression:{n}>", i, t) for i, (n, t) in enumerate(REGRESSION)]
    if sample is not None and sample < len(chunks):
        # quick tier: a seeded sample of the chunks is validated (validation costs as much as a few passes).
        # Stratified: every pass keeps up to 3 chunks of the files written for it (RUN line / path names it) — the
        # inputs its mutants and order variants are made from; the rest of the sample is uniform
        by_pass = chunk_affinity(chunks, names or [])
        forced: set[int] = set()
        for n in sorted(by_pass):
            own = [i for i in by_pass[n] if len(chunks[i][2]) <= 12000] or by_pass[n]
            forced.update(_sel_rng(ctx).sample(own, min(3, len(own))))
        # ... and every chunk of the test directory of a core dialect that some pass is named after (scf-*, arith-*, ...):
        # those passes are run on all of them (see `dialect_dir_pairs`)
        for i, (f, _, t) in enumerate(chunks):
            if _core_dialect_of_file(f) in {n.split("-")[0] for n in (names or [])} and len(t) <= 12000:
                forced.add(i)
        ctx.count("corpus.chunks_sampled_for_their_pass", len(forced))
        rest = [i for i in range(len(chunks)) if i not in forced]
        keep = sorted(forced | set(_sel_rng(ctx).sample(rest, max(0, min(len(rest), sample - len(forced))))))
        chunks = [chunks[i] for i in keep]
        ctx.count("corpus.chunks_sampled", len(chunks))
    ctx.count("generated.modules", len(gen))
    _CHUNKS = chunks + gen
    with mp.get_context("fork").Pool(workers, initializer=_init_worker) as pool:
        res = pool.map(_validate, range(len(_CHUNKS)), chunksize=16)
    mods = []
    ssa = ssa_verdicts(ctx, [r[4] for r in res])
    for (i, st, n, g, _, new), sv in zip(res, ssa):
        fam = family({"file": _CHUNKS[i][0]})
        if st == "ok" and sv not in (None, "ok"):
            st = "not-ssa-valid"   # would be a defect of the generator, never of xDSL: excluded and counted
        ctx.count(f"{fam}.input.{st}")
        if st == "ok":
            mods.append({"file": _CHUNKS[i][0], "chunk": _CHUNKS[i][1], "text": new if new is not None else _CHUNKS[i][2],
                         "ops": n, "generic": g})
    _MODS = mods
    return mods


def run(ctx: core.Ctx) -> None:
    global _PASSES
    timing: dict[str, float] = {}
    ctx.extra["timing_s"] = timing
    t = time.time()
    ctx.lean()
    timing["lean_build_and_audit"] = round(time.time() - t, 1)
    quick = ctx.tier == "quick"
    workers = min(8 if quick else 16, max(1, (os.cpu_count() or 2)))
    rng = _sel_rng(ctx)
    _PASSES = I.all_passes()
    names = list(_PASSES)
    ctx.count("passes.registered", len(names))
    t = time.time()
    mods = build_modules(ctx, workers, 40 if quick else 320, 600 if quick else None, 150 if quick else 1200, names)
    timing["validate_inputs"] = round(time.time() - t, 1)
    if not mods:
        raise core.InfraError("no valid input module")
    aff = affinity(mods, names)
    by_fam: dict[str, list[int]] = defaultdict(list)
    for i, m in enumerate(mods):
        by_fam[family(m)].append(i)
    # the uniform part of the sample and the cross product range over the corpus and the general generated programs
    base = by_fam["corpus"] + by_fam["generated"]
    if not base:
        raise core.InfraError("no valid corpus module")
    t = time.time()
    mutants = add_mutants(ctx, mods, aff, workers, 3 if quick else 12, 9 if quick else 24, 6 if quick else 16)
    timing["mutants"] = round(time.time() - t, 1)
    nmod = len(mods)
    small = [i for i in base if mods[i]["ops"] <= 60] or base

    # pass instances: default, generated option assignments
    specs: dict[str, list[dict[str, Any]]] = {}
    for n in names:
        cls = _PASSES[n]
        sp: list[dict[str, Any]] = []
        try:
            with I.quiet():
                cls()
            sp.append({"options": {}})
            ctx.count("passes.default_constructible")
        except Exception:  # noqa: BLE001
            pass
        for a in I.option_assignments(n, cls, rng, 3 if quick else 6):
            sp.append({"options": I.jsonable_options(a)})
        specs[n] = sp
        if not sp:
            ctx.count("passes.no_instance_constructible")
    sched_passes = [n for n in names if "schedule_space" in vars(_PASSES[n])]

    tasks: list[tuple[int, str, dict[str, Any], int]] = []

    group_size: Counter[tuple[str, str]] = Counter()
    rounds: list[int] = []
    cats: list[str] = []

    def add(n: str, spec: dict[str, Any], mi: int) -> None:
        # round = how many pairs of the same pass and the same kind of input were planned before this one
        m = mods[mi]
        cat = ("probe" if "probe" in spec else "schedule" if spec.get("from_schedule_space") else
               "order" if m.get("mutant", {}).get("edits", [""])[0].startswith("order") else family(m))
        if spec["options"] and cat != "schedule":
            cat += "+options"
        cats.append(cat)
        rounds.append(group_size[(n, cat)])
        group_size[(n, cat)] += 1
        tasks.append((len(tasks), n, spec, mi))

    if quick:
        per_pass = 17
        for n in names:
            if not specs[n]:
                continue
            pool_aff = aff.get(n, [])
            for j in range(per_pass):
                if pool_aff and j % 2 == 0:
                    mi = rng.choice(pool_aff)
                else:
                    mi = rng.choice(base)
                spec = specs[n][0] if (j < 11 or len(specs[n]) == 1) else rng.choice(specs[n][1:])
                add(n, spec, mi)
    else:
        for n in names:
            if not specs[n]:
                continue
            for mi in base:
                add(n, specs[n][0], mi)
        for n in names:
            for spec in specs[n][1:]:
                pool = list(dict.fromkeys(aff.get(n, []) + [rng.choice(base) for _ in range(110)]))
                for mi in pool[:150]:
                    add(n, spec, mi)
    # a pass named after a core dialect (scf-for-loop-unroll, arith-add-fastmath, ...) runs on every corpus chunk of
    # that dialect's test directory: the files written for the dialect hold the legal shapes of its operations that
    # the files written for the pass do not (e.g. scf.for over a non-index integer type)
    for n in names:
        if not specs[n]:
            continue
        for mi in base:
            if family(mods[mi]) == "corpus" and _core_dialect_of_file(mods[mi]["file"]) == n.split("-")[0]:
                add(n, specs[n][0], mi)
                ctx.count("pairs.dialect_directory")
    # near misses of the modules written for the pass
    for n in names:
        for mi in mutants.get(n, []):
            if specs[n]:
                is_order = mods[mi]["mutant"]["edits"][0].startswith("order")
                add(n, specs[n][0] if (len(specs[n]) == 1 or is_order or rng.random() < 0.75) else rng.choice(specs[n][1:]), mi)
    for mi in by_fam.get("regression", []):
        n = mods[mi]["file"][len("<regression:"):-1]
        if specs.get(n):
            add(n, specs[n][0], mi)
    # directed families: all of a family for the passes it is written for, a probe (is the pass responsive to the
    # family?) for every other pass; responsive (pass, family) pairs get a second helping below
    n_probe = 1 if quick else 3
    for fam, targets in DIRECTED_FOR.items():
        pool_f = by_fam.get("directed-" + fam, [])
        if not pool_f:
            continue
        for n in names:
            if not specs[n]:
                continue
            if n in targets:
                for mi in pool_f:
                    add(n, specs[n][0], mi)
            else:
                for mi in rng.sample(pool_f, min(n_probe, len(pool_f))):
                    add(n, {**specs[n][0], "probe": fam}, mi)
    # order of execution, deterministic per seed: the pairs of every group (pass, kind of input: uniform corpus sample,
    # corpus files of the pass, option assignments, mutants, order variants, each directed family, probes, regression
    # inputs) are spread evenly over the run, the first pair of every group first (key = position in the group / size of
    # the group, ties shuffled).  A budget cut (thorough tier; quick tier on a loaded machine) therefore removes the same
    # share of every group — more of the same — and never a whole pass or a whole kind of input
    perm = list(range(len(tasks)))
    rng.shuffle(perm)
    gsz = [group_size[(tasks[i][1], cats[i])] for i in range(len(tasks))]
    perm.sort(key=lambda i: rounds[i] / gsz[i])
    tasks = [(k, tasks[i][1], tasks[i][2], tasks[i][3]) for k, i in enumerate(perm)]
    # schedule_space instances (computed here: they depend on the module)
    for n in sched_passes:
        cand = list(dict.fromkeys(aff.get(n, []) + [rng.choice(small) for _ in range(6 if quick else 60)]))
        rng.shuffle(cand)
        budget = 40 if quick else 1500
        for mi in cand:
            if budget <= 0 or ctx.time_left() < 30:
                break
            inst = I.schedule_instances(_PASSES[n], mods[mi]["text"], TLIMIT)
            ctx.count(f"schedule_space.{n}.instances", len(inst))
            if len(inst) > (4 if quick else 24):
                inst = rng.sample(inst, 4 if quick else 24)
            for o in inst:
                add(n, {"options": o, "from_schedule_space": True}, mi)
                budget -= 1
    ctx.count("pairs.planned", len(tasks))

    # under heavy machine load the fixed costs (Lean audit, input validation) can eat the budget: the pairs
    # still get a minimum slice, so that the evidence is never vacuous
    # (the floor is stretched by the load of the machine: the CPU-time guards of the pairs do not run faster there)
    try:
        slow = min(6.0, max(1.0, os.getloadavg()[0] / max(1, os.cpu_count() or 1)))
    except OSError:
        slow = 1.0
    ctx.extra["machine_load_factor"] = round(slow, 2)
    deadline = max(ctx.t_budget0 + ctx.budget_s - (12 if quick else 60), time.time() + (40 if quick else 300) * slow)
    t = time.time()
    # the second helping (planned from the probes of this phase) keeps a share of the budget
    # every group's first pair and a sixth of the rest are waited for beyond the budget (at most 8 more minutes)
    n_first = sum(1 for i in range(len(rounds)) if rounds[i] == 0)
    results, not_reached = run_tasks(ctx, tasks, workers, deadline - (6 if quick else 150), batch=12 if quick else 24,
                                     min_results=min(len(tasks), n_first + (len(tasks) - n_first) // 6) if quick else 0,
                                     hard_deadline=time.time() + 480)
    timing["run_pairs"] = round(time.time() - t, 1)
    by_k = {t[0]: t for t in tasks}
    # second helping: a pass that changed a probe module of a directed family gets more of that family
    responsive = sorted({(by_k[r["k"]][1], by_k[r["k"]][2]["probe"]) for r in results
                         if "probe" in by_k[r["k"]][2] and r["outcome"] in ("ok", "fail") and (r.get("beyond_dce") or r["outcome"] == "fail")})
    ctx.count("directed.responsive_pass_family_pairs", len(responsive))
    tasks2: list[tuple[int, str, dict[str, Any], int]] = []
    per = 6 if quick else 100
    for n, fam in responsive:
        pool_f = by_fam.get("directed-" + fam, [])
        sp = specs[n]
        for mi in rng.sample(pool_f, min(per, len(pool_f))):
            spec = sp[0] if (len(sp) == 1 or rng.random() < 0.7) else rng.choice(sp[1:])
            tasks2.append((len(tasks) + len(tasks2), n, {**spec, "second_helping": fam}, mi))
    if tasks2 and time.time() < deadline:
        t = time.time()
        res2, nr2 = run_tasks(ctx, tasks2, workers, deadline, batch=8 if quick else 24)
        timing["run_pairs_second_helping"] = round(time.time() - t, 1)
        results.extend(res2)
        not_reached += nr2
        by_k.update({t[0]: t for t in tasks2})
    elif tasks2:
        not_reached += len(tasks2)
    ctx.count("pairs.planned_second_helping", len(tasks2))
    ctx.count("pairs.not_reached_budget", not_reached)

    failures: dict[tuple[str, str], list[tuple[int, dict[str, Any]]]] = defaultdict(list)
    for r in results:
        k, n, spec, mi = by_k[r["k"]]
        ctx.ev()
        ctx.programs += 1
        oc = r["outcome"]
        ctx.count(f"outcome.{oc}")
        if oc == "raised":
            ctx.count(f"raised.{r['exc']}")
            continue
        if oc in ("timeout", "timeout-in-check", "no-instance"):
            continue
        if spec.get("from_schedule_space"):
            ctx.count("pairs.from_schedule_space")
        elif spec["options"]:
            ctx.count("pairs.generated_options")
        else:
            ctx.count("pairs.default_options")
        ctx.count("family." + family(mods[mi]))
        if r.get("changed"):
            ctx.nt((n, json.dumps(spec["options"], sort_keys=True), mods[mi]["file"], mods[mi]["chunk"],
                    mods[mi].get("mutant", {}).get("seed")))
            ctx.count("succeeded.changed_module")
        # Lean verdict vs Python walk
        lean = r.get("lean")
        expect = "ok" if not r.get("walk") else "fail " + ",".join(r["walk"])
        case = {"pass": n, "options": spec["options"], "file": mods[mi]["file"], "chunk": mods[mi]["chunk"],
                "module": mods[mi]["text"] if len(mods[mi]["text"]) < 6000 else mods[mi]["generic"][:20000]}
        if lean is None:
            ctx.count("lean.skipped_too_large")
        elif lean.startswith("infra") or lean.startswith("bad-op"):
            raise core.InfraError(f"ir_wf driver: {lean}")
        else:
            ctx.disagreements_checked += 1
            ctx.count("lean.verdict." + ("ok" if lean == "ok" else "fail"))
            if lean != expect:
                ctx.mismatch("correspondence:C17/ir_wf", case, expect, lean,
                             "Lean checker and Python invariant walk disagree on the module the pass left")
        if oc == "fail":
            cs = I.pass_call_site(_PASSES[n])
            failures[(cs, signature(r["clause"], r["opkind"]))].append((r["k"], r))
            ctx.count("fail." + SIG_WORD.get(r["clause"], r["clause"]))
    ctx.sample({"pairs_run": len(results), "valid_modules": nmod, "passes": len(names)})

    if os.environ.get("C17_TIMING"):
        import sys
        print("C17 timing:", timing, file=sys.stderr)
    dump = os.environ.get("C17_DUMP")
    if dump:
        rows = []
        for (cs, sig), items in failures.items():
            for k, r in items:
                _, n, spec, mi = by_k[k]
                rows.append({"call_site": cs, "signature": sig, "pass": n, "options": spec["options"], "file": mods[mi]["file"],
                             "chunk": mods[mi]["chunk"], "ops": mods[mi]["ops"], "clause": r["clause"], "opkind": r["opkind"],
                             "detail": r["detail"], "len": len(mods[mi]["text"]),
                             "text": mods[mi]["text"] if len(mods[mi]["text"]) < 12000 else None})
        with open(dump, "w") as fh:
            json.dump(rows, fh, indent=0)

    known = {(k["call_site"], k["signature"]) for k in core.load_known_findings()
             if k.get("property") == "C17" and k.get("status") == "known"}
    # A known entry whose signature is "<clause word> [*]" stands for one root cause that shows at whatever operation
    # happens to consume the damaged value (e.g. a pass that widens f32 results without converting their users: the
    # verifier then fails at func.call, arith.select, arith.divf, ... depending on the input).  Failures of that pass
    # and clause are reported under the wildcard signature, once.
    merged: dict[tuple[str, str], list[tuple[int, dict[str, Any]]]] = defaultdict(list)
    for (cs, sig), items in failures.items():
        wild = sig.split(" [", 1)[0] + " [*]"
        merged[(cs, wild) if (cs, sig) not in known and (cs, wild) in known else (cs, sig)].extend(items)
    failures = merged
    ctx.count("failing.distinct_call_site_signature", len(failures))
    for (cs, sig), items in sorted(failures.items()):
        # smallest module first
        items.sort(key=lambda kr: (len(mods[by_k[kr[0]][3]]["text"]), kr[0]))
        k, r = items[0]
        _, n, spec, mi = by_k[k]
        text = mods[mi]["text"]
        if (cs, sig) not in known and ctx.time_left() > 5 and not os.environ.get("C17_NO_SHRINK"):
            text = shrink_module(n, spec["options"], text, (r["clause"], r["opkind"]), min(25.0, max(3.0, ctx.time_left() - 5)))
        case = {"pass": n, "options": spec["options"], "file": mods[mi]["file"], "chunk": mods[mi]["chunk"], "module": text}
        origin = f"{mods[mi]['file']}#{mods[mi]['chunk']}"
        if "mutant" in mods[mi]:
            case["mutant"] = mods[mi]["mutant"]
            origin = f"a near miss ({'+'.join(mods[mi]['mutant']['edits'])}) of {origin}"
        ctx.fail(cs, sig, case,
                 f"pass {n} {json.dumps(spec['options'])} succeeded on {origin} but left a module "
                 f"that fails '{r['clause']}' at {r['opkind']}: {r['detail']}"[:900],
                 {"clause": r["clause"], "opkind": r["opkind"], "detail": r["detail"], "pairs_with_this_signature": len(items)},
                 "module verifies, walk and Lean ir_wf say ok, both printed forms parse back")
        if len(ctx.samples) < 5:
            ctx.sample({"pass": n, "options": spec["options"], "file": mods[mi]["file"], "signature": sig})


def replay(ctx: core.Ctx, body: dict) -> int:
    global _PASSES
    case = body["case"]
    _PASSES = I.all_passes()
    n, opts, text = case["pass"], case.get("options", {}), case["module"]
    print(f"pass: {n} options: {opts}")
    print("input module:")
    print(text)
    st, nops, gen = I.input_ok(text)
    print(f"input status: {st} ({nops} operations)")
    if st != "ok":
        print("the input is not in the quantifier (not a valid, round-tripping module)")
        return 0
    r = I.run_pair(n, _PASSES[n], {"options": opts}, text, TLIMIT, gen)
    lines = r.pop("lines", None)
    print("outcome:", {k: v for k, v in r.items()})
    if lines is not None:
        try:
            print("lean ir_wf verdict:", ctx.model("ir_wf", lines)[-1])
        except core.InfraError as e:
            print("lean driver unavailable:", e)
    if r["outcome"] == "fail":
        print(f"property FAILS on this case: {I.pass_call_site(_PASSES[n])} [{signature(r['clause'], r['opkind'])}]: {r['detail']}")
        return 1
    print("property holds on this case" if r["outcome"] == "ok" else f"pass did not succeed ({r['outcome']}): allowed")
    return 0
