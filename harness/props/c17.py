"""C17 — every registered pass that succeeds leaves valid, printable IR.

A *program* is a pair (pass instance, input module).  The pass runs on a fresh parse of the module
under a CPU-time guard; if it raises, that is the "reports failure" arm of the statement.  Otherwise the
module it left is judged: (1) structure — the independent Python invariant walk and the PROVED Lean
checker `ir_wf` (XdslModel/IRWF.lean, XdslProofs/C17.lean) on a pointer-level snapshot must both say
ok, and must agree; (2) `module.verify()`; (3) the generic and the custom printed form must parse back
in a fresh context.
"""
from __future__ import annotations

import json
import multiprocessing as mp
import os
import random
import re
import time
from collections import Counter, defaultdict
from typing import Any

from vp import core

from props import c17_ir as I

META = {
    "title": "Every registered pass that succeeds leaves valid, printable IR",
    "category": "translation_validation",
    "design_ref": "DESIGN.md §5 C17",
    "lean_modules": ["XdslProofs.C17"],
    "text": (
        "PARTIAL BY DESIGN. No pass is modelled. programs = (pass instance, input module) pairs; the quantifier "
        "'every registered pass with any accepted options x every valid input module' is EXPLORED (enumerated / "
        "sampled cross product, see rule), not proved. What is proved is the oracle for the structural half of the "
        "statement ('never leaves erased values in use, dangling successors or broken parent links'): the Lean "
        "decision procedure IRWF.checkB over a pointer-level snapshot (an IRStore of C01: _next_op/_prev_op/parent, "
        "_first_op/_last_op, block and region links, first_use/_next_use/_prev_use chains, operand/successor/result/"
        "argument/region tuples, _operand_uses/_successor_uses, index fields) with invB_iff : invB s = true <-> Inv s "
        "(sound AND complete against the store invariant of XdslProofs/C01: every op/block/region exactly once in its container forward and "
        "backward with the right parent, use lists = operand/successor positions, index fields), rootedB_iff : "
        "rootedB s root = true <-> Rooted s root (every operand of an operation attached below the module is a result "
        "of an attached operation / an argument of an attached block that its owner still lists; every successor of an "
        "attached operation is a block of the region the operation sits in; the module has no parent), "
        "attached_iff_chain (under Inv, attachedness = finitely many parent steps reach the module: the fuel of the walk "
        "always suffices, pigeonhole), checkB_iff, and verdict_eq_ok_iff : verdict s root = \"ok\" <-> Inv s /\\ Rooted s root (the "
        "driver answers 'ok' exactly when checkB holds). Per output module the structural verdict is therefore DECIDED "
        "by a proved checker run on a serialisation of the real objects; module.verify() and the print/parse round trip "
        "(generic and custom format, fresh Context) are run on the real implementation and not modelled."
    ),
    "technique": "proved structural checker (Lean) as per-output oracle + enumeration of (pass, module) pairs on real xDSL; "
                 "independent Python invariant walk cross-checked against the Lean verdict on every output",
    "level_note": (
        "Evidence is translation-validation style: programs = (pass, options, module) pairs actually run; "
        "disagreements_checked = output modules on which the Lean verdict and the independent Python walk were compared "
        "clause by clause. The forall-pass / forall-module quantifier is explored only. Quantifier as implemented: passes = "
        "xdsl.transforms.get_all_passes() (default options where default-constructible; the instances offered by "
        "schedule_space for the two passes that override it (apply-individual-rewrite, memref-stream-interleave; the "
        "base-class schedule_space is the default instance); generated assignments for options of type bool/int/"
        "Optional/Literal/tuple[int,...] and for string options with a closed vocabulary in the source; options "
        "naming files, executables and entry points keep their default). Valid input module = a chunk of "
        "tests/**/*.mlir (split on '// -----') or a generated module that parses with every dialect registered and "
        "allow_unregistered (as xdsl-opt), verifies, is structurally consistent and whose two printed forms parse "
        "back BEFORE any pass runs (otherwise a failure could not be attributed to the pass). Any exception raised "
        "by the pass (incl. SystemExit, RecursionError) = reported failure, counted per class; CPU-time-outs "
        "(ITIMER_VIRTUAL) are counted, not judged. 'Parses back' means the parser accepts the printed text; the "
        "re-parsed module is not compared (that is C04/C05). One failure is reported per pair: a structural "
        "clause (erased-value-in-use, dangling-successor before the list clauses when several fail), else verify, else print/parse; "
        "signature = clause word + [kind of the operation at which it is detected]. Snapshot = every object reachable from the module through any "
        "pointer field except value->owner (owners are only named), so leaked detached users of attached values are "
        "checked for consistency but not required to be attached. Trusted: Lean kernel; the serialiser "
        "c17_ir.snapshot_lines (cross-checked by the Python walk on the live objects); Python object identity; the "
        "ghost fields of use lists (last pointer, owning value) are filled in by the serialiser from the chain walk. "
        "Not proved (DESIGN wf_printable): that a structurally well-formed, verified module prints to text that parses."
    ),
    "rule": (
        "case = (pass name, option dict, module text). Quick: a seeded sample of 600 corpus chunks + 40 generated modules is "
        "validated; for every registered pass a seeded sample of the valid ones (half from files whose RUN lines or path "
        "name the pass, half uniform), "
        "default options plus generated option assignments / schedule_space instances, ~2000 pairs. Thorough: the "
        "full cross product default-instance x every valid corpus module + generated modules, plus option "
        "assignments and schedule_space instances on a sample, as far as the budget allows (pairs not reached are "
        "counted). Non-trivial = the pass succeeded and changed the module (generic print differs); distinct = "
        "distinct (pass, options, module)."
    ),
    "trusted_base": [
        "snapshot serialiser harness/props/c17_ir.py (cross-checked against an independent walk over the live objects)",
        "hand-written Lean store XdslModel/IRStore.lean (the snapshot IS a store; no mutator is used) and checker XdslModel/IRWF.lean",
    ],
    "budget": {"quick": 80, "thorough": 1150},
}

TLIMIT = 5.0
SIG_WORD = {
    "op-list": "parent-link", "block-list": "parent-link", "region-list": "parent-link", "root": "parent-link",
    "use-list": "use-list", "block-use-list": "use-list", "result-index": "index-field", "arg-index": "index-field",
    "erased-value-in-use": "erased-value-in-use", "dangling-successor": "dangling-successor",
    "verify": "verify", "printed-form-does-not-parse": "printed-form-does-not-parse", "print-raises": "print-raises",
}


def signature(clause: str, opkind: str) -> str:
    return f"{SIG_WORD.get(clause, clause)} [{opkind}]"


# ---------------------------------------------------------------------------------------------
# modules
# ---------------------------------------------------------------------------------------------

_CHUNKS: list[tuple[str, int, str]] = []
_MODS: list[dict[str, Any]] = []
_PASSES: dict[str, type] = {}


def corpus_chunks() -> list[tuple[str, int, str]]:
    root = core.REPO / "tests"
    out = []
    for p in sorted(root.rglob("*.mlir")):
        try:
            text = p.read_text()
        except Exception:  # noqa: BLE001
            continue
        for i, part in enumerate(text.split("// -----")):
            if part.strip():
                out.append((str(p.relative_to(core.REPO)), i, part))
    return out


def generated_modules(rng: random.Random, n: int) -> list[tuple[str, int, str]]:
    from vp import proggen

    out = []
    for k in range(n):
        r = rng.random()
        try:
            if r < 0.7:
                cfg = proggen.Config(select=rng.random() < 0.5, max_stmts=rng.choice([3, 5, 8]),
                                     loop_shapes=rng.choice([[], [], ["fold", "nest"], ["licm", "hoist_if", "while"]]))
                text = proggen.ProgGen(rng, cfg).program()["text"]
            elif r < 0.85:
                text = proggen.AffineGen(rng).program()["text"]
            else:
                text = proggen.SymrefGen(rng).program()["text"]
        except Exception:  # noqa: BLE001
            continue
        out.append(("<generated>", k, text))
    return out


def _validate(i: int) -> tuple[int, str, int, str]:
    st, n, gen = I.input_ok(_CHUNKS[i][2])
    return i, st, n, gen


def _init_worker() -> None:
    import warnings
    warnings.simplefilter("ignore")
    I.all_passes()


# ---------------------------------------------------------------------------------------------
# worker: a batch of tasks -> results (+ the Lean verdicts of the batch)
# ---------------------------------------------------------------------------------------------

def _work(batch: list[tuple[int, str, dict[str, Any], int]]) -> list[dict[str, Any]]:
    out: list[dict[str, Any]] = []
    lean_in: list[str] = []
    spans: list[tuple[int, int]] = []
    for (k, name, spec, mi) in batch:
        mod = _MODS[mi]
        r = I.run_pair(name, _PASSES[name], spec, mod["text"], TLIMIT, mod["generic"])
        r["k"] = k
        lines = r.pop("lines", None)
        if lines is not None:
            spans.append((len(out), len(lean_in) + len(lines) - 1))
            lean_in.extend(lines)
        out.append(r)
    if lean_in:
        try:
            res = core.run_model("ir_wf", lean_in, timeout=900)
        except Exception as e:  # noqa: BLE001
            for j, _ in spans:
                out[j]["lean"] = f"infra: {e}"[:200]
            return out
        bad = [x for x in res if x == "bad-op"]
        for j, pos in spans:
            out[j]["lean"] = "bad-op in snapshot" if bad else res[pos]
    return out


def run_tasks(ctx: core.Ctx, tasks: list[tuple[int, str, dict[str, Any], int]], workers: int, deadline: float,
              batch: int = 24) -> tuple[list[dict[str, Any]], int]:
    """returns (results in task order for the batches that were run, number of tasks not reached)"""
    batches = [tasks[i:i + batch] for i in range(0, len(tasks), batch)]
    results: list[dict[str, Any]] = []
    done = 0
    with mp.get_context("fork").Pool(workers, initializer=_init_worker) as pool:
        it = pool.imap(_work, batches)
        for b in batches:
            if time.time() > deadline:
                pool.terminate()
                break
            try:
                results.extend(it.next(timeout=max(5.0, deadline - time.time() + 60)))
            except mp.TimeoutError:
                pool.terminate()
                break
            done += len(b)
    return results, len(tasks) - done


# ---------------------------------------------------------------------------------------------
# affinity: which corpus files were written for which pass
# ---------------------------------------------------------------------------------------------

def affinity(mods: list[dict[str, Any]], names: list[str]) -> dict[str, list[int]]:
    by_file: dict[str, set[str]] = {}
    for m in mods:
        if m["file"] in by_file or m["file"] == "<generated>":
            continue
        try:
            head = (core.REPO / m["file"]).read_text()
        except Exception:  # noqa: BLE001
            head = ""
        runs = " ".join(l for l in head.splitlines() if "RUN:" in l)
        toks = set(re.findall(r"[a-z][a-z0-9-]+", runs)) | set(re.findall(r"[a-z][a-z0-9-]+", m["file"].replace("_", "-")))
        by_file[m["file"]] = toks
    out: dict[str, list[int]] = {n: [] for n in names}
    for i, m in enumerate(mods):
        toks = by_file.get(m["file"], set())
        for n in names:
            if n in toks:
                out[n].append(i)
    return out


# ---------------------------------------------------------------------------------------------
# shrinking: delete operations (with their regions) while the same failure persists
# ---------------------------------------------------------------------------------------------

def judge(name: str, options: dict[str, Any], text: str) -> tuple[str, str, str] | None:
    """(clause, opkind, detail) if the pair fails, None otherwise (also when the input is not valid / the pass raises)"""
    st, _, gen = I.input_ok(text)
    if st != "ok":
        return None
    r = I.run_pair(name, _PASSES[name], {"options": options}, text, TLIMIT, gen)
    if r["outcome"] != "fail":
        return None
    return r["clause"], r["opkind"], r["detail"]


def shrink_module(name: str, options: dict[str, Any], text: str, want: tuple[str, str], budget_s: float) -> str:
    from xdsl.printer import Printer
    import io

    t_end = time.time() + budget_s

    def fails(t: str) -> bool:
        j = judge(name, options, t)
        return j is not None and (j[0], j[1]) == want

    cur = text

    # phase 0: delta debugging on the list of top-level operations (functions)
    def keep_top(keep: list[int]) -> str | None:
        try:
            m = I.parse_module(cur)
            tops = list(m.body.block.ops)
            ks = set(keep)
            for j in range(len(tops) - 1, -1, -1):
                if j not in ks:
                    if any(r.first_use is not None for r in tops[j].results):
                        return None
                    tops[j].detach()
                    tops[j].erase()
            buf = io.StringIO()
            Printer(stream=buf, print_generic_format=True).print_op(m)
            return buf.getvalue()
        except Exception:  # noqa: BLE001
            return None

    try:
        ntop = len(list(I.parse_module(cur).body.block.ops))
    except Exception:  # noqa: BLE001
        ntop = 0
    if ntop > 3:
        def still(keep: list[int]) -> bool:
            if time.time() > t_end:
                return False
            c = keep_top(keep)
            return c is not None and fails(c)
        kept = core.shrink_list(list(range(ntop)), still, max_steps=400)
        if len(kept) < ntop:
            c = keep_top(kept)
            if c is not None and fails(c):
                cur = c

    progress = True
    while progress and time.time() < t_end:
        progress = False
        try:
            n = sum(1 for _ in I.parse_module(cur).walk())
        except Exception:  # noqa: BLE001
            return cur
        i = n - 1
        while i >= 1 and time.time() < t_end:
            try:
                m = I.parse_module(cur)
                ops = list(m.walk())
                if i >= len(ops):
                    i = len(ops) - 1
                    continue
                op = ops[i]
                if any(r.first_use is not None for r in op.results) or op.parent is None:
                    i -= 1
                    continue
                op.detach()
                op.erase()
                buf = io.StringIO()
                Printer(stream=buf, print_generic_format=True).print_op(m)
                cand = buf.getvalue()
            except Exception:  # noqa: BLE001
                i -= 1
                continue
            if fails(cand):
                cur = cand
                progress = True
            i -= 1
    return cur


# ---------------------------------------------------------------------------------------------
# the run
# ---------------------------------------------------------------------------------------------

def build_modules(ctx: core.Ctx, workers: int, n_generated: int, sample: int | None = None) -> list[dict[str, Any]]:
    global _CHUNKS, _MODS
    chunks = corpus_chunks()
    ctx.count("corpus.chunks", len(chunks))
    gen = generated_modules(ctx.rng, n_generated)  # first use of the rng: the same modules in both tiers
    if sample is not None and sample < len(chunks):
        # quick tier: a seeded sample of the chunks is validated (validation costs as much as a few passes)
        keep = sorted(ctx.rng.sample(range(len(chunks)), sample))
        chunks = [chunks[i] for i in keep]
        ctx.count("corpus.chunks_sampled", len(chunks))
    ctx.count("generated.modules", len(gen))
    _CHUNKS = chunks + gen
    with mp.get_context("fork").Pool(workers, initializer=_init_worker) as pool:
        res = pool.map(_validate, range(len(_CHUNKS)), chunksize=16)
    mods = []
    for i, st, n, g in res:
        fam = "generated" if _CHUNKS[i][0] == "<generated>" else "corpus"
        ctx.count(f"{fam}.input.{st}")
        if st == "ok":
            mods.append({"file": _CHUNKS[i][0], "chunk": _CHUNKS[i][1], "text": _CHUNKS[i][2], "ops": n, "generic": g})
    _MODS = mods
    return mods


def run(ctx: core.Ctx) -> None:
    global _PASSES
    timing: dict[str, float] = {}
    ctx.extra["timing_s"] = timing
    t = time.time()
    ctx.lean()
    timing["lean_build_and_audit"] = round(time.time() - t, 1)
    quick = ctx.tier == "quick"
    workers = min(8 if quick else 16, max(1, (os.cpu_count() or 2)))
    rng = ctx.rng
    _PASSES = I.all_passes()
    names = list(_PASSES)
    ctx.count("passes.registered", len(names))
    t = time.time()
    mods = build_modules(ctx, workers, 40 if quick else 320, 600 if quick else None)
    timing["validate_inputs"] = round(time.time() - t, 1)
    if not mods:
        raise core.InfraError("no valid input module")
    nmod = len(mods)
    aff = affinity(mods, names)
    small = [i for i, m in enumerate(mods) if m["ops"] <= 60]

    # pass instances: default, generated option assignments
    specs: dict[str, list[dict[str, Any]]] = {}
    for n in names:
        cls = _PASSES[n]
        sp: list[dict[str, Any]] = []
        try:
            with I.quiet():
                cls()
            sp.append({"options": {}})
            ctx.count("passes.default_constructible")
        except Exception:  # noqa: BLE001
            pass
        for a in I.option_assignments(n, cls, rng, 3 if quick else 6):
            sp.append({"options": I.jsonable_options(a)})
        specs[n] = sp
        if not sp:
            ctx.count("passes.no_instance_constructible")
    sched_passes = [n for n in names if "schedule_space" in vars(_PASSES[n])]

    tasks: list[tuple[int, str, dict[str, Any], int]] = []

    def add(n: str, spec: dict[str, Any], mi: int) -> None:
        tasks.append((len(tasks), n, spec, mi))

    if quick:
        per_pass = 17
        for n in names:
            if not specs[n]:
                continue
            pool_aff = aff.get(n, [])
            for j in range(per_pass):
                if pool_aff and j % 2 == 0:
                    mi = rng.choice(pool_aff)
                else:
                    mi = rng.randrange(nmod)
                spec = specs[n][0] if (j < 11 or len(specs[n]) == 1) else rng.choice(specs[n][1:])
                add(n, spec, mi)
    else:
        for n in names:
            if not specs[n]:
                continue
            for mi in range(nmod):
                add(n, specs[n][0], mi)
        for n in names:
            for spec in specs[n][1:]:
                pool = list(dict.fromkeys(aff.get(n, []) + [rng.randrange(nmod) for _ in range(110)]))
                for mi in pool[:150]:
                    add(n, spec, mi)
        # shuffle so that a budget cut removes a random part, deterministically per seed
        rng.shuffle(tasks)
        tasks = [(k, n, s, mi) for k, (_, n, s, mi) in enumerate(tasks)]
    # schedule_space instances (computed here: they depend on the module)
    for n in sched_passes:
        cand = list(dict.fromkeys(aff.get(n, []) + [rng.choice(small) for _ in range(6 if quick else 60)]))
        rng.shuffle(cand)
        budget = 40 if quick else 1500
        for mi in cand:
            if budget <= 0 or ctx.time_left() < 30:
                break
            inst = I.schedule_instances(_PASSES[n], mods[mi]["text"], TLIMIT)
            ctx.count(f"schedule_space.{n}.instances", len(inst))
            if len(inst) > (4 if quick else 24):
                inst = rng.sample(inst, 4 if quick else 24)
            for o in inst:
                add(n, {"options": o, "from_schedule_space": True}, mi)
                budget -= 1
    ctx.count("pairs.planned", len(tasks))

    # under heavy machine load the fixed costs (Lean audit, input validation) can eat the budget: the pairs
    # still get a minimum slice, so that the evidence is never vacuous
    deadline = max(ctx.t0 + ctx.budget_s - (12 if quick else 60), time.time() + (40 if quick else 300))
    t = time.time()
    results, not_reached = run_tasks(ctx, tasks, workers, deadline)
    timing["run_pairs"] = round(time.time() - t, 1)
    ctx.count("pairs.not_reached_budget", not_reached)
    by_k = {t[0]: t for t in tasks}

    failures: dict[tuple[str, str], list[tuple[int, dict[str, Any]]]] = defaultdict(list)
    for r in results:
        k, n, spec, mi = by_k[r["k"]]
        ctx.ev()
        ctx.programs += 1
        oc = r["outcome"]
        ctx.count(f"outcome.{oc}")
        if oc == "raised":
            ctx.count(f"raised.{r['exc']}")
            continue
        if oc in ("timeout", "timeout-in-check", "no-instance"):
            continue
        if spec.get("from_schedule_space"):
            ctx.count("pairs.from_schedule_space")
        elif spec["options"]:
            ctx.count("pairs.generated_options")
        else:
            ctx.count("pairs.default_options")
        ctx.count("family." + ("generated" if mods[mi]["file"] == "<generated>" else "corpus"))
        if r.get("changed"):
            ctx.nt((n, json.dumps(spec["options"], sort_keys=True), mods[mi]["file"], mods[mi]["chunk"]))
            ctx.count("succeeded.changed_module")
        # Lean verdict vs Python walk
        lean = r.get("lean")
        expect = "ok" if not r.get("walk") else "fail " + ",".join(r["walk"])
        case = {"pass": n, "options": spec["options"], "file": mods[mi]["file"], "chunk": mods[mi]["chunk"],
                "module": mods[mi]["text"] if len(mods[mi]["text"]) < 6000 else mods[mi]["generic"][:20000]}
        if lean is None:
            ctx.count("lean.skipped_too_large")
        elif lean.startswith("infra") or lean.startswith("bad-op"):
            raise core.InfraError(f"ir_wf driver: {lean}")
        else:
            ctx.disagreements_checked += 1
            ctx.count("lean.verdict." + ("ok" if lean == "ok" else "fail"))
            if lean != expect:
                ctx.mismatch("correspondence:C17/ir_wf", case, expect, lean,
                             "Lean checker and Python invariant walk disagree on the module the pass left")
        if oc == "fail":
            cs = I.pass_call_site(_PASSES[n])
            failures[(cs, signature(r["clause"], r["opkind"]))].append((r["k"], r))
            ctx.count("fail." + SIG_WORD.get(r["clause"], r["clause"]))
    ctx.sample({"pairs_run": len(results), "valid_modules": nmod, "passes": len(names)})

    dump = os.environ.get("C17_DUMP")
    if dump:
        rows = []
        for (cs, sig), items in failures.items():
            for k, r in items:
                _, n, spec, mi = by_k[k]
                rows.append({"call_site": cs, "signature": sig, "pass": n, "options": spec["options"], "file": mods[mi]["file"],
                             "chunk": mods[mi]["chunk"], "ops": mods[mi]["ops"], "clause": r["clause"], "opkind": r["opkind"],
                             "detail": r["detail"], "len": len(mods[mi]["text"]),
                             "text": mods[mi]["text"] if len(mods[mi]["text"]) < 12000 else None})
        with open(dump, "w") as fh:
            json.dump(rows, fh, indent=0)

    known = {(k["call_site"], k["signature"]) for k in core.load_known_findings()
             if k.get("property") == "C17" and k.get("status") == "known"}
    ctx.count("failing.distinct_call_site_signature", len(failures))
    for (cs, sig), items in sorted(failures.items()):
        # smallest module first
        items.sort(key=lambda kr: (len(mods[by_k[kr[0]][3]]["text"]), kr[0]))
        k, r = items[0]
        _, n, spec, mi = by_k[k]
        text = mods[mi]["text"]
        if (cs, sig) not in known and ctx.time_left() > 5 and not os.environ.get("C17_NO_SHRINK"):
            text = shrink_module(n, spec["options"], text, (r["clause"], r["opkind"]), min(25.0, max(3.0, ctx.time_left() - 5)))
        case = {"pass": n, "options": spec["options"], "file": mods[mi]["file"], "chunk": mods[mi]["chunk"], "module": text}
        ctx.fail(cs, sig, case,
                 f"pass {n} {json.dumps(spec['options'])} succeeded on {mods[mi]['file']}#{mods[mi]['chunk']} but left a module "
                 f"that fails '{r['clause']}' at {r['opkind']}: {r['detail']}"[:900],
                 {"clause": r["clause"], "opkind": r["opkind"], "detail": r["detail"], "pairs_with_this_signature": len(items)},
                 "module verifies, walk and Lean ir_wf say ok, both printed forms parse back")
        if len(ctx.samples) < 5:
            ctx.sample({"pass": n, "options": spec["options"], "file": mods[mi]["file"], "signature": sig})


def replay(ctx: core.Ctx, body: dict) -> int:
    global _PASSES
    case = body["case"]
    _PASSES = I.all_passes()
    n, opts, text = case["pass"], case.get("options", {}), case["module"]
    print(f"pass: {n} options: {opts}")
    print("input module:")
    print(text)
    st, nops, gen = I.input_ok(text)
    print(f"input status: {st} ({nops} operations)")
    if st != "ok":
        print("the input is not in the quantifier (not a valid, round-tripping module)")
        return 0
    r = I.run_pair(n, _PASSES[n], {"options": opts}, text, TLIMIT, gen)
    lines = r.pop("lines", None)
    print("outcome:", {k: v for k, v in r.items()})
    if lines is not None:
        try:
            print("lean ir_wf verdict:", ctx.model("ir_wf", lines)[-1])
        except core.InfraError as e:
            print("lean driver unavailable:", e)
    if r["outcome"] == "fail":
        print(f"property FAILS on this case: {I.pass_call_site(_PASSES[n])} [{signature(r['clause'], r['opkind'])}]: {r['detail']}")
        return 1
    print("property holds on this case" if r["outcome"] == "ok" else f"pass did not succeed ({r['outcome']}): allowed")
    return 0
